use gluon::{new_vm, ThreadExt, vm::api::{OpaqueValue, FunctionRef, Hole, generic::A}, vm::lazy::Lazy, RootedThread};
type L = OpaqueValue<RootedThread, Lazy<A>>; type V = OpaqueValue<RootedThread, A>;
fn main() {
    let which = std::env::args().nth(1).unwrap_or_default();
    let vm = new_vm();
    vm.run_io(true);
    if which == "callreset" {
        use gluon::vm::api::OwnedFunction;
        use gluon::vm::thread::ThreadInternal;
        let src = r#"let h x : Int -> Int = if x #Int== 0 then error "boom" else x
let f x : Int -> Int = 100 #Int+ h x
f"#;
        let (mut f, _) = vm.run_expr::<OwnedFunction<fn(i32) -> i32>>("t", src).unwrap();
        println!("frames at start: {}", vm.context().frame_level());
        for i in 0..3 {
            let r = f.call(0).map_err(|e| e.to_string().lines().next().unwrap_or("").to_string());
            println!("failing call {} -> {:?}; frames now {}", i, r, vm.context().frame_level());
        }
        let r = f.call(2);
        println!("good call f 2 -> {:?}; frames now {}", r, vm.context().frame_level());
        let (mut g, _) = vm.run_expr::<OwnedFunction<fn(i32) -> i32>>("t2", r#"let g x : Int -> Int = x #Int* 2 in g"#).unwrap();
        println!("good call g 3 -> {:?}", g.call(3));
        if !matches!(r, Ok(102)) { std::process::exit(4); }
    }
    if which == "dce" {
        let progs = [
            ("proj-call", r#"let m = { f = \x -> error "boom" } in let _ = m.f 1 in 2"#),
            ("lambda-call", r#"let _ = (\x -> error "boom") 1 in 2"#),
            ("ident-call", r#"let f x = error "boom" in let _ = f 1 in 2"#),
        ];
        let mut bad = false;
        for (name, src) in progs.iter() {
            let mut outs = vec![];
            for opt in [false, true] {
                let vm = new_vm();
                vm.get_database_mut().set_optimize(opt);
                let r = vm.run_expr::<i32>(name, src).map(|x| x.0).map_err(|e| e.to_string().lines().next().unwrap_or("").to_string());
                outs.push(format!("{:?}", r));
            }
            println!("{}: unoptimised {} | optimised {}", name, outs[0], outs[1]);
            if outs[0] != outs[1] { bad = true; }
        }
        if bad { std::process::exit(5); }
    }
    if which == "primop" {
        let progs = ["'a' #Char+ 'b'", "\"a\" #String+ \"b\"", "'a' #Char< 'b'", "1 #Int+ 2", "\"a\" #String== \"b\""];
        let mut bad = false;
        for src in progs.iter() {
            let vm = new_vm();
            let tc = vm.typecheck_str("t", src, None).map(|(_, t)| t.to_string()).map_err(|e| e.to_string().lines().next().unwrap_or("").to_string());
            let r = std::panic::catch_unwind(std::panic::AssertUnwindSafe(|| {
                vm.run_expr::<OpaqueValue<RootedThread, Hole>>("t", src).map(|_| ()).map_err(|e| e.to_string().lines().next().unwrap_or("").to_string())
            }));
            let out = match r { Ok(x) => format!("{:?}", x), Err(_) => { "HOST PANIC".to_string() } };
            if tc.is_ok() && out == "HOST PANIC" { bad = true; }
            println!("{:24} typecheck: {:?}   run: {}", src, tc, out);
        }
        if bad { std::process::exit(6); }
    }
    if which == "reload" {
                let run = |vm: &RootedThread| vm.run_expr::<i32>("user", "import! m").map(|x| x.0).map_err(|e| e.to_string().lines().next().unwrap_or("").to_string());
        // route A: ThreadExt::load_script (add_module + invalidate)
        let vm = new_vm();
        vm.load_script("m", "1").unwrap();
        let a1 = run(&vm);
        vm.load_script("m", "2").unwrap();
        let a2 = run(&vm);
        println!("ThreadExt::load_script:      first {:?} after reload {:?}", a1, a2);
        // route B: the std.io.load_script primitive (Executable::load_script on source text)
        let vm = new_vm();
        vm.run_io(true);
        let src = r#"
let io @ { ? } = import! std.io
let { wrap } = import! std.applicative
let { flat_map } = import! std.monad
do _ = io.load_script "m" "1"
do r1 = io.run_expr "import! m"
do _ = io.load_script "m" "2"
do r2 = io.run_expr "import! m"
wrap (r1.value, r2.value)
"#;
        let r = vm.run_expr::<gluon::vm::api::IO<(String, String)>>("t", src).map(|x| x.0).map_err(|e| e.to_string());
        println!("std.io.load_script:          {:?}", r);
        let b2: Result<i32, String> = match r { Ok(gluon::vm::api::IO::Value((_, ref b))) if b == "2" => Ok(2), _ => Err("stale".into()) };
        if b2 != Ok(2) { std::process::exit(7); }
    }
    if which == "gcmutex" {
        use std::sync::Arc;
        let m = Arc::new(gluon::vm::gc::mutex::Mutex::new(0i64));
        let (tx, rx) = std::sync::mpsc::channel();
        for _ in 0..2 {
            let m = m.clone();
            let tx = tx.clone();
            std::thread::spawn(move || {
                for _ in 0..2_000_000 {
                    let mut g = m.lock().unwrap();
                    *g += 1;
                }
                tx.send(()).unwrap();
            });
        }
        let mut done = 0;
        while done < 2 {
            match rx.recv_timeout(std::time::Duration::from_secs(20)) {
                Ok(()) => done += 1,
                Err(_) => { println!("gc::mutex::Mutex: DEADLOCK (two threads doing lock/unlock made no progress for 20s)"); std::process::exit(8); }
            }
        }
        println!("gc::mutex::Mutex: both threads finished, total = {}", *m.lock().unwrap());
    }
    if which == "pushcross" {
        // two sibling threads, each pushes a value rooted in the other one onto its own stack
        let t1 = vm.new_thread().unwrap();
        let t2 = vm.new_thread().unwrap();
        let (v1, _) = t1.run_expr::<OpaqueValue<RootedThread, Hole>>("a", "{ x = 1, y = \"a\" }").unwrap();
        let (v2, _) = t2.run_expr::<OpaqueValue<RootedThread, Hole>>("b", "{ x = 2, y = \"b\" }").unwrap();
        let (tx, rx) = std::sync::mpsc::channel();
        for (t, v) in vec![(t1.clone(), v2.clone()), (t2.clone(), v1.clone())] {
            let tx = tx.clone();
            std::thread::spawn(move || {
                for _ in 0..300_000 {
                    t.push(v.clone()).unwrap();
                    t.pop();
                }
                tx.send(()).unwrap();
            });
        }
        let mut done = 0;
        while done < 2 {
            match rx.recv_timeout(std::time::Duration::from_secs(30)) {
                Ok(()) => done += 1,
                Err(_) => { println!("pushcross: DEADLOCK (no progress for 30s)"); std::process::exit(9); }
            }
        }
        println!("pushcross: both threads finished");
    }
    if which == "primpanic" {
        // run in a child process per program: before the fix the process aborts (SIGABRT)
        let progs = [
            ("wrapping_div 1 0", "let p = import! std.int.prim in p.wrapping_div 1 0"),
            ("rem min -1", "let p = import! std.int.prim in p.rem p.min_value (0 #Int- 1)"),
            ("is_digit 'a' 99", "let p = import! std.char.prim in p.is_digit 'a' 99"),
            ("from_str_radix 99", "let p = import! std.int.prim in p.from_str_radix \"12\" 99"),
            ("pow overflow", "let p = import! std.int.prim in p.pow 10 100"),
            ("after a panic the vm still works", "1 #Int+ 2"),
        ];
        if let Some(i) = std::env::args().nth(2).and_then(|s| s.parse::<usize>().ok()) {
            let r = vm.run_expr::<OpaqueValue<RootedThread, Hole>>("t", progs[i].1).map(|_| ()).map_err(|e| e.to_string().lines().next().unwrap_or("").to_string());
            let again = vm.run_expr::<i32>("t2", "1 #Int+ 2").map(|x| x.0).map_err(|e| e.to_string());
            println!("{:34} -> {:?}; then 1+2 on the same vm -> {:?}", progs[i].0, r, again);
            return;
        }
        let exe = std::env::current_exe().unwrap();
        let mut bad = false;
        for i in 0..progs.len() {
            let out = std::process::Command::new(&exe).arg("primpanic").arg(i.to_string()).stderr(std::process::Stdio::null()).output().unwrap();
            print!("{}", String::from_utf8_lossy(&out.stdout));
            if !out.status.success() { println!("{:34} -> PROCESS DIED: {:?}", progs[i].0, out.status); bad = true; }
        }
        if bad { std::process::exit(10); }
    }
    if which == "modlazy" {
        // a lazy cell that lives in a loaded module (global heap, generation 0), forced from a child thread, then collections
        vm.load_script("c05cell", r#"
let { lazy } = import! std.lazy
let { (++) } = import! std.string
let left = "cell-payload:0123456789abcdef"
{ cell = lazy (\_ -> left ++ ":0123456789abcdef0123456789abcdef") }
"#).unwrap_or_else(|e| panic!("{}", e));
        let expected = "cell-payload:0123456789abcdef:0123456789abcdef0123456789abcdef";
        let force_src = r#"let { force } = import! std.lazy in let m = import! c05cell in force m.cell"#;
        let churn = r#"
let { (++) } = import! std.string
let list @ { List } = import! std.list
let left = "XXXXXXXXXXXXXXXXXXXXXXXXXXXXX"
let churn n acc : Int -> List String -> List String =
    if n == 0 then acc else churn (n - 1) (Cons (left ++ "YYYYYYYYYYYYYYYYYYYYYYYYYYYYYYYYY") acc)
match churn 64 Nil with
| Cons x _ -> x
| Nil -> ""
"#;
        let forcer = std::env::args().nth(2).unwrap_or("child".into());
        let child = vm.new_thread().unwrap();
        let first = if forcer == "child" { child.run_expr::<String>("f0", force_src) } else { vm.run_expr::<String>("f0", force_src) };
        println!("first force ({}): {:?}", forcer, first.map(|x| x.0).map_err(|e| e.to_string()));
        let mut bad = false;
        for i in 0..4 {
            child.collect();
            let _ = child.run_expr::<String>(&format!("churn{}", i), churn).unwrap();
            vm.collect();
            let _ = vm.run_expr::<String>(&format!("rchurn{}", i), churn).unwrap();
            let again = vm.run_expr::<String>(&format!("f{}", i + 1), force_src).map(|x| x.0).map_err(|e| e.to_string());
            println!("force after {} round(s) of collections: {:?}", i + 1, again);
            if again.as_ref().map(|s| s.as_str()) != Ok(expected) { bad = true; }
        }
        if bad { std::process::exit(6); }
    }
    if which == "prelazy" {
        // the same cell, installed as a global by the host (CompilerDatabase::set_global, also the sink of Precompiled::load_script)
        let (v, typ) = vm.run_expr::<OpaqueValue<RootedThread, Hole>>("mk", r#"
let { lazy } = import! std.lazy
let { (++) } = import! std.string
let left = "cell-payload:0123456789abcdef"
{ cell = lazy (\_ -> left ++ ":0123456789abcdef0123456789abcdef") }
"#).unwrap_or_else(|e| panic!("{}", e));
        // (a serialised Global cannot carry userdata, so the cell reaches set_global through the public host API)
        let vm2 = vm.clone();
        vm.get_database_mut().set_global("c05pre", typ, Default::default(), v.get_value());
        drop(v);
        let expected = "cell-payload:0123456789abcdef:0123456789abcdef0123456789abcdef";
        let force_src = r#"let { force } = import! std.lazy in let m = import! c05pre in force m.cell"#;
        let churn = r#"
let { (++) } = import! std.string
let list @ { List } = import! std.list
let left = "XXXXXXXXXXXXXXXXXXXXXXXXXXXXX"
let churn n acc : Int -> List String -> List String =
    if n == 0 then acc else churn (n - 1) (Cons (left ++ "YYYYYYYYYYYYYYYYYYYYYYYYYYYYYYYYY") acc)
match churn 64 Nil with
| Cons x _ -> x
| Nil -> ""
"#;
        let _ = force_src;
        let _ = vm2.run_expr::<OpaqueValue<RootedThread, Hole>>("t2", "let l = import! std.lazy in l.force").unwrap();
        type LS = OpaqueValue<RootedThread, Lazy<String>>;
        let (mut force, _) = vm2.run_expr::<gluon::vm::api::OwnedFunction<fn(LS) -> String>>("ff", "let { force } = import! std.lazy in \\c -> force c").unwrap();
        let cell = || -> LS { vm2.get_global("c05pre.cell").unwrap_or_else(|e| panic!("{}", e)) };
        println!("first force: {:?}", force.call(cell()).map_err(|e| e.to_string()));
        let mut bad = false;
        for i in 0..3 {
            vm2.collect();
            let _ = vm2.run_expr::<String>(&format!("rchurn{}", i), churn).unwrap();
            let again = force.call(cell()).map_err(|e| e.to_string());
            println!("force after {} collection(s): {:?}", i + 1, again.as_ref().map(|s| s.chars().take(70).collect::<String>()));
            if again.as_ref().map(|s| s.as_str()) != Ok(expected) { bad = true; }
        }
        if bad { std::process::exit(7); }
    }
    if which == "ioimport" {
        // C02: an imported module whose value is an IO action, with IO execution enabled
        let mk = |run_io: bool| { let vm = new_vm(); vm.run_io(run_io); vm };
        for run_io in [false, true] {
            let vm = mk(run_io);
            vm.load_script("iomod", r#"let { wrap } = import! std.io in wrap 41"#).unwrap_or_else(|e| panic!("{}", e));
            let typ = vm.typecheck_str("main", "import! iomod", None).map(|x| x.1.to_string()).map_err(|e| e.to_string());
            let r = vm.run_expr::<OpaqueValue<RootedThread, Hole>>("main", r#"let { flat_map, wrap } = import! std.io in let m = import! iomod in flat_map (\x -> wrap (x #Int+ 1)) m"#)
                .map(|x| format!("{:?} : {}", x.0, x.1)).map_err(|e| e.to_string().lines().take(3).collect::<Vec<_>>().join(" | "));
            println!("run_io={}: import! iomod : {:?}; flat_map (\\x -> wrap (x+1)) m = {:?}", run_io, typ, r);
            if r.is_err() { std::process::exit(8); }
        }
    }
    if which == "detvar" {
        // C16: the same ill-typed / polymorphic program in a fresh VM and in a VM that compiled unrelated code before
        let progs = [
            ("unbound-var", r#"let f x = x in f 1 2"#),
            ("infinite", r#"let f x = f in f"#),
            ("poly", r#"let id x = x in { id, k = \x y -> x }"#),
            ("mismatch", r#"let f x y = x in (f 1) #Int+ 1"#),
            ("record", r#"let f r = r.a in f { b = 1 }"#),
        ];
        let mut bad = false;
        for (name, src) in progs.iter() {
            let fresh = new_vm();
            let a = fresh.typecheck_str(name, src, None).map(|x| x.1.to_string()).map_err(|e| e.to_string());
            let used = new_vm();
            let _ = used.run_expr::<OpaqueValue<RootedThread, Hole>>("warm1", "let l = import! std.list in let m = import! std.map in l.of [1,2,3]");
            let _ = used.typecheck_str("warm2", "let f x y z = { x, y, z } in f", None);
            let b = used.typecheck_str(name, src, None).map(|x| x.1.to_string()).map_err(|e| e.to_string());
            println!("{}: {}", name, if a == b { "same".to_string() } else { format!("DIFFERENT\n--- fresh\n{:?}\n--- used\n{:?}", a, b) });
            if a != b { bad = true; }
        }
        if bad { std::process::exit(9); }
    }
    if which == "lazygc" {
        // C14: a child thread forcing an already evaluated lazy value while an ancestor collects on another OS thread
        let child = vm.new_thread().unwrap();
        let (tx, rx) = std::sync::mpsc::channel();
        let tx2 = tx.clone();
        let root = vm.clone();
        let stop = std::sync::Arc::new(std::sync::atomic::AtomicBool::new(false));
        let stop2 = stop.clone();
        std::thread::spawn(move || {
            let mut n = 0u64;
            while !stop2.load(std::sync::atomic::Ordering::Relaxed) { root.collect(); n += 1; }
            tx2.send(format!("collector finished after {} collections", n)).unwrap();
        });
        std::thread::spawn(move || {
            let control = std::env::args().nth(2).map_or(false, |a| a == "control");
            // control: the same loop calling another primitive on a heap value instead of `force`
            let src = if control { r#"
let array = import! std.array
let l = [1, 2, 3]
let loop n acc : Int -> Int -> Int = if n #Int== 0 then acc else (let _ = array.len l in loop (n #Int- 1) (acc #Int+ 1))
loop 5000 0
"# } else { r#"
let { lazy, force } = import! std.lazy
let l = lazy (\_ -> [1, 2, 3])
let _ = force l
let loop n acc : Int -> Int -> Int = if n #Int== 0 then acc else (let _ = force l in loop (n #Int- 1) (acc #Int+ 1))
loop 5000 0
"# };
            let r = child.run_expr::<i32>("forcer", src).map(|x| x.0).map_err(|e| e.to_string());
            tx.send(format!("forcer finished: {:?}", r)).unwrap();
        });
        match rx.recv_timeout(std::time::Duration::from_secs(60)) {
            Ok(m) => { println!("{}", m); stop.store(true, std::sync::atomic::Ordering::Relaxed); println!("{}", rx.recv_timeout(std::time::Duration::from_secs(30)).unwrap_or("collector: no answer".into())); }
            Err(_) => { println!("DEADLOCK: neither the forcing thread nor the collecting thread made progress for 60s"); std::process::exit(10); }
        }
    }
    if which == "recorder" {
        // C02: a record literal whose fields are written in another order than its annotation
        let progs = [
            ("annotated-reordered", r#"let r : { x : Int, y : String } = { y = "a", x = 2 } in r.x #Int+ 1"#),
            ("annotated-same-order", r#"let r : { x : Int, y : String } = { x = 2, y = "a" } in r.x #Int+ 1"#),
            ("unannotated", r#"let r = { y = "a", x = 2 } in r.x #Int+ 1"#),
            ("via-binding", r#"let q = { y = "a", x = 2 } in let r : { x : Int, y : String } = q in r.x #Int+ 1"#),
            ("arg-reordered", r#"let f r : { x : Int, y : String } -> Int = r.x #Int+ 1 in f { y = "a", x = 2 }"#),
        ];
        let mut bad = false;
        for (name, src) in progs.iter() {
            let vm = new_vm();
            let t = vm.typecheck_str(name, src, None).map(|x| x.1.to_string()).map_err(|e| e.to_string().lines().take(2).collect::<Vec<_>>().join(" | "));
            let r = std::panic::catch_unwind(std::panic::AssertUnwindSafe(|| vm.run_expr::<i32>(name, src).map(|x| x.0).map_err(|e| e.to_string().lines().take(2).collect::<Vec<_>>().join(" | "))));
            println!("{}: type {:?}; run {:?}", name, t, r.as_ref().map_err(|_| "HOST PANIC"));
            if t.is_ok() && !matches!(r, Ok(Ok(3))) { bad = true; }
        }
        if bad { std::process::exit(11); }
    }
    if which == "modref" {
        // a reference cell installed as a global (lives in the global heap), written with a fresh heap value, then collections
        use gluon::vm::reference::Reference;
        type RS = OpaqueValue<RootedThread, Reference<String>>;
        let (v, typ) = vm.run_expr::<OpaqueValue<RootedThread, Hole>>("mk", r#"let { ref } = import! std.reference in ref "initial""#).unwrap_or_else(|e| panic!("{}", e));
        vm.get_database_mut().set_global("c05ref", typ, Default::default(), v.get_value());
        drop(v);
        let churn = r#"
let { (++) } = import! std.string
let list @ { List } = import! std.list
let left = "XXXXXXXXXXXXXXXXXXXXXXXXXXXXX"
let churn n acc : Int -> List String -> List String =
    if n == 0 then acc else churn (n - 1) (Cons (left ++ "YYYYYYYYYYYYYYYYYYYYYYYYYYYYYYYYY") acc)
match churn 64 Nil with
| Cons x _ -> x
| Nil -> ""
"#;
        let expected = "cell-payload:0123456789abcdef:0123456789abcdef0123456789abcdef";
        let child = vm.new_thread().unwrap();
        child.run_io(true);
        let (mut store, _) = child.run_expr::<gluon::vm::api::OwnedFunction<fn(RS) -> gluon::vm::api::IO<()>>>("st", r#"
let { (<-) } = import! std.reference
let { (++) } = import! std.string
let left = "cell-payload:0123456789abcdef"
\c -> c <- (left ++ ":0123456789abcdef0123456789abcdef")
"#).unwrap_or_else(|e| panic!("{}", e));
        let (mut read, _) = vm.run_expr::<gluon::vm::api::OwnedFunction<fn(RS) -> gluon::vm::api::IO<String>>>("rd", r#"let { load } = import! std.reference in \c -> load c"#).unwrap_or_else(|e| panic!("{}", e));
        let cell = || -> RS { vm.get_global("c05ref").unwrap_or_else(|e| panic!("{}", e)) };
        println!("store from child: {:?}", store.call(cell()).map(|_| ()).map_err(|e| e.to_string()));
        let mut bad = false;
        for i in 0..4 {
            child.collect(); vm.collect();
            let _ = child.run_expr::<String>(&format!("cchurn{}", i), churn).unwrap();
            let _ = vm.run_expr::<String>(&format!("rchurn{}", i), churn).unwrap();
            let again = read.call(cell()).map_err(|e| e.to_string()).and_then(|io| match io { gluon::vm::api::IO::Value(s) => Ok(s), gluon::vm::api::IO::Exception(e) => Err(e) });
            println!("load after {} round(s) of collections: {:?}", i + 1, again.as_ref().map(|s| s.chars().take(70).collect::<String>()));
            if again.as_ref().map(|s| s.as_str()) != Ok(expected) { bad = true; }
        }
        if bad { std::process::exit(12); }
    }
    if which == "sound" {
        // C02 candidates reported by sub-agents on the unmodified tree
        let progs = [
            ("let-generalisation", r#"
type Box a = | Box a
let f x default =
    let g z = match (if 1 #Int< 0 then Box z else x) with | Box v -> v
    g 1
f (Box "hello") "world"
"#),
            ("nested-ident-match", r#"let w = 7 in match w with | x -> match x with | y -> y"#),
            ("gadt-nested-leak", r#"
type T a = | I : Int -> T Int | S : String -> T String
type U a = | U1 : U a
let f u t x : forall a . U a -> T a -> a -> Int =
    match u with
    | U1 ->
        match t with
        | I _ -> 0
        | _ -> x
f U1 (S "") "hello"
"#),
            ("gadt-nested-ok", r#"
type T a = | I : Int -> T Int | S : String -> T String
type U a = | U1 : U a
let f u t x : forall a . U a -> T a -> a -> Int =
    match u with
    | U1 ->
        match t with
        | I _ -> x
        | _ -> 0
f U1 (I 1) 5
"#),
            ("update-base-expected", r#"
let f r : { y : Int } -> { x : Int } = { x = 1, .. r }
10 #Int- (f { y = 5 }).x
"#),
            ("update-base-later", r#"
let f r =
    let z = { x = 1, .. r }
    let _ = r.y
    z
10 #Int- (f { y = 5 }).x
"#),
            ("recpat-reordered", r#"
match { x = 1, y = 2 } with
| { x = 1, y = 3 } -> 10
| { y = 2, x = 1 } -> 20
| _ -> 30
"#),
            ("recpat-shorthand", r#"
match { a = 2, c = 7 } with
| { a = 1, c } -> c
| { a = 2, c } -> c
| _ -> 0
"#),
            ("rec-lambda", r#"
rec let f = \x -> if x #Int== 0 then 0 else f (x #Int- 1)
f 3
"#),
            ("rec-if", r#"
type T = { a : Int, f : () -> Int }
let c = 1 #Int< 2
rec let x : T = if c then { a = 1, f = \_ -> x.a } else { a = 2, f = \_ -> x.a }
10 #Int+ x.f ()
"#),
            ("rec-match", r#"
type T = { a : Int, f : () -> Int }
type B = | Yes | No
let c = Yes
rec let x : T =
    match c with
    | Yes -> { a = 1, f = \_ -> x.a }
    | No -> { a = 2, f = \_ -> x.a }
10 #Int+ x.f ()
"#),
            ("row-order", r#"
let id_x r : forall r . { x : Int | r } -> { x : Int | r } = r
let v = id_x { y = "a", x = 1 }
let w : { x : Int, y : String } = v
w.x
"#),
        ];
        let mut bad = false;
        for (name, src) in progs.iter() {
            let vm = new_vm();
            let t = vm.typecheck_str(name, src, None).map(|x| x.1.to_string()).map_err(|e| e.to_string().lines().take(3).collect::<Vec<_>>().join(" | "));
            let r = std::panic::catch_unwind(std::panic::AssertUnwindSafe(|| vm.run_expr::<OpaqueValue<RootedThread, Hole>>(name, src).map(|x| format!("{:?}", x.0)).map_err(|e| e.to_string().lines().take(2).collect::<Vec<_>>().join(" | "))));
            println!("{}: type {:?}; run {:?}", name, t, r.as_ref().map_err(|_| "HOST PANIC"));
            if t.is_ok() && !matches!(r, Ok(Ok(_))) { bad = true; }
            if (*name == "gadt-nested-leak" || *name == "row-order") && t.is_ok() { if let Ok(Ok(v)) = &r { if v.contains("hello") || v.contains("\"a\"") { bad = true; } } }
            if *name == "let-generalisation" && t.as_ref().map(|s| s == "Int").unwrap_or(false) { if let Ok(Ok(v)) = &r { if v.contains("hello") { bad = true; } } }
        }
        if bad { std::process::exit(13); }
    }
    if which == "lazy" {
        let src = r#"let { lazy } = import! std.lazy in lazy (\_ -> error "fail")"#;
        let (l, _) = vm.run_expr::<OpaqueValue<RootedThread, Hole>>("t", src).unwrap(); let l: L = unsafe { std::mem::transmute(l) };
        let (_f, _) = vm.run_expr::<OpaqueValue<RootedThread, Hole>>("t2", "let l = import! std.lazy in l.force").unwrap();
        let mut force: FunctionRef<fn(L) -> V> = vm.get_global("std.lazy.force").unwrap();
        println!("first force: {:?}", force.call(l.clone()).map(|_| ()).map_err(|e| e.to_string().lines().next().unwrap_or("").to_string()));
        println!("same-thread re-force: {:?}", force.call(l.clone()).map(|_| ()).map_err(|e| e.to_string().lines().next().unwrap_or("").to_string()));
        let child = vm.new_thread().unwrap();
        let (tx, rx) = std::sync::mpsc::channel();
        std::thread::spawn(move || {
            let mut force2: FunctionRef<fn(L) -> V> = child.get_global("std.lazy.force").unwrap();
            let r = futures::executor::block_on(force2.call_async(l)).map(|_| ()).map_err(|e| e.to_string().lines().next().unwrap_or("").to_string());
            tx.send(format!("{:?}", r)).unwrap();
        });
        match rx.recv_timeout(std::time::Duration::from_secs(5)) {
            Ok(r) => println!("sibling-thread force: {}", r),
            Err(_) => { println!("sibling-thread force: HANG (no answer after 5s)"); std::process::exit(3); }
        }
    }
}
