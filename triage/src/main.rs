use gluon::{new_vm, ThreadExt, vm::api::{OpaqueValue, FunctionRef, Hole, generic::A}, vm::lazy::Lazy, RootedThread};
type L = OpaqueValue<RootedThread, Lazy<A>>; type V = OpaqueValue<RootedThread, A>;
fn main() {
    let which = std::env::args().nth(1).unwrap_or_default();
    let vm = new_vm();
    vm.run_io(true);
    if which == "callreset" {
        use gluon::vm::api::OwnedFunction;
        use gluon::vm::thread::ThreadInternal;
        let src = r#"let h x : Int -> Int = if x #Int== 0 then error "boom" else x
let f x : Int -> Int = 100 #Int+ h x
f"#;
        let (mut f, _) = vm.run_expr::<OwnedFunction<fn(i32) -> i32>>("t", src).unwrap();
        println!("frames at start: {}", vm.context().frame_level());
        for i in 0..3 {
            let r = f.call(0).map_err(|e| e.to_string().lines().next().unwrap_or("").to_string());
            println!("failing call {} -> {:?}; frames now {}", i, r, vm.context().frame_level());
        }
        let r = f.call(2);
        println!("good call f 2 -> {:?}; frames now {}", r, vm.context().frame_level());
        let (mut g, _) = vm.run_expr::<OwnedFunction<fn(i32) -> i32>>("t2", r#"let g x : Int -> Int = x #Int* 2 in g"#).unwrap();
        println!("good call g 3 -> {:?}", g.call(3));
        if !matches!(r, Ok(102)) { std::process::exit(4); }
    }
    if which == "dce" {
        let progs = [
            ("proj-call", r#"let m = { f = \x -> error "boom" } in let _ = m.f 1 in 2"#),
            ("lambda-call", r#"let _ = (\x -> error "boom") 1 in 2"#),
            ("ident-call", r#"let f x = error "boom" in let _ = f 1 in 2"#),
        ];
        let mut bad = false;
        for (name, src) in progs.iter() {
            let mut outs = vec![];
            for opt in [false, true] {
                let vm = new_vm();
                vm.get_database_mut().set_optimize(opt);
                let r = vm.run_expr::<i32>(name, src).map(|x| x.0).map_err(|e| e.to_string().lines().next().unwrap_or("").to_string());
                outs.push(format!("{:?}", r));
            }
            println!("{}: unoptimised {} | optimised {}", name, outs[0], outs[1]);
            if outs[0] != outs[1] { bad = true; }
        }
        if bad { std::process::exit(5); }
    }
    if which == "primop" {
        let progs = ["'a' #Char+ 'b'", "\"a\" #String+ \"b\"", "'a' #Char< 'b'", "1 #Int+ 2", "\"a\" #String== \"b\""];
        let mut bad = false;
        for src in progs.iter() {
            let vm = new_vm();
            let tc = vm.typecheck_str("t", src, None).map(|(_, t)| t.to_string()).map_err(|e| e.to_string().lines().next().unwrap_or("").to_string());
            let r = std::panic::catch_unwind(std::panic::AssertUnwindSafe(|| {
                vm.run_expr::<OpaqueValue<RootedThread, Hole>>("t", src).map(|_| ()).map_err(|e| e.to_string().lines().next().unwrap_or("").to_string())
            }));
            let out = match r { Ok(x) => format!("{:?}", x), Err(_) => { "HOST PANIC".to_string() } };
            if tc.is_ok() && out == "HOST PANIC" { bad = true; }
            println!("{:24} typecheck: {:?}   run: {}", src, tc, out);
        }
        if bad { std::process::exit(6); }
    }
    if which == "lazy" {
        let src = r#"let { lazy } = import! std.lazy in lazy (\_ -> error "fail")"#;
        let (l, _) = vm.run_expr::<OpaqueValue<RootedThread, Hole>>("t", src).unwrap(); let l: L = unsafe { std::mem::transmute(l) };
        let (_f, _) = vm.run_expr::<OpaqueValue<RootedThread, Hole>>("t2", "let l = import! std.lazy in l.force").unwrap();
        let mut force: FunctionRef<fn(L) -> V> = vm.get_global("std.lazy.force").unwrap();
        println!("first force: {:?}", force.call(l.clone()).map(|_| ()).map_err(|e| e.to_string().lines().next().unwrap_or("").to_string()));
        println!("same-thread re-force: {:?}", force.call(l.clone()).map(|_| ()).map_err(|e| e.to_string().lines().next().unwrap_or("").to_string()));
        let child = vm.new_thread().unwrap();
        let (tx, rx) = std::sync::mpsc::channel();
        std::thread::spawn(move || {
            let mut force2: FunctionRef<fn(L) -> V> = child.get_global("std.lazy.force").unwrap();
            let r = futures::executor::block_on(force2.call_async(l)).map(|_| ()).map_err(|e| e.to_string().lines().next().unwrap_or("").to_string());
            tx.send(format!("{:?}", r)).unwrap();
        });
        match rx.recv_timeout(std::time::Duration::from_secs(5)) {
            Ok(r) => println!("sibling-thread force: {}", r),
            Err(_) => { println!("sibling-thread force: HANG (no answer after 5s)"); std::process::exit(3); }
        }
    }
}
