//! H07: the host's native stack must never be exhausted, whatever the recursion depth.
//!
//! Each case runs in a child process (a re-execution of this test binary) because the failure
//! mode is a SIGSEGV / abort of the whole process.  The parent test asserts that the child ends
//! normally.  The payload always runs on an OS thread with a 16 MiB stack (twice the usual main
//! thread stack) and with both a VM stack limit and a memory limit configured.

use std::{
    process::{Command, Stdio},
    time::Duration,
};

use gluon::{
    Error, Thread, ThreadExt, new_vm,
    vm::{
        Error as VMError,
        api::{Hole, OpaqueValue},
        thread::ThreadInternal,
    },
};

const CHILD_ENV: &str = "H07_NATIVE_STACK_CHILD";

/// Runs `payload` directly in the child process, or spawns the child and checks how it ended.
fn in_child(test_name: &str, payload: fn()) {
    if std::env::var(CHILD_ENV).ok().as_deref() == Some(test_name) {
        let handle = std::thread::Builder::new()
            .stack_size(16 * 1024 * 1024)
            .spawn(payload)
            .unwrap();
        handle.join().unwrap();
        return;
    }
    let exe = std::env::current_exe().unwrap();
    let mut child = Command::new(exe)
        .args(&["--exact", test_name, "--nocapture", "--test-threads", "1"])
        .env(CHILD_ENV, test_name)
        .stdout(Stdio::piped())
        .stderr(Stdio::piped())
        .spawn()
        .unwrap();
    // Poll with a timeout
    let start = std::time::Instant::now();
    loop {
        if let Some(_) = child.try_wait().unwrap() {
            break;
        }
        if start.elapsed() > Duration::from_secs(300) {
            child.kill().unwrap();
            panic!("child timed out");
        }
        std::thread::sleep(Duration::from_millis(50));
    }
    let out = child.wait_with_output().unwrap();
    let stderr = String::from_utf8_lossy(&out.stderr);
    let stdout = String::from_utf8_lossy(&out.stdout);
    let tail = |s: &str| {
        let lines: Vec<_> = s.lines().collect();
        lines[lines.len().saturating_sub(12)..].join("\n")
    };
    assert!(
        out.status.success(),
        "child process for `{}` died: {:?}\n--- stdout\n{}\n--- stderr\n{}",
        test_name,
        out.status,
        tail(&stdout),
        tail(&stderr)
    );
}

/// The depth used by the failing cases can be overridden with `H07_DEPTH` to explore where the
/// process starts to die
fn depth(default: i64) -> i64 {
    std::env::var("H07_DEPTH")
        .ok()
        .and_then(|s| s.parse().ok())
        .unwrap_or(default)
}

fn limited_vm() -> gluon::RootedThread {
    let vm = new_vm();
    vm.get_database_mut().run_io(true);
    // Make sure the std modules are loaded before the limits are in place
    vm.run_expr::<OpaqueValue<&Thread, Hole>>(
        "load",
        r#"
let _ = import! std.lazy
let _ = import! std.list
let _ = import! std.thread
let _ = import! std.reference
()
"#,
    )
    .unwrap_or_else(|err| panic!("{}", err));
    vm.context().set_max_stack_size(100_000);
    vm.set_memory_limit(512 * 1024 * 1024);
    vm
}

/// Acceptable outcomes: a value, or one of the two resource errors (possibly wrapped in a panic
/// message since the error may pass through a primitive)
fn check_outcome<T: std::fmt::Debug>(result: Result<T, Error>) {
    match result {
        Ok(v) => eprintln!("completed: {:?}", v),
        Err(Error::VM(VMError::StackOverflow(_))) | Err(Error::VM(VMError::OutOfMemory { .. })) => {
            eprintln!("resource error")
        }
        Err(err) => {
            let msg = err.to_string();
            assert!(
                msg.contains("stack has overflowed") || msg.contains("out of memory"),
                "Unexpected error: {}",
                msg
            );
            eprintln!("resource error (as message)");
        }
    }
}

// ---------------------------------------------------------------------------------------------
// 1. Recursion through `std.lazy.force`
// ---------------------------------------------------------------------------------------------

fn lazy_recursion(depth: i64) {
    let vm = limited_vm();
    let expr = format!(
        r#"
        let {{ lazy, force }} = import! std.lazy
        rec let f n : Int -> Int =
            if n #Int== 0 then 0
            else 1 #Int+ force (lazy (\_ -> f (n #Int- 1)))
        f {}
        "#,
        depth
    );
    let result = vm.run_expr::<i64>("lazy_recursion", &expr).map(|t| t.0);
    check_outcome(result);
}

#[test]
fn control_lazy_recursion_shallow() {
    in_child("control_lazy_recursion_shallow", || lazy_recursion(50));
}

#[test]
fn lazy_recursion_deep() {
    in_child("lazy_recursion_deep", || lazy_recursion(depth(200_000)));
}

// ---------------------------------------------------------------------------------------------
// 2. The collector marks a long list recursively
// ---------------------------------------------------------------------------------------------

fn gc_long_list(len: i64) {
    let vm = limited_vm();
    // `build` is tail recursive: constant VM stack. The list stays alive while `length` runs,
    // collections happen during `build` itself as the heap grows.
    let expr = format!(
        r#"
        type L = | Nil | Cons Int L
        rec let build n acc : Int -> L -> L =
            if n #Int== 0 then acc
            else build (n #Int- 1) (Cons n acc)
        rec let length l acc : L -> Int -> Int =
            match l with
            | Nil -> acc
            | Cons _ xs -> length xs (acc #Int+ 1)
        length (build {} Nil) 0
        "#,
        len
    );
    let result = vm.run_expr::<i64>("gc_long_list", &expr).map(|t| t.0);
    check_outcome(result);
}

#[test]
fn control_gc_short_list() {
    in_child("control_gc_short_list", || gc_long_list(1_000));
}

#[test]
fn gc_long_list_marking() {
    in_child("gc_long_list_marking", || gc_long_list(depth(1_000_000)));
}
