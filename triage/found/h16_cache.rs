// C16: results must not depend on what was compiled earlier in the same VM
use gluon::query::CompilationBase;
use gluon::{
    ThreadExt,
    vm::api::{Hole, OpaqueValue},
    vm::thread::{RootedThread, Thread},
};

mod support;

pub fn scrub(s: &str) -> String {
    let mut out = String::new();
    let b = s.as_bytes();
    let mut i = 0;
    while i < b.len() {
        if b[i] == b'0' && i + 1 < b.len() && b[i + 1] == b'x' {
            i += 2;
            while i < b.len() && (b[i] as char).is_ascii_hexdigit() {
                i += 1;
            }
            out.push_str("PTR");
        } else {
            out.push(b[i] as char);
            i += 1;
        }
    }
    out
}

pub fn outcome(vm: &Thread, name: &str, src: &str) -> String {
    match vm.run_expr::<OpaqueValue<&Thread, Hole>>(name, src) {
        Ok((v, t)) => scrub(&format!("OK value={:?} type={}", v, t)),
        Err(e) => format!(
            "ERR {}",
            e.emit_string()
                .unwrap_or_else(|e| format!("<emit failed {}>", e))
        ),
    }
}

fn fresh() -> RootedThread {
    let vm = support::make_vm();
    vm.get_database_mut().implicit_prelude(false).run_io(true);
    vm
}

const LIB: &str = r#"
let { error } = import! std.prim
let fail x : Int -> Int = error "boom"
let wrap x : Int -> Int = fail x
{ fail, wrap }
"#;

const PROG: &str = r#"
let { wrap } = import! h16lib
let go y : Int -> Int = wrap y #Int+ 1
go 1
"#;

fn add_lib(vm: &Thread) {
    vm.get_database_mut()
        .add_module("h16lib".into(), LIB.into());
}

// The stack trace of a runtime panic is part of the diagnostics text
#[test]
fn stacktrace_fresh_vs_lib_loaded_earlier() {
    let a = {
        let vm = fresh();
        add_lib(&vm);
        outcome(&vm, "prog", PROG)
    };
    let b = {
        let vm = fresh();
        add_lib(&vm);
        // unrelated earlier work: somebody else already imported the library
        let _ = outcome(&vm, "other", "let lib = import! h16lib in 1");
        // and a setting is (re-)applied, which is what every embedding does before running
        vm.get_database_mut().implicit_prelude(false);
        outcome(&vm, "prog", PROG)
    };
    println!("{}\n=====\n{}", a, b);
    assert_eq!(a, b);
}

#[test]
fn stacktrace_same_vm_twice() {
    let vm = fresh();
    add_lib(&vm);
    let a = outcome(&vm, "prog", PROG);
    let b = outcome(&vm, "prog", PROG);
    vm.get_database_mut().implicit_prelude(false);
    let c = outcome(&vm, "prog", PROG);
    let d = outcome(&vm, "prog2", PROG);
    println!("{}\n=====\n{}", a, c);
    assert_eq!(a, b);
    assert_eq!(a, c);
    assert_eq!(a, d.replace("prog2", "prog"));
}

const BADLIB: &str = r#"
let f x : Int -> Int = x
let g : String = 1
{ f, g }
"#;

const USEBAD: &str = r#"
let { f } = import! h16bad
f ""
"#;

#[test]
fn import_with_errors_twice() {
    let vm = fresh();
    vm.get_database_mut()
        .add_module("h16bad".into(), BADLIB.into());
    let a = outcome(&vm, "prog", USEBAD);
    let b = outcome(&vm, "prog", USEBAD);
    let c = outcome(&vm, "prog_b", USEBAD);
    vm.get_database_mut().implicit_prelude(false);
    let d = outcome(&vm, "prog_c", USEBAD).replace("prog_c", "prog");
    println!("{}\n=====\n{}\n=====\n{}\n====\n{}", a, b, c, d);
    assert_eq!(a, b);
    assert_eq!(a, c.replace("prog_b", "prog"));
    assert_eq!(a, d);
}

// ---------------------------------------------------------------------------------------------
// A module is replaced by a new version: the result must be the same as in a VM which only ever
// saw the new version

fn replaced(v1: &str, v2: &str, prog: &str, same_prog_name: bool) -> (String, String) {
    let warm = {
        let vm = fresh();
        vm.get_database_mut().add_module("h16m".into(), v1.into());
        let _ = outcome(&vm, if same_prog_name { "prog" } else { "prog0" }, prog);
        vm.get_database_mut().add_module("h16m".into(), v2.into());
        outcome(&vm, "prog", prog)
    };
    let cold = {
        let vm = fresh();
        vm.get_database_mut().add_module("h16m".into(), v2.into());
        outcome(&vm, "prog", prog)
    };
    println!("WARM: {}\nCOLD: {}", warm, cold);
    (warm, cold)
}

#[test]
fn replaced_value() {
    for same in [true, false] {
        let (w, c) = replaced("{ x = 1 }", "{ x = 2 }", "(import! h16m).x", same);
        assert_eq!(w, c);
    }
}

#[test]
fn replaced_type() {
    for same in [true, false] {
        let (w, c) = replaced(
            "{ x = 1 }",
            "{ x = \"s\" }",
            "let m = import! h16m in m.x",
            same,
        );
        assert_eq!(w, c);
    }
}

#[test]
fn replaced_bad_by_good() {
    for same in [true, false] {
        let (w, c) = replaced(
            "let x : Int = \"\" in { x }",
            "let x : Int = 1 in { x }",
            "let m = import! h16m in m.x",
            same,
        );
        assert_eq!(w, c);
    }
}

#[test]
fn replaced_good_by_bad() {
    for same in [true, false] {
        let (w, c) = replaced(
            "let x : Int = 1 in { x }",
            "let x : Int = \"\" in { x }",
            "let m = import! h16m in m.x",
            same,
        );
        assert_eq!(w, c);
    }
}

#[test]
fn replaced_variant_type() {
    for same in [true, false] {
        let (w, c) = replaced(
            "type T = | A | B Int\n{ T, v = B 1 }",
            "type T = | B Int | A | C\n{ T, v = B 1 }",
            "let { T, v } = import! h16m\nmatch v with\n| A -> 0\n| B x -> x\n| C -> 2",
            same,
        );
        assert_eq!(w, c);
    }
}

#[test]
fn replaced_parse_error_by_good() {
    for same in [true, false] {
        let (w, c) = replaced(
            "let x = in",
            "let x : Int = 1 in { x }",
            "let m = import! h16m in m.x",
            same,
        );
        assert_eq!(w, c);
    }
}

// A transitive dependency is replaced
#[test]
fn replaced_transitive() {
    let prog = "let m = import! h16mid in m.y";
    let mid = "let m = import! h16m in { y = m.x }";
    let warm = {
        let vm = fresh();
        vm.get_database_mut().add_module("h16m".into(), "{ x = 1 }".into());
        vm.get_database_mut().add_module("h16mid".into(), mid.into());
        let _ = outcome(&vm, "prog", prog);
        vm.get_database_mut().add_module("h16m".into(), "{ x = \"s\" }".into());
        outcome(&vm, "prog", prog)
    };
    let cold = {
        let vm = fresh();
        vm.get_database_mut().add_module("h16m".into(), "{ x = \"s\" }".into());
        vm.get_database_mut().add_module("h16mid".into(), mid.into());
        outcome(&vm, "prog", prog)
    };
    println!("WARM: {}\nCOLD: {}", warm, cold);
    assert_eq!(warm, cold);
}
