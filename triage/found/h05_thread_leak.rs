use gluon::{new_vm, ThreadExt};

// A child thread that is no longer reachable (no host handle, no gluon value refers to it) must be
// reclaimed by a collection of its parent so that memory use returns to its baseline.
#[test]
fn unreachable_child_threads_are_reclaimed() {
    let _ = env_logger::try_init();
    let vm = new_vm();
    vm.run_expr::<()>("<top>", "let _ = import! std.thread in ()")
        .unwrap();
    vm.collect();
    let baseline = vm.allocated_memory();

    for _ in 0..200 {
        let child = vm.new_thread().unwrap();
        drop(child);
    }
    vm.collect();
    let after = vm.allocated_memory();
    eprintln!("baseline = {}, after = {}", baseline, after);
    assert_eq!(
        baseline, after,
        "memory use did not return to its baseline after dropping 200 unreachable child threads"
    );
}

// The same from inside a gluon program: threads created by `thread.new_thread` (and so every use
// of `thread.spawn` / `thread.join`, which create a thread per call) are never reclaimed even though
// nothing refers to them once the program has finished.
#[test]
fn threads_created_by_a_finished_gluon_program_are_reclaimed() {
    let _ = env_logger::try_init();
    let vm = new_vm();
    vm.get_database_mut().run_io(true);
    let expr = r#"
        let { ? } = import! std.io
        let { wrap } = import! std.applicative
        let thread = import! std.thread
        let { (>>=) } = import! std.monad
        rec let loop n : Int -> IO () =
            if n == 0 then wrap ()
            else
                do _ = thread.new_thread ()
                loop (n - 1)
        loop
    "#;
    let (mut f, _) = vm
        .run_expr::<gluon::vm::api::FunctionRef<fn(i32) -> gluon::vm::api::IO<()>>>("<top>", expr)
        .unwrap_or_else(|err| panic!("{}", err));
    // Warm up so that everything that is allocated once is part of the baseline
    f.call(1).unwrap();
    vm.collect();
    let baseline = vm.allocated_memory();

    f.call(200).unwrap();
    vm.collect();
    let after = vm.allocated_memory();
    eprintln!("baseline = {}, after = {}", baseline, after);
    assert_eq!(
        baseline, after,
        "memory use did not return to its baseline after a program created 200 threads"
    );
}
