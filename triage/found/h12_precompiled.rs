#![cfg(feature = "serialization")]
extern crate serde_state as serde;

use crate::serde::ser::SerializeState;

use gluon::{
    ThreadExt,
    compiler_pipeline::*,
    new_vm_async,
    vm::{Variants, serialization::SeSeed},
};

fn serialize_value(value: Variants) -> String {
    let mut buffer = Vec::new();
    {
        let mut ser = serde_json::Serializer::new(&mut buffer);
        let ser_state = SeSeed::new();
        value.serialize_state(&mut ser, &ser_state).unwrap();
    }
    String::from_utf8(buffer).unwrap()
}

async fn compile(thread: &gluon::RootedThread, name: &str, text: &str) -> Vec<u8> {
    let mut buffer = Vec::new();
    {
        let mut serializer = serde_json::Serializer::new(&mut buffer);
        thread
            .compile_to_bytecode(name, text, &mut serializer)
            .await
            .unwrap_or_else(|err| panic!("compile_to_bytecode: {:?}", err.map_right(|e| e.to_string()).map_left(|e| e.to_string())));
    }
    buffer
}

async fn run_precompiled(
    thread: &gluon::RootedThread,
    name: &str,
    buffer: &[u8],
) -> gluon::Result<String> {
    let mut deserializer = serde_json::Deserializer::from_slice(buffer);
    let v = Precompiled(&mut deserializer)
        .run_expr(
            &mut thread.module_compiler(&mut thread.get_database()),
            &**thread,
            name,
            "",
            (),
        )
        .await?;
    Ok(serialize_value(v.value.get_variant()))
}

async fn run_source(thread: &gluon::RootedThread, name: &str, text: &str) -> String {
    let v = text
        .run_expr(
            &mut thread.module_compiler(&mut thread.get_database()),
            &**thread,
            name,
            text,
            None,
        )
        .await
        .unwrap_or_else(|err| panic!("{}", err));
    serialize_value(v.value.get_variant())
}

/// Bytecode compiled in one VM and loaded in a fresh VM that never imported the module the
/// bytecode refers to. The property demands an error, not a panic.
#[tokio::test]
async fn missing_global_in_fresh_vm_is_an_error() {
    let text = r#"
        let int = import! std.int
        int.show.show 1
    "#;
    let thread = new_vm_async().await;
    let buffer = compile(&thread, "test", text).await;

    let fresh = new_vm_async().await;
    let result = run_precompiled(&fresh, "test", &buffer).await;
    match result {
        Ok(v) => assert_eq!(v, run_source(&thread, "test", text).await),
        Err(err) => eprintln!("error (fine): {}", err),
    }
}

/// `load_script` is documented as equivalent to `compile_to_bytecode` followed by `load_bytecode`
#[tokio::test]
async fn compile_to_bytecode_then_load_bytecode() {
    let text = r#" { x = 1, f = \y -> y #Int+ 1 } "#;
    let thread = new_vm_async().await;
    let buffer = compile(&thread, "test_mod", text).await;

    let mut de = serde_json::Deserializer::from_reader(&buffer[..]);
    thread
        .load_bytecode("test_mod", &mut de)
        .await
        .unwrap_or_else(|err| panic!("load_bytecode: {}", err));
    let (x, _) = thread
        .run_expr_async::<i32>("use", "let m = import! test_mod in m.f m.x")
        .await
        .unwrap_or_else(|err| panic!("{}", err));
    assert_eq!(x, 2);
}

async fn check_same(text: &str) {
    let thread = new_vm_async().await;
    let buffer = compile(&thread, "test", text).await;
    let pre = run_precompiled(&thread, "test", &buffer)
        .await
        .unwrap_or_else(|err| panic!("precompiled failed: {}\n{}", err, String::from_utf8_lossy(&buffer)));
    let thread2 = new_vm_async().await;
    let src = run_source(&thread2, "test", text).await;
    assert_eq!(src, pre);
}

#[tokio::test]
async fn float_infinity_constant() {
    check_same(r#" { x = 1.0 #Float/ 0.0 } "#).await;
}

#[tokio::test]
async fn float_literal_huge() {
    check_same(r#" 10000000000000000000000000000000000000000000000000000000000000000000000000000000000000000000000000000000000000000000000000000000000000000000000000000000000000000000000000000000000000000000000000000000000000000000000000000000000000000000000000000000000000000000000000000000000000000000000000000000000000000000000000000000000000000000000000000000000000000000000000000000000000000000000000000000000000000.0 "#).await;
}

#[tokio::test]
async fn float_precision() {
    check_same(r#" { a = 0.1 #Float+ 0.2, b = 179769313486231570000000000000000000000000000000000000000000000000000000000000000000000000000000000000000000000000000000000000000000000000000000000000000000000000000000000000000000000000000000000000000000000000000000000000000000000000000000000000000000000000000000000000000000000000000000000000000000000000000.0, c = 0.000000000000000000000000000000000000000000000000000000000000000000000000000000000000000000000000000000000000000000000000000000000000000000000000000000000000000000000000000000000000000000000000000000000000000000000000000000000000000000000000000000000000000000000000000000000000000000000000000000000000000000000000000000000005, d = 0.000000000000000000000000000000000000000000000000000000000000000000000000000000000000000000000000000000000000000000000000000000000000000000000000000000000000000000000000000000000000000000000000000000000000000000000000000000000000000000000000000000000000000000000000000000000000000000000000000000000000000000022250738585072011, e = 0.30000000000000004, f = 123456789.12345679 } "#).await;
}

#[tokio::test]
async fn negative_zero() {
    check_same(r#" { a = 0.0 #Float* (0.0 #Float- 1.0), b = (0.0 #Float- 0.0) } "#).await;
}

#[tokio::test]
async fn char_and_byte_and_string() {
    check_same(r#" { a = 'a', b = 255b, c = "h\n\"\t", d = 'z', e = [1b, 2b], f = ["a", "b"], g = [1.5] } "#).await;
}

#[tokio::test]
async fn nan_constant() {
    check_same(r#" { x = 0.0 #Float/ 0.0 } "#).await;
}

/// Even a program without any explicit import refers to the implicit prelude
#[tokio::test]
async fn no_imports_fresh_vm() {
    let text = r#" 1 #Int+ 2 "#;
    let thread = new_vm_async().await;
    let buffer = compile(&thread, "test", text).await;

    let fresh = new_vm_async().await;
    let result = run_precompiled(&fresh, "test", &buffer).await;
    match result {
        Ok(v) => assert_eq!(v, run_source(&thread, "test", text).await),
        Err(err) => eprintln!("error (fine): {}", err),
    }
}

/// The type that comes back with the precompiled module must be usable: the variable bound by
/// the `forall` is the one used in the body
#[tokio::test]
async fn type_of_precompiled_module_keeps_its_binders() {
    use gluon::base::types::Type;

    let text = r#" \x -> x "#;
    let thread = new_vm_async().await;

    // From source the binder and the use are the same symbol
    let src = text
        .run_expr(
            &mut thread.module_compiler(&mut thread.get_database()),
            &*thread,
            "test",
            text,
            None,
        )
        .await
        .unwrap_or_else(|err| panic!("{}", err));
    fn binder_is_used(typ: &gluon::base::types::ArcType) -> bool {
        match &**typ {
            Type::Forall(params, body) => match &**body {
                Type::Function(_, arg, _) => match &**arg {
                    Type::Generic(g) => g.id == params[0].id,
                    _ => panic!("unexpected argument {}", arg),
                },
                _ => panic!("unexpected body {}", body),
            },
            _ => panic!("unexpected type {}", typ),
        }
    }
    assert!(binder_is_used(&src.typ), "source: {}", src.typ);

    let buffer = compile(&thread, "test", text).await;
    let mut deserializer = serde_json::Deserializer::from_slice(&buffer);
    let pre = Precompiled(&mut deserializer)
        .run_expr(
            &mut thread.module_compiler(&mut thread.get_database()),
            &*thread,
            "test",
            "",
            (),
        )
        .await
        .unwrap_or_else(|err| panic!("{}", err));
    assert!(binder_is_used(&pre.typ), "precompiled: {}", pre.typ);
}

/// (Not about bytecode) a non-ascii char literal
#[tokio::test]
async fn side_note_non_ascii_char_literal() {
    let thread = new_vm_async().await;
    let _ = run_source(&thread, "test", " 'é' ").await;
}
