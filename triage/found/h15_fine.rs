// C15: things which were examined and hold (all tests here pass). Kept as controls.
#[macro_use]
mod h15_common;
use h15_common::*;

use std::sync::atomic::Ordering;

use gluon::query::CompilationBase;
use gluon::{
    RootedThread, Thread, ThreadExt,
    import::{add_extern_module, add_extern_module_with_deps},
    record,
    vm::{self, ExternModule},
};

// --- reloads through add_module/load_script are seen by importers -------------------------------

#[test]
fn dependency_type_change_is_reported_and_recovers() {
    let r = with_timeout(120, || {
        let vm = new_vm();
        load(&vm, "a", "{ x = 1 }").unwrap();
        load(&vm, "b", "let a = import! a\n{ y = a.x #Int+ 1 }").unwrap();
        let v1 = eval_int(&vm, "(import! b).y");
        let e = load(&vm, "a", "{ x = \"s\" }");
        let v2 = eval_int(&vm, "(import! b).y");
        let l2 = load(&vm, "b", "let a = import! a\n{ y = a.x #Int+ 1 }");
        let e3 = load(&vm, "a", "{ x = 10 }");
        let v3 = eval_int(&vm, "(import! b).y");
        (v1, e, v2, l2, e3, v3)
    })
    .unwrap();
    assert_eq!(r.0, Ok(2));
    assert_eq!(r.1, Ok(()));
    assert!(r.2.as_ref().unwrap_err().contains("Expected: Int"), "{:?}", r.2);
    assert!(r.3.is_err());
    assert_eq!(r.4, Ok(()));
    assert_eq!(r.5, Ok(11));
}

#[test]
fn dependency_value_change_reaches_values_and_closures() {
    let r = with_timeout(120, || {
        let vm = new_vm();
        load(&vm, "a", "{ x = 1 }").unwrap();
        load(&vm, "b", "let a = import! a\n{ y = a.x #Int+ 1, f = \\u -> a.x }").unwrap();
        let v1 = eval_int(&vm, "(import! b).y");
        load(&vm, "a", "{ x = 10 }").unwrap();
        let v2 = eval_int(&vm, "(import! b).y");
        let v3 = eval_int(&vm, "(import! b).f ()");
        (v1, v2, v3)
    })
    .unwrap();
    assert_eq!(r, (Ok(2), Ok(11), Ok(10)));
}

#[test]
fn broken_dependency_then_fixed() {
    let r = with_timeout(60, || {
        let vm = new_vm();
        let e0 = load(&vm, "a", "{ x = 1 #Int+ \"\" }");
        let e1 = load(&vm, "b", "let a = import! a\n{ y = a.x }");
        let e2 = load(&vm, "a", "{ x = 1 }");
        let v = eval_int(&vm, "(import! b).y");
        (e0.is_err(), e1.is_err(), e2, v)
    })
    .unwrap();
    assert_eq!(r, (true, true, Ok(()), Ok(1)));
}

// --- cycles never hang ----------------------------------------------------------------------

#[test]
fn self_import_is_rejected() {
    let r = with_timeout(60, || {
        let vm = new_vm();
        load(&vm, "a", "let a = import! a\n{ x = 1 }")
    })
    .expect("hang");
    assert!(r.unwrap_err().contains("cyclic dependency: `a -> a`"));
}

fn ext_mod(thread: &Thread) -> vm::Result<ExternModule> {
    ExternModule::new(thread, record! { v => 1i64 })
}

/// No hang; but note the message is "`m -> m`", the extern module is not named.
#[test]
fn cycle_through_the_dependencies_of_an_extern_module() {
    let r = with_timeout(60, || {
        let vm = new_vm();
        add_extern_module_with_deps(&vm, "ext", ext_mod, vec!["m".into()]);
        load(&vm, "m", "let e = import! ext\n{ x = e.v }")
    })
    .expect("hang");
    let e = r.unwrap_err();
    println!("{}", e);
    assert!(e.contains("cyclic"));
}

#[test]
fn extern_module_depending_on_itself() {
    let r = with_timeout(60, || {
        let vm = new_vm();
        add_extern_module_with_deps(&vm, "ext", ext_mod, vec!["ext".into()]);
        eval_int(&vm, "(import! ext).v")
    })
    .expect("hang");
    assert!(r.unwrap_err().contains("cyclic"));
}

// --- at most once under concurrency (no source change, no new revision) ---------------------

fn rt() -> tokio::runtime::Runtime {
    tokio::runtime::Builder::new_multi_thread()
        .worker_threads(4)
        .thread_stack_size(16 * 1024 * 1024)
        .enable_all()
        .build()
        .unwrap()
}

async fn new_vm_async() -> RootedThread {
    let vm = gluon::VmBuilder::new().build_async().await;
    vm.get_database_mut().set_implicit_prelude(false);
    vm
}

async fn eval_int_async(vm: &Thread, src: &str) -> Result<i64, String> {
    vm.run_expr_async::<i64>("top", src)
        .await
        .map(|x| x.0)
        .map_err(|e| e.to_string())
}

async fn load_async(vm: &Thread, name: &str, src: &str) -> Result<(), String> {
    vm.load_script_async(name, src)
        .await
        .map_err(|e| e.to_string())
}

counter!(T1, tick1, counter1);
#[test]
fn async_vm_diamond_evaluates_the_shared_module_once() {
    let r = with_timeout(120, || {
        rt().block_on(async {
            let vm = new_vm_async().await;
            add_extern_module(&vm, "counter", counter1);
            {
                let mut db = vm.get_database_mut();
                db.add_module("a".into(), A_TICK);
                for m in ["b", "c", "d", "e"] {
                    db.add_module(m.into(), "let a = import! a\n{ y = a.x }");
                }
            }
            let v = eval_int_async(
                &vm,
                "let b = import! b\nlet c = import! c\nlet d = import! d\nlet e = import! e\nlet a = import! a\nb.y #Int+ c.y #Int+ d.y #Int+ e.y #Int+ a.x",
            )
            .await;
            (v, T1.load(Ordering::SeqCst))
        })
    })
    .expect("hang");
    assert_eq!(r, (Ok(5), 1));
}

counter!(T2, tick2, counter2);
#[test]
fn os_threads_importing_the_same_module_evaluate_it_once() {
    let r = with_timeout(120, || {
        let vm = new_vm();
        add_extern_module(&vm, "counter", counter2);
        vm.get_database_mut().add_module("a".into(), A_TICK);
        let mut hs = vec![];
        for i in 0..4 {
            let child = vm.new_thread().unwrap();
            hs.push(
                std::thread::Builder::new()
                    .stack_size(16 * 1024 * 1024)
                    .spawn(move || {
                        child
                            .run_expr::<i64>(&format!("top{}", i), "(import! a).x")
                            .map(|x| x.0)
                            .map_err(|e| e.to_string())
                    })
                    .unwrap(),
            );
        }
        let rs: Vec<_> = hs.into_iter().map(|h| h.join().unwrap()).collect();
        (rs, T2.load(Ordering::SeqCst))
    })
    .expect("hang");
    assert!(r.0.iter().all(|x| *x == Ok(1)), "{:?}", r.0);
    assert_eq!(r.1, 1);
}

#[test]
fn async_vm_cycles_are_reported_not_hanging() {
    let r = with_timeout(120, || {
        rt().block_on(async {
            let mut out = vec![];
            {
                let vm = new_vm_async().await;
                vm.get_database_mut()
                    .add_module("b".into(), "let a = import! a\n{ y = a.x }");
                out.push(load_async(&vm, "a", "let b = import! b\n{ x = b.y }").await);
            }
            {
                // entered from two sides at once
                let vm = new_vm_async().await;
                {
                    let mut db = vm.get_database_mut();
                    db.add_module("b".into(), "let a = import! a\n{ y = a.x }");
                    db.add_module("a".into(), "let b = import! b\n{ x = b.y }");
                }
                out.push(
                    eval_int_async(&vm, "let a = import! a\nlet b = import! b\na.x #Int+ b.y")
                        .await
                        .map(|_| ()),
                );
            }
            {
                let vm = new_vm_async().await;
                {
                    let mut db = vm.get_database_mut();
                    db.add_module("a".into(), "let b = import! b\n{ x = b.x }");
                    db.add_module("b".into(), "let c = import! c\n{ x = c.x }");
                    db.add_module("c".into(), "let a = import! a\n{ x = a.x }");
                    db.add_module("p".into(), "let b = import! b\n{ x = b.x }");
                    db.add_module("q".into(), "let c = import! c\n{ x = c.x }");
                }
                out.push(
                    eval_int_async(
                        &vm,
                        "let p = import! p\nlet q = import! q\nlet a = import! a\np.x #Int+ q.x #Int+ a.x",
                    )
                    .await
                    .map(|_| ()),
                );
            }
            out
        })
    })
    .expect("hang");
    for x in r {
        assert!(x.unwrap_err().contains("cyclic dependency"));
    }
}
