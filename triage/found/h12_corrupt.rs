#![cfg(feature = "serialization")]
extern crate serde_state as serde;

use std::panic::{AssertUnwindSafe, catch_unwind};

use gluon::{ThreadExt, compiler_pipeline::*, new_vm_async};

const PROGRAM: &str = r#"
type T = | A Int | B String Float
let f x y = x #Int+ y
rec let fact n = if n #Int== 0 then 1 else n #Int* fact (n #Int- 1)
let r = { a = 1, b = "s", c = [1, 2] }
let g t =
    match t with
    | A i -> i
    | B _ _ -> 0
{ v = f (fact 3) (g (A r.a)), s = r.b, w = g (B "x" 1.5) }
"#;

fn runtime() -> tokio::runtime::Runtime {
    tokio::runtime::Builder::new_current_thread()
        .enable_all()
        .build()
        .unwrap()
}

fn compile(text: &str) -> Vec<u8> {
    runtime().block_on(async {
        let thread = new_vm_async().await;
        let mut buffer = Vec::new();
        {
            let mut serializer = serde_json::Serializer::new(&mut buffer);
            thread
                .compile_to_bytecode("test", text, &mut serializer)
                .await
                .unwrap_or_else(|_| panic!("compile_to_bytecode"));
        }
        buffer
    })
}

#[derive(Debug)]
enum Outcome {
    Ok,
    Err(String),
    Panic(String),
}

fn run(buffer: &[u8]) -> Outcome {
    let result = catch_unwind(AssertUnwindSafe(|| {
        runtime().block_on(async {
            // Leaked so that a VM whose locks were poisoned by a panic is never dropped
            let thread: &'static gluon::RootedThread = Box::leak(Box::new(new_vm_async().await));
            // Running anything from source loads the implicit prelude; without this even the
            // unmodified bytecode panics with `ICE: Global is missing from environment`
            thread
                .run_expr_async::<i32>("warmup", "1")
                .await
                .unwrap_or_else(|err| panic!("{}", err));
            let mut deserializer = serde_json::Deserializer::from_slice(buffer);
            Precompiled(&mut deserializer)
                .run_expr(
                    &mut thread.module_compiler(&mut thread.get_database()),
                    &**thread,
                    "test",
                    "",
                    (),
                )
                .await
                .map(|_| ())
                .map_err(|err| err.to_string())
        })
    }));
    match result {
        Ok(Ok(())) => Outcome::Ok,
        Ok(Err(err)) => Outcome::Err(err),
        Err(payload) => Outcome::Panic(
            payload
                .downcast_ref::<String>()
                .cloned()
                .or_else(|| payload.downcast_ref::<&str>().map(|s| s.to_string()))
                .unwrap_or_else(|| "<non string panic>".into()),
        ),
    }
}

/// Finds the byte range of every numeric operand of every instruction in the serialised module.
/// (Textual so that the order of the fields, which the `Marked`/`Reference` scheme depends on, is
/// left alone)
fn instruction_operands(text: &str) -> Vec<(usize, usize)> {
    let mut out = Vec::new();
    let needle = "\"instructions\":[";
    let mut from = 0;
    while let Some(i) = text[from..].find(needle) {
        let start = from + i + needle.len();
        let end = start + text[start..].find(']').unwrap();
        let bytes = text.as_bytes();
        let mut j = start;
        while j < end {
            if bytes[j] == b':' && (bytes[j + 1].is_ascii_digit() || bytes[j + 1] == b'-') {
                let num_start = j + 1;
                let mut k = num_start;
                while bytes[k].is_ascii_digit()
                    || matches!(bytes[k], b'-' | b'.' | b'e' | b'E' | b'+')
                {
                    k += 1;
                }
                out.push((num_start, k));
                j = k;
            } else {
                j += 1;
            }
        }
        from = end;
    }
    out
}

#[test]
fn unmodified_runs() {
    let buffer = compile(PROGRAM);
    match run(&buffer) {
        Outcome::Ok => (),
        other => panic!("{:?}", other),
    }
}

#[test]
fn truncations_are_errors() {
    let buffer = compile(PROGRAM);
    let mut bad = Vec::new();
    let step = std::cmp::max(1, buffer.len() / 40);
    let mut cuts: Vec<usize> = (0..buffer.len()).step_by(step).collect();
    cuts.push(buffer.len() - 1);
    cuts.push(buffer.len() - 2);
    for cut in cuts {
        match run(&buffer[..cut]) {
            Outcome::Err(_) => (),
            other => bad.push((cut, other)),
        }
    }
    assert!(bad.is_empty(), "{:#?}", bad);
}

#[test]
fn single_operand_corruptions_are_errors() {
    let buffer = compile(PROGRAM);
    let text = String::from_utf8(buffer).unwrap();
    let operands = instruction_operands(&text);
    eprintln!("{} operands", operands.len());

    let mut panics = Vec::new();
    let mut oks = 0;
    let mut errs = 0;
    for &(start, end) in &operands {
        let mutated = format!("{}100000{}", &text[..start], &text[end..]);
        let context = &text[text[..start].rfind('{').unwrap()..end];
        if context.contains("PushInt") || context.contains("PushFloat") || context.contains("PushByte") {
            // Constants, changing these gives another valid program
            continue;
        }
        eprintln!("mutating {}", context);
        match run(mutated.as_bytes()) {
            Outcome::Ok => oks += 1,
            Outcome::Err(_) => errs += 1,
            Outcome::Panic(msg) => panics.push((context.to_string(), msg)),
        }
    }
    eprintln!("ok: {}, err: {}, panic: {}", oks, errs, panics.len());
    assert!(panics.is_empty(), "{:#?}", panics);
}
