#![allow(dead_code)]
mod support;

use std::sync::mpsc;
use std::time::Duration;

use gluon::{ThreadExt, vm::api::IO};

enum Outcome {
    Done(Result<String, String>),
    HostPanic,
    Hang,
}

/// Runs `expr` (an `IO String`) on a fresh vm in its own OS thread
fn run(expr: &'static str) -> Outcome {
    let (tx, rx) = mpsc::channel();
    std::thread::spawn(move || {
        let vm = support::make_vm();
        vm.get_database_mut().implicit_prelude(true).run_io(true);
        let r = match vm.run_expr::<IO<String>>("<top>", expr) {
            Ok((IO::Value(v), _)) => Ok(v),
            Ok((IO::Exception(e), _)) => Err(format!("IO exception: {}", e)),
            Err(e) => Err(format!("error: {}", e)),
        };
        let _ = tx.send(r);
    });
    match rx.recv_timeout(Duration::from_secs(20)) {
        Ok(r) => Outcome::Done(r),
        Err(mpsc::RecvTimeoutError::Disconnected) => Outcome::HostPanic,
        Err(mpsc::RecvTimeoutError::Timeout) => Outcome::Hang,
    }
}

const PRE: &str = r#"
let { wrap, (*>) } = import! std.applicative
let { flat_map, (>>=) } = import! std.monad
let io @ { ? } = import! std.io
let { ref, load, (<-) } = import! std.reference
let { Lazy, lazy, force } = import! std.lazy
let { channel, send, recv } = import! std.channel
let { spawn, resume, yield } = import! std.thread
let { Result } = import! std.result
let string = import! std.string
let int = import! std.int
let show_r r : Result () Int -> String =
    match r with
    | Ok x -> "Ok " ++ show x
    | Err _ -> "Empty"
let show_res r : Result String () -> String =
    match r with
    | Ok _ -> "Ok"
    | Err e -> "Err(" ++ e ++ ")"
"#;

macro_rules! case {
    ($name:ident, $body:expr, $check:expr) => {
        #[test]
        fn $name() {
            let src: &'static str = Box::leak(format!("{}\n{}", PRE, $body).into_boxed_str());
            let r = run(src);
            match r {
                Outcome::Hang => panic!("{}: the program did not finish within 20s (hang)", stringify!($name)),
                Outcome::HostPanic => panic!("{}: the vm panicked in host code", stringify!($name)),
                Outcome::Done(Err(s)) => panic!("{}: unexpected error: {}", stringify!($name), s),
                Outcome::Done(Ok(s)) => {
                    println!("{} => {}", stringify!($name), s);
                    let check: fn(&str) -> bool = $check;
                    assert!(check(&s), "{}: unexpected result `{}`", stringify!($name), s);
                }
            }
        }
    };
}


// FINDING 1a: resuming a thread that failed in an extern function (`error`) panics in host code
// (vm/src/stack.rs "Attempted to pop value which did not belong to the current frame") instead of
// reporting `Err "Attempted to resume a dead thread"` (or at least an error)
case! { resume_failed_thread_host_panic, r#"
do t = spawn (
    do _ = wrap ()
    let _ : () = error "boom"
    wrap ())
let res t = io.catch (resume t >>= \r -> wrap (show_res r)) (\e -> wrap ("exception"))
do a = res t
do b = res t
wrap (a ++ "," ++ b)
"#, |s| s == "exception,Err(Attempted to resume a dead thread)" || s == "exception,exception" }

// FINDING 1b: same root cause, a thread that failed inside an async extern function (`force` of a
// failing lazy value) is reported as successfully resumed (`Ok ()`) forever although it is dead
case! { resume_failed_thread_reports_ok, r#"
let l : Lazy Int = lazy (\_ -> error "thunk failed")
do t = spawn (
    do _ = wrap ()
    let x = force l
    wrap ())
let res t = io.catch (resume t >>= \r -> wrap (show_res r)) (\e -> wrap ("exception"))
do a = res t
do b = res t
do c = res t
wrap (a ++ "," ++ b ++ "," ++ c)
"#, |s| s == "exception,Err(Attempted to resume a dead thread),Err(Attempted to resume a dead thread)" || s == "exception,exception,exception" }

// FINDING 2: a self-dependent pair of lazy values whose cycle crosses two green threads is never
// detected: every `resume` reports `Ok ()` without progress and a `force` from the main thread hangs
case! { cross_thread_lazy_cycle_hangs, r#"
rec
let v : { l1 : Lazy Int, l2 : Lazy Int } = {
    l1 = lazy (\_ ->
        let _ = yield ()
        let _ = yield ()
        force (get2 ()) + 1),
    l2 = lazy (\_ -> force (get1 ()) + 1),
}
let get1 _ : () -> Lazy Int = v.l1
let get2 _ : () -> Lazy Int = v.l2
in
do ta = spawn (
    do _ = wrap ()
    let x = force v.l1
    wrap ())
do tb = spawn (
    do _ = wrap ()
    let x = force v.l2
    wrap ())
let res t = io.catch (resume t >>= \r -> wrap (show_res r)) (\e -> wrap ("exception"))
do a = res ta
do b = res tb
do a2 = res ta
do b2 = res tb
do _ = io.println ("resumes: " ++ a ++ "," ++ b ++ "," ++ a2 ++ "," ++ b2)
do x = io.catch (wrap () >>= \_ -> wrap (show (force v.l1))) (\e -> wrap ("exception"))
wrap x
"#, |s| s == "exception" }

// FINDING 2 (variant): the same cycle inside a single thread is detected, for comparison
case! { single_thread_lazy_cycle_is_detected, r#"
rec
let v : { l1 : Lazy Int, l2 : Lazy Int } = {
    l1 = lazy (\_ -> force (get2 ()) + 1),
    l2 = lazy (\_ -> force (get1 ()) + 1),
}
let get1 _ : () -> Lazy Int = v.l1
let get2 _ : () -> Lazy Int = v.l2
in
do x = io.catch (wrap () >>= \_ -> wrap (show (force v.l1))) (\e -> wrap ("exception"))
do y = io.catch (wrap () >>= \_ -> wrap (show (force v.l2))) (\e -> wrap ("exception"))
wrap (x ++ "," ++ y)
"#, |s| s == "exception,exception" }

// FINDING 2 (variant): forcing, from the only thread that could resume it, a lazy value whose
// evaluating green thread is suspended inside the computation hangs instead of reporting an error
case! { force_of_suspended_evaluator_hangs, r#"
let l = lazy (\_ ->
    let _ = yield ()
    let _ = yield ()
    1)
do t = spawn (
    do _ = wrap ()
    let x = force l
    wrap ())
do a = resume t
do x = io.catch (wrap () >>= \_ -> wrap (show (force l))) (\e -> wrap ("exception"))
wrap (show_res a ++ "," ++ x)
"#, |s| s == "Ok,exception" || s == "Ok,1" }
