#[macro_use]
extern crate gluon_vm;
#[macro_use]
extern crate gluon_codegen;

use gluon::{
    ThreadExt,
    import::{Import, add_extern_module},
    vm::{
        ExternModule,
        api::{FunctionRef, OpaqueValue, ValueRef, VmType},
        gc,
        thread::RootedThread,
        types::VmInt,
    },
};

fn make_vm() -> RootedThread {
    let vm = ::gluon::new_vm();
    let import = vm.get_macros().get("import");
    import
        .as_ref()
        .and_then(|import| import.downcast_ref::<Import>())
        .expect("Import macro")
        .add_path("..");
    vm
}

// A host value (userdata) which holds a handle to a gluon value in a mutable cell
// (`gc::mutex::Mutex`, the cell the vm provides for exactly this purpose, see the
// `cyclic_userdata_mutable` test of tests/api.rs). The handle is unrooted when the userdata is moved
// into the gluon heap and must be re-rooted for as long as the cell is locked.
#[derive(Debug, Default, Userdata, Trace)]
struct Cell(gc::mutex::Mutex<Option<OpaqueValue<RootedThread, String>>>);
impl VmType for Cell {
    type Type = Cell;
}

#[test]
fn locking_a_cell_with_a_stored_handle_twice() {
    let _ = ::env_logger::try_init();

    let vm = make_vm();
    vm.register_type::<Cell>("Cell", &[])
        .unwrap_or_else(|_| panic!("Could not add type"));

    add_extern_module(&vm, "cell", |thread| {
        ExternModule::new(
            thread,
            record! {
                mk_cell => primitive!(1, |()| Cell::default()),
                set => primitive!(2, |cell: &Cell, v: OpaqueValue<RootedThread, String>| {
                    *cell.0.lock().unwrap() = Some(v)
                }),
                len => primitive!(1, |cell: &Cell| -> VmInt {
                    cell.0.lock().unwrap().as_ref().map_or(-1, |v| match v.get_variant().as_ref() {
                        ValueRef::String(s) => s.len() as VmInt,
                        _ => -2,
                    })
                })
            },
        )
    });

    let expr = r#"
        let f = import! cell
        let { (++) } = import! std.string
        \x ->
            let cell = f.mk_cell ()
            let _ = f.set cell (x ++ x)
            f.len cell
    "#;
    vm.load_script("test", expr).unwrap();

    let mut f: FunctionRef<fn(String) -> VmInt> = vm
        .get_global("test")
        .unwrap_or_else(|err| panic!("{}", err));
    assert_eq!(f.call("abc".to_string()).unwrap(), 6);
}
