//! C06: no program text may panic the host. Each of these panicked inside the tokenizer on the
//! unmodified tree (parser/src/str_suffix.rs restore_char, parser/src/token.rs unescape_string_literal).
use gluon::{new_vm, ThreadExt};

fn run_char(src: &str) -> Result<char, String> {
    let vm = new_vm();
    vm.run_expr::<char>("t", src).map(|(c, _)| c).map_err(|e| e.to_string())
}
fn run_string(src: &str) -> Result<String, String> {
    let vm = new_vm();
    vm.run_expr::<String>("t", src).map(|(c, _)| c).map_err(|e| e.to_string())
}

#[test]
fn ascii_char_literal() { assert_eq!(run_char("'a'"), Ok('a')); }
#[test]
fn two_byte_char_literal() { assert_eq!(run_char("'é'"), Ok('é')); }
#[test]
fn three_byte_char_literal() { assert_eq!(run_char("'€'"), Ok('€')); }
#[test]
fn four_byte_char_literal() { assert_eq!(run_char("'😀'"), Ok('😀')); }
#[test]
fn unterminated_non_ascii_char_literal_is_an_error() { assert!(run_char("'éa'").is_err()); }
#[test]
fn stray_non_ascii_character_is_an_error() { assert!(run_string("1 + €").is_err()); }
#[test]
fn non_ascii_identifier_is_an_error() { assert!(run_string("let é = \"\" in é").is_err()); }
#[test]
fn valid_escapes() { assert_eq!(run_string("\"a\\n\\\"b\\\\\""), Ok("a\n\"b\\".to_string())); }
#[test]
fn invalid_escape_code_is_an_error() { assert!(run_string("\"a\\qb\"").is_err()); }
#[test]
fn unicode_escape_code_is_an_error() { assert!(run_string("\"\\u{e9}\"").is_err()); }
#[test]
fn backslash_at_end_of_input_is_an_error() { assert!(run_string("\"abc\\").is_err()); }
