//! H07: resource limits (memory limit, VM stack limit) must hold for every thread of the VM and
//! must be reported with the corresponding error.

use std::{sync::mpsc, time::Duration};

use gluon::{
    Error, RootedThread, Thread, ThreadExt, new_vm,
    vm::{
        Error as VMError,
        api::{Hole, IO, OpaqueValue},
        thread::ThreadInternal,
    },
};

fn with_timeout<T: Send + 'static>(secs: u64, f: impl FnOnce() -> T + Send + 'static) -> T {
    let (tx, rx) = mpsc::channel();
    std::thread::Builder::new()
        .stack_size(64 * 1024 * 1024)
        .spawn(move || {
            let _ = tx.send(f());
        })
        .unwrap();
    rx.recv_timeout(Duration::from_secs(secs))
        .expect("timeout (or the worker thread panicked)")
}

const STACK_LIMIT: u32 = 2_000;

/// Non tail recursive: needs stack proportional to `n`
const DEEP: &str = r#"
rec let deep n : Int -> Int =
    if n #Int== 0 then 0
    else 1 #Int+ deep (n #Int- 1)
deep 100000
"#;

fn is_stack_overflow<T>(result: &Result<T, Error>) -> bool {
    match result {
        Err(Error::VM(VMError::StackOverflow(_))) => true,
        Err(err) => err.to_string().contains("stack has overflowed"),
        Ok(_) => false,
    }
}

// ---------------------------------------------------------------------------------------------
// 1. Threads created from a limited thread do not get the stack limit
// ---------------------------------------------------------------------------------------------

#[test]
fn control_parent_thread_enforces_stack_limit() {
    with_timeout(120, || {
        let vm = new_vm();
        vm.get_database_mut().implicit_prelude(false);
        vm.context().set_max_stack_size(STACK_LIMIT);
        let result = vm.run_expr::<i64>("deep", DEEP);
        assert!(
            is_stack_overflow(&result),
            "expected a stack overflow, got {:?}",
            result.map(|t| t.0)
        );
    })
}

/// Builds a list of 10000 elements which all stay alive (about 500 kB)
const BIG_LIST: &str = r#"
type L = | Nil | Cons Int L
rec let build n acc : Int -> L -> L =
    if n #Int== 0 then acc
    else build (n #Int- 1) (Cons n acc)
rec let length l acc : L -> Int -> Int =
    match l with
    | Nil -> acc
    | Cons _ xs -> length xs (acc #Int+ 1)
length (build 10000 Nil) 0
"#;

#[test]
fn control_child_thread_inherits_memory_limit() {
    with_timeout(120, || {
        let vm = new_vm();
        vm.get_database_mut().implicit_prelude(false);
        vm.set_memory_limit(vm.allocated_memory() + 100_000);
        let child = vm.new_thread().unwrap();
        let result = child.run_expr::<i64>("alloc", BIG_LIST);
        match result {
            Err(Error::VM(VMError::OutOfMemory { .. })) => (),
            result => panic!("Expected out of memory, got {:?}", result.map(|t| t.0)),
        }
    })
}

#[test]
fn child_thread_inherits_stack_limit() {
    with_timeout(120, || {
        let vm = new_vm();
        vm.get_database_mut().implicit_prelude(false);
        vm.context().set_max_stack_size(STACK_LIMIT);
        let child: RootedThread = vm.new_thread().unwrap();
        let result = child.run_expr::<i64>("deep", DEEP);
        assert!(
            is_stack_overflow(&result),
            "the child of a thread limited to {} stack slots ran a recursion 100000 deep: {:?}",
            STACK_LIMIT,
            result.map(|t| t.0)
        );
    })
}

#[test]
fn gluon_spawned_thread_respects_stack_limit() {
    with_timeout(300, || {
        let vm = new_vm();
        vm.get_database_mut().run_io(true);
        // Load the needed modules before the limit is applied
        vm.run_expr::<OpaqueValue<&Thread, Hole>>(
            "load",
            r#"
let _ = import! std.thread
let _ = import! std.io
let _ = import! std.reference
()
"#,
        )
        .unwrap_or_else(|err| panic!("{}", err));

        vm.context().set_max_stack_size(STACK_LIMIT);

        let expr = r#"
let { spawn, resume } = import! std.thread
let io @ { ? } = import! std.io
let { wrap } = import! std.applicative
let { ref, load, (<-) } = import! std.reference

rec let deep n : Int -> Int =
    if n #Int== 0 then 0
    else 1 #Int+ deep (n #Int- 1)

do r = ref 0
do child = spawn (
        // `deep` must be called when the action runs (in the child), not while it is built
        do _ = wrap ()
        do _ = r <- deep 100000
        wrap ()
    )
do _ = resume child
load r
"#;
        let result = vm
            .run_expr::<IO<i64>>("spawned", expr)
            .map(|t| t.0);
        match result {
            Ok(IO::Value(depth)) => panic!(
                "a program limited to {} stack slots completed a recursion {} deep inside a \
                 thread it spawned",
                STACK_LIMIT, depth
            ),
            Ok(IO::Exception(msg)) => assert!(
                msg.contains("stack has overflowed"),
                "unexpected exception: {}",
                msg
            ),
            Err(err) => assert!(
                is_stack_overflow::<()>(&Err(err.clone())),
                "unexpected error: {}",
                err
            ),
        }
    })
}
