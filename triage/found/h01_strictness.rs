//! C01: failures that the strict semantics assigns disappear or change
use gluon::{RootedThread, ThreadExt};

fn make_vm() -> RootedThread {
    let vm = gluon::VmBuilder::new().build();
    vm.get_database_mut().implicit_prelude(false).run_io(true);
    vm
}

fn run(text: &str) -> Result<i32, String> {
    let vm = make_vm();
    vm.run_expr::<i32>("top", text)
        .map(|t| t.0)
        .map_err(|err| err.to_string())
}

// vm/src/core/dead_code.rs: an unused binding whose value is a `#Int/` is removed although
// evaluating it fails with "Arithmetic overflow" (division by zero)
#[test]
fn unused_division_by_zero() {
    let text = r#"
let x = 1 #Int/ 0
5
"#;
    let result = run(text);
    assert!(result.is_err(), "{:?}", result);
}

#[test]
fn unused_overflow_in_function() {
    let text = r#"
let f y =
    let _ = 9223372036854775807 #Int+ y
    5
f 1
"#;
    let result = run(text);
    assert!(result.is_err(), "{:?}", result);
}

// Control: the same failure is reported when the value is used
#[test]
fn used_division_by_zero() {
    let text = r#"
let x = 1 #Int/ 0
x
"#;
    let result = run(text);
    assert!(result.is_err(), "{:?}", result);
}

// vm/src/core/mod.rs translate_ Expr::Record: with an identifier as base the field expressions
// are evaluated in the order of the base type instead of the written order
#[test]
fn record_update_evaluation_order() {
    let text = r#"
let { error } = import! std.prim
let r = { x = 1, y = 2 }
let f _ = { y = error "y", x = error "x", .. r }
(f ()).x
"#;
    let result = run(text);
    let err = result.unwrap_err();
    assert!(err.starts_with("y"), "{}", err);
}
