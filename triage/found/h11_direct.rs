#[macro_use]
extern crate gluon_codegen;
extern crate gluon;

use gluon::{
    ThreadExt, new_vm,
    vm::api::{FunctionRef, convert},
};

#[derive(Debug, PartialEq, Clone, VmType, Pushable, Getable)]
enum E {
    A,
    B(i32),
    C { x: i32, y: String },
    D,
    F(Option<u8>, Vec<f32>),
}

#[derive(Debug, PartialEq, Clone, VmType, Pushable, Getable)]
struct S {
    b: u8,
    a: Vec<E>,
    t: (i64, f64),
    u: U,
    n: N,
}

#[derive(Debug, PartialEq, Clone, VmType, Pushable, Getable)]
struct U;

#[derive(Debug, PartialEq, Clone, VmType, Pushable, Getable)]
struct N(Option<Result<i32, String>>);

macro_rules! rt {
    ($t:ty, $v:expr) => {{
        let thread = new_vm();
        let v: $t = $v;
        let out: $t = convert(&thread, v.clone()).unwrap_or_else(|err| panic!("{}", err));
        assert_eq!(out, v);
        // through a gluon identity function
        let (mut f, _) = thread
            .run_expr::<FunctionRef<fn($t) -> $t>>("id", r#"\x -> x"#)
            .unwrap_or_else(|err| panic!("{}", err));
        let out: $t = f.call(v.clone()).unwrap_or_else(|err| panic!("{}", err));
        assert_eq!(out, v);
    }};
}

#[test]
fn scalars() {
    rt!(i64, i64::MIN);
    rt!(u64, u64::MAX);
    rt!(u8, 255);
    rt!(char, '\u{10FFFF}');
    rt!(f32, f32::MIN_POSITIVE);
    rt!(String, "\0a\u{1F600}".to_string());
    let thread = new_vm();
    let out: f64 = convert(&thread, -0.0f64).unwrap();
    assert_eq!(out.to_bits(), (-0.0f64).to_bits());
    let out: f64 = convert(&thread, f64::NAN).unwrap();
    assert!(out.is_nan());
    let out: f32 = convert(&thread, f32::NAN).unwrap();
    assert!(out.is_nan());
}

#[test]
fn arrays() {
    rt!(Vec<u8>, vec![]);
    rt!(Vec<u8>, vec![0, 255]);
    rt!(Vec<Vec<u8>>, vec![vec![], vec![1]]);
    rt!(Vec<()>, vec![(), ()]);
    rt!(Vec<bool>, vec![true, false]);
    rt!(Vec<f32>, vec![1.5, -0.0]);
    rt!(Vec<char>, vec!['a', 'é']);
    rt!(Vec<Option<u8>>, vec![None, Some(3)]);
    rt!(Vec<(u8, String)>, vec![(1, "a".into())]);
    rt!(Vec<Result<Vec<i32>, String>>, vec![Ok(vec![]), Err("".into())]);
}

#[test]
fn derived() {
    rt!(E, E::A);
    rt!(E, E::D);
    rt!(E, E::B(-1));
    rt!(E, E::C { x: 1, y: "y".into() });
    rt!(E, E::F(Some(1), vec![]));
    rt!(Vec<E>, vec![E::A, E::B(1), E::D]);
    rt!(
        S,
        S {
            b: 7,
            a: vec![E::D, E::C { x: 3, y: "".into() }],
            t: (i64::MIN, -0.0),
            u: U,
            n: N(Some(Err("e".into()))),
        }
    );
}

#[test]
fn mismatching_requests_refused() {
    let thread = new_vm();
    thread.load_script("g_int", "1").unwrap();
    thread.load_script("g_char", "'a'").unwrap();
    thread.load_script("g_byte", "1b").unwrap();
    thread.load_script("g_arr", "[1, 2]").unwrap();
    thread.load_script("g_rec", "{ x = 1, y = 2 }").unwrap();
    thread.load_script("g_tup", "(1, 2.0)").unwrap();
    thread.load_script("g_fn", r#"\x y -> x #Int+ y"#).unwrap();
    assert!(thread.get_global::<f64>("g_int").is_err());
    assert!(thread.get_global::<u8>("g_int").is_err());
    assert!(thread.get_global::<char>("g_int").is_err());
    assert!(thread.get_global::<i32>("g_char").is_err());
    assert!(thread.get_global::<i32>("g_byte").is_err());
    assert!(thread.get_global::<Vec<u8>>("g_arr").is_err());
    assert!(thread.get_global::<Vec<f64>>("g_arr").is_err());
    assert!(thread.get_global::<(i32, i32)>("g_rec").is_err());
    assert!(thread.get_global::<(f64, i32)>("g_tup").is_err());
    assert!(thread.get_global::<(i32, f64, i32)>("g_tup").is_err());
    assert!(thread.get_global::<FunctionRef<fn(i32) -> i32>>("g_fn").is_err());
    assert!(thread.get_global::<FunctionRef<fn(i32, f64) -> i32>>("g_fn").is_err());
    assert!(thread.get_global::<Option<i32>>("g_int").is_err());
    assert!(thread.get_global::<E>("g_int").is_err());
    assert!(thread.get_global::<U>("g_int").is_err());
}
