//! H07: calls in tail position must run in constant VM stack space.
//!
//! Every program recurses 300000 deep through tail calls only, with a VM stack limit of 200
//! slots, so it must complete.

use std::{sync::mpsc, time::Duration};

use gluon::{ThreadExt, new_vm, vm::thread::ThreadInternal};

fn with_timeout<T: Send + 'static>(secs: u64, f: impl FnOnce() -> T + Send + 'static) -> T {
    let (tx, rx) = mpsc::channel();
    std::thread::Builder::new()
        .stack_size(64 * 1024 * 1024)
        .spawn(move || {
            let _ = tx.send(f());
        })
        .unwrap();
    rx.recv_timeout(Duration::from_secs(secs))
        .expect("timeout (or the worker thread panicked)")
}

fn run_limited(name: &'static str, expr: &'static str, expected: i64) {
    with_timeout(300, move || {
        let vm = new_vm();
        vm.get_database_mut().implicit_prelude(false);
        vm.context().set_max_stack_size(200);
        match vm.run_expr::<i64>(name, expr) {
            Ok((v, _)) => assert_eq!(v, expected),
            Err(err) => panic!("{}: {}", name, err),
        }
    })
}

macro_rules! tail {
    ($name:ident, $expected:expr, $expr:expr) => {
        #[test]
        fn $name() {
            run_limited(stringify!($name), $expr, $expected);
        }
    };
}

tail! { direct, 300000, r#"
rec let go n acc : Int -> Int -> Int =
    if n #Int== 0 then acc else go (n #Int- 1) (acc #Int+ 1)
go 300000 0
"# }

tail! { mutual, 1, r#"
rec
let even n : Int -> Int = if n #Int== 0 then 1 else odd (n #Int- 1)
let odd n : Int -> Int = if n #Int== 0 then 0 else even (n #Int- 1)
in
even 300000
"# }

tail! { through_apply, 0, r#"
let apply f x : (Int -> Int) -> Int -> Int = f x
rec let go n : Int -> Int =
    if n #Int== 0 then 0 else apply go (n #Int- 1)
go 300000
"# }

tail! { closure_argument, 0, r#"
type K = | K (K -> Int -> Int)
let step k n : K -> Int -> Int =
    if n #Int== 0 then 0
    else
        match k with
        | K f -> f k (n #Int- 1)
step (K step) 300000
"# }

tail! { over_application_self, 7, r#"
rec let f n : Int -> Int -> Int =
    if n #Int== 0 then (\x -> x) else f (n #Int- 1)
f 300000 7
"# }

tail! { over_application_two_excess, 3, r#"
let add a b : Int -> Int -> Int = a #Int+ b
rec let f n : Int -> Int -> Int -> Int =
    if n #Int== 0 then add else f (n #Int- 1)
f 300000 1 2
"# }

tail! { over_application_mutual, 5, r#"
rec
let f n : Int -> Int -> Int =
    if n #Int== 0 then (\x -> x) else g (n #Int- 1) 0
let g n d : Int -> Int -> Int -> Int =
    if n #Int== 0 then (\x -> x) else f (n #Int- 1)
in
f 300001 5
"# }

tail! { partial_application, 0, r#"
rec let go a b c n : Int -> Int -> Int -> Int -> Int =
    if n #Int== 0 then 0
    else
        let p = go a b
        p c (n #Int- 1)
go 1 2 3 300000
"# }

tail! { partial_application_excess, 9, r#"
rec let go a b n : Int -> Int -> Int -> Int -> Int =
    if n #Int== 0 then (\x -> x)
    else
        let p = go a
        p b (n #Int- 1)
go 1 2 300000 9
"# }

tail! { growing_arguments, 0, r#"
rec
let f a : Int -> Int = g a a a a a a a a
let g a b c d e f2 g2 h : Int -> Int -> Int -> Int -> Int -> Int -> Int -> Int -> Int =
    if a #Int== 0 then 0 else f (a #Int- 1)
in
f 300000
"# }

tail! { in_match_arms, 0, r#"
type T = | A Int | B Int Int
rec let go t : T -> Int =
    match t with
    | A n -> if n #Int== 0 then 0 else go (B n n)
    | B n m -> go (A (n #Int- 1))
go (A 150000)
"# }

tail! { in_literal_match, 1, r#"
rec let go n : Int -> Int =
    match n with
    | 0 -> 1
    | 1 -> go 0
    | _ -> go (n #Int- 1)
go 300000
"# }

tail! { in_or_and, 1, r#"
type Bool = | False | True
rec let all n : Int -> Bool =
    n #Int== 0 || (0 #Int< n && all (n #Int- 1))
match all 300000 with
| True -> 1
| False -> 0
"# }

tail! { after_locals, 0, r#"
rec let go n : Int -> Int =
    if n #Int== 0 then 0
    else
        let a = n #Int- 1
        let b = { a, n }
        let { a = c } = b
        go c
go 300000
"# }

tail! { cps_small_chain, 300000, r#"
rec let count n k : Int -> (Int -> Int) -> Int =
    if n #Int== 0 then k 0
    else count (n #Int- 1) k
rec let outer i acc : Int -> Int -> Int =
    if i #Int== 0 then acc
    else outer (i #Int- 1) (count 2 (\r -> acc #Int+ 1 #Int+ r))
outer 300000 0
"# }

tail! { record_field_function, 0, r#"
rec
let go n : Int -> Int = if n #Int== 0 then 0 else (m ()).back (n #Int- 1)
let m _ : () -> { back : Int -> Int } = { back = \n -> go n }
in
go 300000
"# }
