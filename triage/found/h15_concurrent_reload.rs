// C15 finding 7: reloading a module from one OS thread while another thread of the same VM is evaluating
// must not hang.
use std::sync::mpsc;
use std::time::Duration;

use gluon::{RootedThread, ThreadExt};

fn new_vm() -> RootedThread {
    gluon::VmBuilder::new().build()
}

/// Control: the two actions run one after the other
#[test]
fn reload_after_evaluation_finished() {
    let (tx, rx) = mpsc::channel();
    std::thread::Builder::new()
        .stack_size(32 * 1024 * 1024)
        .spawn(move || {
            let vm = new_vm();
            vm.load_script("m", "{ x = 1 }").unwrap();
            let r = vm
                .run_expr::<i64>("top", "let m = import! m\nlet l = import! std.list\nm.x")
                .map(|x| x.0)
                .map_err(|e| e.to_string());
            let l = vm.load_script("m", "{ x = 2 }").map_err(|e| e.to_string());
            let r2 = vm
                .run_expr::<i64>("top", "let m = import! m\nm.x")
                .map(|x| x.0)
                .map_err(|e| e.to_string());
            let _ = tx.send((r, l, r2));
        })
        .unwrap();
    let r = rx
        .recv_timeout(Duration::from_secs(300))
        .expect("sequential reload hangs");
    assert_eq!(r, (Ok(1), Ok(()), Ok(2)));
}

/// Thread A compiles and evaluates an expression (which takes about 100ms here as it pulls in
/// part of the standard library), thread B meanwhile reloads the unrelated module `m` with a
/// changed source. Observed: both threads block forever.
fn concurrent(delay_ms: u64) -> Result<(), String> {
    let (tx, rx) = mpsc::channel();
    let (tx2, rx2) = mpsc::channel();
    let vm = new_vm();
    vm.load_script("m", "{ x = 1 }").unwrap();

    let a = vm.new_thread().unwrap();
    std::thread::Builder::new()
        .stack_size(32 * 1024 * 1024)
        .spawn(move || {
            let start = std::time::Instant::now();
            let r = a
                .run_expr::<i64>(
                    "top",
                    "let l = import! std.list\nlet m = import! std.map\nlet s = import! std.stream\nlet p = import! std.parser\n1",
                )
                .map(|x| x.0)
                .map_err(|e| e.to_string());
            let _ = tx.send((r, start.elapsed()));
        })
        .unwrap();

    let b = vm.new_thread().unwrap();
    std::thread::Builder::new()
        .stack_size(32 * 1024 * 1024)
        .spawn(move || {
            std::thread::sleep(Duration::from_millis(delay_ms));
            let r = b.load_script("m", "{ x = 2 }").map_err(|e| e.to_string());
            let _ = tx2.send(r);
        })
        .unwrap();

    let ra = rx.recv_timeout(Duration::from_secs(40));
    let rb = rx2.recv_timeout(Duration::from_secs(5));
    println!("delay {}ms: evaluation: {:?}; reload: {:?}", delay_ms, ra, rb);
    // the VM is leaked on purpose: the threads may be stuck
    std::mem::forget(vm);
    match (ra, rb) {
        (Ok((Ok(1), _)), Ok(Ok(()))) => Ok(()),
        (ra, rb) => Err(format!(
            "delay {}ms: evaluation: {:?}; reload: {:?}",
            delay_ms, ra, rb
        )),
    }
}

#[test]
fn reload_while_other_thread_evaluates() {
    let mut errs = vec![];
    for delay in [10, 30] {
        if let Err(e) = concurrent(delay) {
            errs.push(e);
        }
    }
    assert!(errs.is_empty(), "{:#?}", errs);
}
