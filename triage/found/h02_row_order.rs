//! C02: a record whose row variable was filled in by `unify_rows` (order-insensitive) can later be
//! closed, at which point the compiler accesses its fields by position using the order of the
//! *type*, which is not the layout of the value.
use gluon::{
    ThreadExt,
    vm::api::{Hole, OpaqueValue, ValueRef},
    vm::thread::RootedThread,
};

fn check(src: &str) {
    for &(prelude, optimize) in &[(false, false), (false, true), (true, true)] {
        let vm = gluon::VmBuilder::new().build();
        vm.get_database_mut()
            .implicit_prelude(prelude)
            .optimize(optimize)
            .run_io(false);
        match vm.run_expr::<OpaqueValue<RootedThread, Hole>>("test", src) {
            // Rejecting the program would be fine
            Err(err) => println!("rejected: {}", err),
            Ok((value, typ)) => {
                println!(
                    "prelude={} optimize={}: value = {:?} : {}",
                    prelude, optimize, value, typ
                );
                assert_eq!(typ.to_string(), "Int");
                match value.get_ref() {
                    ValueRef::Int(1) => (),
                    other => panic!(
                        "accepted program of type `{}` evaluated to {:?} (expected Int 1)",
                        typ, other
                    ),
                }
            }
        }
    }
}

#[test]
fn annotated_row_polymorphic_identity() {
    check(
        r#"
let id_x r : forall r . { x : Int | r } -> { x : Int | r } = r
let v = id_x { y = "a", x = 1 }
let w : { x : Int, y : String } = v
w.x
"#,
    );
}

#[test]
fn inferred_row_polymorphic_function() {
    check(
        r#"
let f r =
    let _ = r.x #Int+ 1
    r
let g w : { x : Int, y : String } -> Int = w.x
g (f { y = "a", x = 1 })
"#,
    );
}
