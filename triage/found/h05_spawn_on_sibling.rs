mod support;

use gluon::{
    RootedThread, ThreadExt,
    vm::{
        api::{FunctionRef, IO, OpaqueValue},
        reference::Reference,
    },
};

use crate::support::*;

type Ref = OpaqueValue<RootedThread, Reference<String>>;

fn io<T>(io: IO<T>) -> T {
    match io {
        IO::Value(v) => v,
        IO::Exception(err) => panic!("{}", err),
    }
}

//      vm
//    /    \
//  vm1    vm2
//
// `vm1` creates a reference and hands an action that mentions the reference to
// `thread.spawn_on vm2`. The only difference between the two runs is whether `vm2` (a thread that
// never runs anything) does a garbage collection in between.
fn run(collect_in_sibling: bool) -> String {
    let vm = make_vm();
    let vm1 = vm.new_thread().unwrap();
    let vm2 = vm.new_thread().unwrap();
    for t in &[&vm1, &vm2] {
        t.get_database_mut().run_io(true);
    }
    vm1.run_expr::<()>(
        "load",
        r#"
        let _ = import! std.reference
        let _ = import! std.thread
        ()
        "#,
    )
    .unwrap_or_else(|err| panic!("{}", err));

    // A reference owned by `vm1`
    let r: Ref = vm1
        .run_expr::<IO<Ref>>(
            "make_ref",
            r#" let { ref } = import! std.reference in ref "initial" "#,
        )
        .map(|(x, _)| io(x))
        .unwrap_or_else(|err| panic!("{}", err));

    // vm1: `spawn_on vm2 (load r)`. The returned action is kept alive (but never run).
    let (mut spawn, _) = vm1
        .run_expr::<FunctionRef<fn(RootedThread, Ref) -> IO<OpaqueValue<RootedThread, IO<String>>>>>(
            "spawn",
            r#"
            let { load } = import! std.reference
            let thread = import! std.thread
            \other r -> thread.spawn_on other (load r)
            "#,
        )
        .unwrap_or_else(|err| panic!("{}", err));
    let _pending_action = io(spawn.call(vm2.clone(), r.clone()).unwrap());

    if collect_in_sibling {
        vm2.collect();
    }

    // vm1: store a fresh string in the reference
    let (mut store, _) = vm1
        .run_expr::<FunctionRef<fn(Ref, String) -> IO<()>>>(
            "store",
            r#" let { (<-) } = import! std.reference in \r s -> r <- s "#,
        )
        .unwrap_or_else(|err| panic!("{}", err));
    let expected = "A".repeat(64);
    io(store.call(r.clone(), expected.clone()).unwrap());

    // A collection in the thread that owns the reference and the string stored in it
    vm1.collect();

    // Allocate some more strings of the same size in `vm1`
    let (mut id, _) = vm1
        .run_expr::<FunctionRef<fn(String) -> OpaqueValue<RootedThread, String>>>("id", r#" \s -> s "#)
        .unwrap_or_else(|err| panic!("{}", err));
    let mut keep = Vec::new();
    for _ in 0..50 {
        keep.push(id.call("B".repeat(64)).unwrap());
    }

    let (mut load, _) = vm1
        .run_expr::<FunctionRef<fn(Ref) -> IO<String>>>(
            "load",
            r#" let { load } = import! std.reference in load "#,
        )
        .unwrap_or_else(|err| panic!("{}", err));
    let actual = io(load.call(r.clone()).unwrap());
    drop(keep);
    actual
}

#[test]
fn control_no_collection_in_sibling() {
    let _ = ::env_logger::try_init();
    assert_eq!(run(false), "A".repeat(64));
}

#[test]
fn collection_in_sibling_thread_must_not_change_the_outcome() {
    let _ = ::env_logger::try_init();
    assert_eq!(run(true), "A".repeat(64));
}
