// C16 finding: the hidden binding of an implicit import `{ .. ? }` is named after its ABSOLUTE
// position in the VM wide code map (parser/src/grammar.lalrpop: `implicit?{span.start()}`), and
// that name is printed in diagnostics. The same source therefore gives different diagnostics
// depending on which sources the VM has seen before.
use gluon::{
    ThreadExt,
    vm::api::{Hole, OpaqueValue},
    vm::thread::{RootedThread, Thread},
};

mod support;

fn outcome(vm: &Thread, name: &str, src: &str) -> String {
    match vm.run_expr::<OpaqueValue<&Thread, Hole>>(name, src) {
        Ok((_, t)) => format!("OK type={}", t),
        Err(e) => format!("ERR {}", e.emit_string().unwrap()),
    }
}

fn fresh(prelude: bool) -> RootedThread {
    let vm = support::make_vm();
    vm.get_database_mut()
        .implicit_prelude(prelude)
        .run_io(true);
    vm
}

const AMBIGUOUS: &str = r#"
#[implicit]
type Test a = | Test a
let f ?x y : [Test a] -> a -> a = y
let m1 =
    let a : Test Int = Test 1
    { a }
let m2 =
    let b : Test Int = Test 2
    { b }
let { ? } = m1
let { ? } = m2
f 3
"#;

// Failing: no prelude, no imports, the only difference is that the second VM has compiled one
// unrelated, successful expression before
#[test]
fn ambiguous_implicit_diagnostic_depends_on_earlier_compilation() {
    let a = outcome(&fresh(false), "prog", AMBIGUOUS);

    let warm = fresh(false);
    assert_eq!(outcome(&warm, "unrelated", "1 #Int+ 2"), "OK type=Int");
    let b = outcome(&warm, "prog", AMBIGUOUS);

    println!("{}\n======\n{}", a, b);
    assert!(a.contains("Multiple candidates were found"), "{}", a);
    assert_eq!(a, b);
}

// Control: two fresh VMs agree
#[test]
fn control_two_fresh_vms_agree() {
    let a = outcome(&fresh(false), "prog", AMBIGUOUS);
    let b = outcome(&fresh(false), "prog", AMBIGUOUS);
    assert_eq!(a, b);
}

// Control: without `?` imports the ambiguity diagnostic is stable
#[test]
fn control_without_implicit_import_is_stable() {
    let src = r#"
#[implicit]
type Test a = | Test a
let f ?x y : [Test a] -> a -> a = y
let a = Test 1
let b = Test 2
f 3
"#;
    let a = outcome(&fresh(false), "prog", src);
    let warm = fresh(false);
    assert_eq!(outcome(&warm, "unrelated", "1 #Int+ 2"), "OK type=Int");
    let b = outcome(&warm, "prog", src);
    assert!(a.contains("Multiple candidates were found"), "{}", a);
    assert_eq!(a, b);
}

// Failing, default settings: with the implicit prelude every ambiguity involving a prelude
// instance prints `implicit?<offset of the prelude in the code map>`
#[test]
fn default_prelude_diagnostic_depends_on_earlier_compilation() {
    let src = "let f x = show x\nf undefined_variable";
    let a = outcome(&fresh(true), "prog", src);

    let warm = fresh(true);
    assert_eq!(outcome(&warm, "a_longer_unrelated_name", "1 + 2"), "OK type=Int");
    let b = outcome(&warm, "prog", src);

    println!("{}\n======\n{}", a, b);
    assert_eq!(a, b);
}

// Failing: the same VM, the same program text under the same name compiled twice with an
// unrelated compilation in between
#[test]
fn same_vm_permuted_order() {
    let vm = fresh(false);
    let a = outcome(&vm, "prog", AMBIGUOUS);
    let _ = outcome(&vm, "unrelated", "1 #Int+ 2");
    // change and restore the program so that it is really recompiled
    let _ = outcome(&vm, "prog", "1");
    let b = outcome(&vm, "prog", AMBIGUOUS);
    println!("{}\n======\n{}", a, b);
    assert_eq!(a, b);
}
