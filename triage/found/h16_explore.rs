// Exploration harness for C16 (determinism). Not all tests in here are findings.
use gluon::{
    ThreadExt,
    vm::api::{Hole, OpaqueValue},
    vm::thread::{RootedThread, Thread},
};

mod support;

pub fn outcome(vm: &Thread, name: &str, src: &str, prelude: bool) -> String {
    vm.get_database_mut().implicit_prelude(prelude).run_io(true);
    match vm.run_expr::<OpaqueValue<&Thread, Hole>>(name, src) {
        Ok((v, t)) => scrub(&format!("OK value={:?} type={}", v, t)),
        Err(e) => format!(
            "ERR display={}\n--- emit ---\n{}",
            e,
            e.emit_string().unwrap_or_else(|e| format!("<emit failed {}>", e))
        ),
    }
}

pub fn scrub(s: &str) -> String {
    // replace 0x... addresses
    let mut out = String::new();
    let b = s.as_bytes();
    let mut i = 0;
    while i < b.len() {
        if b[i] == b'0' && i + 1 < b.len() && b[i + 1] == b'x' {
            i += 2;
            while i < b.len() && (b[i] as char).is_ascii_hexdigit() {
                i += 1;
            }
            out.push_str("PTR");
        } else {
            out.push(b[i] as char);
            i += 1;
        }
    }
    out
}

fn fresh() -> RootedThread {
    support::make_vm()
}

const CORPUS: &[(&str, &str, bool)] = &[
    ("int", "1 + 2", true),
    ("undefined", "x", false),
    ("mismatch", "let f x : Int -> Int = x in f \"\"", false),
    ("poly", "let id x = x in id", false),
    ("poly2", "let f x y z = { x, y, z } in f", false),
    ("record_err", "let r = { x = 1, y = \"\" } in r.z", false),
    (
        "implicit_missing",
        "let f ?x y : [a] -> a -> a = y in f 1",
        false,
    ),
    (
        "ambiguous",
        r#"
#[implicit]
type Test a = | Test a
let f ?x y : [Test a] -> a -> a = y
let a = Test 1
let b = Test 2
f 3
"#,
        false,
    ),
    (
        "multi_err",
        r#"
let a : Int = ""
let b : String = 1
let c = undefined_1
let d = undefined_2
{ a, b, c, d }
"#,
        false,
    ),
    (
        "variant",
        "type T a = | A a | B in let f x = match x with | A y -> y | B -> 0 in f",
        false,
    ),
    (
        "prelude_show",
        r#"let { show } = import! std.show in show 1"#,
        true,
    ),
    (
        "prelude_type_err",
        r#"let x : Option Int = Some "" in x"#,
        true,
    ),
    (
        "prelude_map",
        r#"let map = import! std.map
let { (<>) } = import! std.semigroup
map.to_list (map.singleton "a" 1 <> map.singleton "b" 2 <> map.singleton "c" 3)"#,
        true,
    ),
    (
        "hole_record",
        "let f r = r.x in f",
        false,
    ),
    (
        "unresolved",
        "let f x = x.y.z in f",
        false,
    ),
    (
        "kind_err",
        "type A = Int in let x : A Int = 1 in x",
        false,
    ),
    (
        "runtime_panic",
        r#"let f x : Int -> Int = error "boom" in f 1"#,
        true,
    ),
];

#[test]
fn fresh_vm_vs_fresh_vm() {
    for (name, src, prelude) in CORPUS {
        let a = outcome(&fresh(), name, src, *prelude);
        let b = outcome(&fresh(), name, src, *prelude);
        println!("==== {}\n{}", name, a);
        assert_eq!(a, b, "program {}", name);
    }
}

#[test]
fn fresh_vm_vs_warm_vm() {
    // Warm VM: run the whole corpus once (under other names), then again
    let warm = fresh();
    for (name, src, prelude) in CORPUS {
        let _ = outcome(&warm, &format!("warm_{}", name), src, *prelude);
    }
    for (name, src, prelude) in CORPUS.iter().rev() {
        let a = outcome(&fresh(), name, src, *prelude);
        let b = outcome(&warm, name, src, *prelude);
        assert_eq!(a, b, "program {}", name);
    }
}

#[test]
fn same_vm_twice_same_name() {
    let vm = fresh();
    for (name, src, prelude) in CORPUS {
        let a = outcome(&vm, name, src, *prelude);
        let b = outcome(&vm, name, src, *prelude);
        assert_eq!(a, b, "program {}", name);
    }
}
