//! H06: programs that take down the host process (abort / SIGSEGV) instead of returning an error.
//!
//! Every scenario runs in a child process (the test binary re-executes itself with
//! `H06_CHILD=<scenario>`), so a crash of the child is observed as an exit status by the parent
//! and does not take the other tests down.

use std::{
    process::{Command, Stdio},
    sync::mpsc,
    time::Duration,
};

use gluon::{
    RootedThread, Thread, ThreadExt, new_vm,
    vm::api::{Hole, IO, OpaqueValue, OwnedFunction},
};

const CHILD_ENV: &str = "H06_CHILD";

/// Outcome of the child process: Ok(stdout+stderr) if it exited with success.
fn run_child(test_name: &str, scenario: &str) -> Result<String, String> {
    let exe = std::env::current_exe().unwrap();
    let child = Command::new(exe)
        .args(&[test_name, "--exact", "--nocapture", "--test-threads=1"])
        .env(CHILD_ENV, scenario)
        .stdout(Stdio::piped())
        .stderr(Stdio::piped())
        .spawn()
        .unwrap();
    let (tx, rx) = mpsc::channel();
    let pid = child.id();
    std::thread::spawn(move || {
        let out = child.wait_with_output();
        let _ = tx.send(out);
    });
    match rx.recv_timeout(Duration::from_secs(300)) {
        Ok(Ok(out)) => {
            let text = format!(
                "{}{}",
                String::from_utf8_lossy(&out.stdout),
                String::from_utf8_lossy(&out.stderr)
            );
            if out.status.success() {
                Ok(text)
            } else {
                let tail: String = text
                    .lines()
                    .rev()
                    .take(12)
                    .collect::<Vec<_>>()
                    .into_iter()
                    .rev()
                    .collect::<Vec<_>>()
                    .join("\n");
                Err(format!("child died with {:?}\n{}", out.status, tail))
            }
        }
        Ok(Err(err)) => Err(format!("wait failed: {}", err)),
        Err(_) => {
            let _ = Command::new("kill").arg("-9").arg(pid.to_string()).status();
            Err("child timed out".to_string())
        }
    }
}

fn scenario() -> Option<String> {
    std::env::var(CHILD_ENV).ok()
}

/// Runs `body` in a child process and fails the test if the child does not exit cleanly.
/// `body` must itself report every *error value* as fine: only a crash is a failure.
fn isolated(test_name: &str, body: impl FnOnce()) {
    match scenario() {
        Some(ref s) if s == test_name => {
            // Run on a thread with the stack size of the main thread of a normal host program
            let handle = std::thread::Builder::new()
                .stack_size(8 * 1024 * 1024)
                .spawn({
                    // The closure only borrows 'static data in practice, transmute the lifetime
                    let body: Box<dyn FnOnce()> = Box::new(body);
                    let body: Box<dyn FnOnce() + Send + 'static> =
                        unsafe { std::mem::transmute(body) };
                    body
                })
                .unwrap();
            handle.join().unwrap();
        }
        Some(_) => (),
        None => match run_child(test_name, test_name) {
            Ok(_) => (),
            Err(err) => panic!("host process did not survive: {}", err),
        },
    }
}

fn io_vm() -> gluon::RootedThread {
    let vm = new_vm();
    vm.get_database_mut().run_io(true);
    vm
}

fn report<T>(what: &str, r: gluon::Result<T>) {
    match r {
        Ok(_) => eprintln!("{}: Ok", what),
        Err(err) => {
            let s = err.to_string();
            eprintln!("{}: Err({})", what, &s[..s.len().min(300)]);
        }
    }
}

// ---------------------------------------------------------------------------------------------
// 1. std.io.read_file with a huge count
// ---------------------------------------------------------------------------------------------

const READ_FILE: &str = r#"
let io @ { ? } = import! std.io
let { (>>=) } = import! std.monad
io.open_file "Cargo.toml" >>= (\file -> io.read_file file COUNT)
"#;

#[test]
fn read_file_small_count_control() {
    isolated("read_file_small_count_control", || {
        let vm = io_vm();
        let r = vm.run_expr::<IO<OpaqueValue<&Thread, Hole>>>(
            "<top>",
            &READ_FILE.replace("COUNT", "16"),
        );
        report("read_file 16", r.map(|_| ()));
    });
}

#[test]
fn read_file_huge_count_aborts() {
    isolated("read_file_huge_count_aborts", || {
        let vm = io_vm();
        // 2^60 bytes: a legal `Int`, well-typed argument
        let r = vm.run_expr::<IO<OpaqueValue<&Thread, Hole>>>(
            "<top>",
            &READ_FILE.replace("COUNT", "1152921504606846976"),
        );
        report("read_file 2^60", r.map(|_| ()));
    });
}

// ---------------------------------------------------------------------------------------------
// 2. A long (but perfectly legal) linked list and a garbage collection
// ---------------------------------------------------------------------------------------------

const LONG_LIST: &str = r#"
type L = | Nil | Cons Int L
let build n acc : Int -> L -> L =
    if n #Int== 0 then acc else build (n #Int- 1) (Cons n acc)
let len l acc : L -> Int -> Int =
    match l with
    | Nil -> acc
    | Cons _ rest -> len rest (acc #Int+ 1)
len (build COUNT Nil) 0
"#;

#[test]
fn long_list_control() {
    isolated("long_list_control", || {
        let vm = new_vm();
        vm.get_database_mut().implicit_prelude(false);
        let r = vm.run_expr::<i32>("<top>", &LONG_LIST.replace("COUNT", "1000"));
        assert_eq!(r.unwrap().0, 1000);
        vm.collect();
    });
}

#[test]
fn long_list_gc_overflows_native_stack() {
    isolated("long_list_gc_overflows_native_stack", || {
        let vm = new_vm();
        vm.get_database_mut().implicit_prelude(false);
        let r = vm.run_expr::<i32>("<top>", &LONG_LIST.replace("COUNT", "3000000"));
        report("long list", r.map(|x| x.0));
        vm.collect();
    });
}

// ---------------------------------------------------------------------------------------------
// 3. Deeply nested source text
// ---------------------------------------------------------------------------------------------

#[test]
fn deeply_nested_parens_control() {
    isolated("deeply_nested_parens_control", || {
        let vm = new_vm();
        vm.get_database_mut().implicit_prelude(false);
        let n = 50;
        let src = format!("{}1{}", "(".repeat(n), ")".repeat(n));
        let r = vm.run_expr::<i32>("<top>", &src);
        assert_eq!(r.unwrap().0, 1);
    });
}

#[test]
fn deeply_nested_parens_overflow_native_stack() {
    isolated("deeply_nested_parens_overflow_native_stack", || {
        let vm = new_vm();
        vm.get_database_mut().implicit_prelude(false);
        let n = 100_000;
        let src = format!("{}1{}", "(".repeat(n), ")".repeat(n));
        let r = vm.run_expr::<i32>("<top>", &src);
        report("nested parens", r.map(|x| x.0));
    });
}

#[test]
fn long_operator_chain_overflow_native_stack() {
    isolated("long_operator_chain_overflow_native_stack", || {
        let vm = new_vm();
        vm.get_database_mut().implicit_prelude(false);
        let n = 100_000;
        let src = format!("1{}", " #Int+ 1".repeat(n));
        let r = vm.run_expr::<i32>("<top>", &src);
        report("operator chain", r.map(|x| x.0));
    });
}

// ---------------------------------------------------------------------------------------------
// 4. Native recursion through primitives that call back into gluon
// ---------------------------------------------------------------------------------------------

const LAZY_CHAIN: &str = r#"
let { Lazy, lazy, force } = import! std.lazy
let chain n l : Int -> Lazy Int -> Lazy Int =
    if n #Int== 0 then l else chain (n #Int- 1) (lazy (\_ -> 1 #Int+ force l))
force (chain COUNT (lazy (\_ -> 0)))
"#;

#[test]
fn lazy_chain_control() {
    isolated("lazy_chain_control", || {
        let vm = new_vm();
        let r = vm.run_expr::<i32>("<top>", &LAZY_CHAIN.replace("COUNT", "100"));
        assert_eq!(r.unwrap_or_else(|err| panic!("{}", err)).0, 100);
    });
}

#[test]
fn lazy_chain_overflows_native_stack() {
    isolated("lazy_chain_overflows_native_stack", || {
        let vm = new_vm();
        // A host that does bound the VM stack: 1M values
        {
            use gluon::vm::thread::ThreadInternal;
            vm.context().set_max_stack_size(1_000_000);
        }
        let r = vm.run_expr::<i32>("<top>", &LAZY_CHAIN.replace("COUNT", "100000"));
        report("lazy chain", r.map(|x| x.0));
    });
}

// ---------------------------------------------------------------------------------------------
// 5. Running out of the configured memory limit inside `std.thread.new_thread` / `spawn_on`
// ---------------------------------------------------------------------------------------------

fn show_io(r: gluon::vm::Result<IO<i32>>) -> String {
    match r {
        Ok(IO::Value(v)) => format!("Value({})", v),
        Ok(IO::Exception(e)) => format!("Exception({})", e),
        Err(e) => format!("Err({})", e),
    }
}

const NEW_THREAD: &str = r#"
let thread = import! std.thread
let io @ { ? } = import! std.io
let { wrap } = import! std.applicative
let { (>>=), flat_map } = import! std.monad
\_ ->
    do child = thread.new_thread ()
    wrap 1
"#;

const SPAWN_ON: &str = r#"
let thread = import! std.thread
let io @ { ? } = import! std.io
let { wrap } = import! std.applicative
let { (>>=), flat_map } = import! std.monad
\child ->
    do action = thread.spawn_on child (wrap 1)
    action
"#;

/// Calls `call` with 0, 8, 16, ... bytes of headroom below the memory limit until it succeeds.
/// Every attempt before that must fail with an out of memory *error*.
fn squeeze(vm: &Thread, mut call: impl FnMut() -> String) {
    for k in 0..4000 {
        vm.collect();
        let limit = vm.allocated_memory() + k * 8;
        vm.set_memory_limit(limit);
        let s = call();
        eprintln!("headroom {}: {}", k * 8, s.lines().next().unwrap_or(""));
        if s == "Value(1)" {
            return;
        }
    }
    panic!("never succeeded");
}

#[test]
fn new_thread_control() {
    isolated("new_thread_control", || {
        let vm = io_vm();
        let (mut f, _) = vm
            .run_expr::<OwnedFunction<fn(()) -> IO<i32>>>("<top>", NEW_THREAD)
            .unwrap_or_else(|err| panic!("{}", err));
        assert_eq!(show_io(f.call(())), "Value(1)");
    });
}

/// The host limits the memory of the VM. Whatever the limit is, a program must then fail with
/// an out of memory *error*
#[test]
fn new_thread_under_memory_limit_aborts() {
    isolated("new_thread_under_memory_limit_aborts", || {
        let vm = io_vm();
        let (mut f, _) = vm
            .run_expr::<OwnedFunction<fn(()) -> IO<i32>>>("<top>", NEW_THREAD)
            .unwrap_or_else(|err| panic!("{}", err));
        squeeze(&vm, || show_io(f.call(())));
    });
}

#[test]
fn spawn_on_control() {
    isolated("spawn_on_control", || {
        let vm = io_vm();
        let (mut f, _) = vm
            .run_expr::<OwnedFunction<fn(RootedThread) -> IO<i32>>>("<top>", SPAWN_ON)
            .unwrap_or_else(|err| panic!("{}", err));
        let child = vm.new_thread().unwrap();
        assert_eq!(show_io(futures::executor::block_on(f.call_async(child))), "Value(1)");
    });
}

#[test]
fn spawn_on_under_memory_limit_aborts() {
    isolated("spawn_on_under_memory_limit_aborts", || {
        let vm = io_vm();
        let (mut f, _) = vm
            .run_expr::<OwnedFunction<fn(RootedThread) -> IO<i32>>>("<top>", SPAWN_ON)
            .unwrap_or_else(|err| panic!("{}", err));
        let child = vm.new_thread().unwrap();
        squeeze(&vm, || show_io(futures::executor::block_on(f.call_async(child.clone()))));
    });
}
