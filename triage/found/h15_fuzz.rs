// Model based check for C15: random edit histories over 6 modules, compared with a fresh VM.
// All modules are registered up front (so the known "vacant add_module" problem is avoided).
use std::sync::mpsc;
use std::time::Duration;

use gluon::query::CompilationBase;
use gluon::{RootedThread, Thread, ThreadExt};

fn new_vm() -> RootedThread {
    let vm = gluon::VmBuilder::new().build();
    vm.get_database_mut().set_implicit_prelude(false);
    vm
}

fn with_timeout<T: Send + 'static>(
    secs: u64,
    f: impl FnOnce() -> T + Send + 'static,
) -> Result<T, &'static str> {
    let (tx, rx) = mpsc::channel();
    std::thread::Builder::new()
        .stack_size(32 * 1024 * 1024)
        .spawn(move || {
            let _ = tx.send(f());
        })
        .unwrap();
    rx.recv_timeout(Duration::from_secs(secs))
        .map_err(|_| "timeout or panic")
}

struct Rng(u64);
impl Rng {
    fn next(&mut self) -> u64 {
        self.0 = self
            .0
            .wrapping_mul(6364136223846793005)
            .wrapping_add(1442695040888963407);
        self.0 >> 33
    }
    fn below(&mut self, n: u64) -> u64 {
        self.next() % n
    }
}

const N: usize = 6;
static VALUES: std::sync::atomic::AtomicUsize = std::sync::atomic::AtomicUsize::new(0);
static CYCLES: std::sync::atomic::AtomicUsize = std::sync::atomic::AtomicUsize::new(0);
static OTHERS: std::sync::atomic::AtomicUsize = std::sync::atomic::AtomicUsize::new(0);

#[derive(Clone, Debug)]
struct Module {
    string_kind: bool,
    lit: i64,
    imports: Vec<usize>,
}

fn source(m: &Module) -> String {
    let mut s = String::new();
    for i in &m.imports {
        s.push_str(&format!("let m{} = import! m{}\n", i, i));
    }
    let mut n = format!("{}", m.lit);
    for i in &m.imports {
        n.push_str(&format!(" #Int+ m{}.f 0", i));
    }
    if m.string_kind {
        s.push_str(&format!(
            "let n = {}\n{{ v = \"s{}\", n, f = \\x -> x #Int+ n }}",
            n, m.lit
        ));
    } else {
        let mut v = format!("{}", m.lit);
        for i in &m.imports {
            v.push_str(&format!(" #Int+ m{}.v", i));
        }
        s.push_str(&format!(
            "let n = {}\n{{ v = {}, n, f = \\x -> x #Int+ n }}",
            n, v
        ));
    }
    s
}

#[derive(Debug, PartialEq, Clone)]
enum Outcome {
    Value(i64),
    Cyclic,
    OtherError,
}

fn classify(r: Result<i64, String>) -> (Outcome, String) {
    match r {
        Ok(v) => (Outcome::Value(v), String::new()),
        Err(e) if e.contains("cyclic") => (Outcome::Cyclic, e),
        Err(e) => (Outcome::OtherError, e),
    }
}

fn eval(vm: &Thread, i: usize) -> (Outcome, String) {
    classify(
        vm.run_expr::<i64>("top", &format!("(import! m{}).n", i))
            .map(|x| x.0)
            .map_err(|e| e.to_string()),
    )
}

fn fresh_eval(mods: &[Module], i: usize) -> (Outcome, String) {
    let vm = new_vm();
    {
        let mut db = vm.get_database_mut();
        for (j, m) in mods.iter().enumerate() {
            db.add_module(format!("m{}", j), &source(m));
        }
    }
    eval(&vm, i)
}

fn run_history(seed: u64, allow_cycles: bool) -> Result<(), String> {
    let mut rng = Rng(seed);
    let mut mods: Vec<Module> = (0..N)
        .map(|i| Module {
            string_kind: false,
            lit: i as i64 + 1,
            imports: vec![],
        })
        .collect();
    let vm = new_vm();
    {
        let mut db = vm.get_database_mut();
        for (j, m) in mods.iter().enumerate() {
            db.add_module(format!("m{}", j), &source(m));
        }
    }
    let mut log = vec![];
    for step in 0..8 {
        let i = rng.below(N as u64) as usize;
        match rng.below(4) {
            0 => mods[i].lit += 10,
            1 => mods[i].string_kind = !mods[i].string_kind,
            2 => {
                let j = rng.below(N as u64) as usize;
                let ok = if allow_cycles { true } else { j < i };
                if ok && !mods[i].imports.contains(&j) {
                    mods[i].imports.push(j);
                }
            }
            _ => {
                mods[i].imports.pop();
            }
        }
        let src = source(&mods[i]);
        let use_load = rng.below(2) == 0;
        log.push(format!(
            "step {}: m{} := {:?} (load_script={})",
            step, i, src, use_load
        ));
        if use_load {
            let _ = vm.load_script(&format!("m{}", i), &src);
        } else {
            vm.get_database_mut().add_module(format!("m{}", i), &src);
        }
        let k = rng.below(N as u64) as usize;
        let (got, got_msg) = eval(&vm, k);
        let (want, want_msg) = fresh_eval(&mods, k);
        log.push(format!("   eval m{} -> {:?} (fresh {:?})", k, got, want));
        match got {
            Outcome::Value(_) => VALUES.fetch_add(1, std::sync::atomic::Ordering::SeqCst),
            Outcome::Cyclic => CYCLES.fetch_add(1, std::sync::atomic::Ordering::SeqCst),
            Outcome::OtherError => OTHERS.fetch_add(1, std::sync::atomic::Ordering::SeqCst),
        };
        if got != want {
            return Err(format!(
                "seed {}: mismatch\n{}\n--- got:\n{}\n--- fresh:\n{}",
                seed,
                log.join("\n"),
                got_msg,
                want_msg
            ));
        }
    }
    Ok(())
}

#[test]
fn fuzz_histories_acyclic() {
    let r = with_timeout(600, || {
        let mut errs = vec![];
        for seed in 0..150 {
            if let Err(e) = run_history(seed, false) {
                errs.push(e);
            }
        }
        errs
    })
    .expect("hang");
    for e in r.iter().take(3) {
        println!("{}\n==========", e);
    }
    println!(
        "outcome tally so far: values={:?} cycles={:?} other errors={:?}",
        VALUES, CYCLES, OTHERS
    );
    assert!(r.is_empty(), "{} mismatching histories", r.len());
}

#[test]
fn fuzz_histories_with_cycles() {
    let r = with_timeout(600, || {
        let mut errs = vec![];
        for seed in 1000..1150 {
            if let Err(e) = run_history(seed, true) {
                errs.push(e);
            }
        }
        errs
    })
    .expect("hang");
    for e in r.iter().take(3) {
        println!("{}\n==========", e);
    }
    println!(
        "outcome tally so far: values={:?} cycles={:?} other errors={:?}",
        VALUES, CYCLES, OTHERS
    );
    assert!(r.is_empty(), "{} mismatching histories", r.len());
}
