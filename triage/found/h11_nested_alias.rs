//! C11: nested Option/Result are supported marshalling types; the host must be able to
//! request / pass them.
use gluon::{
    ThreadExt, new_vm,
    vm::api::FunctionRef,
};

#[test]
fn option_single_baseline() {
    let _ = env_logger::try_init();
    let thread = new_vm();
    let (v, _) = thread
        .run_expr::<Option<i32>>("test", r#"let x : Option Int = Some 1 in x"#)
        .unwrap_or_else(|err| panic!("{}", err));
    assert_eq!(v, Some(1));
}

#[test]
fn run_expr_nested_option() {
    let _ = env_logger::try_init();
    let thread = new_vm();
    let (v, _) = thread
        .run_expr::<Option<Option<i32>>>("test", r#"let x : Option (Option Int) = Some None in x"#)
        .unwrap_or_else(|err| panic!("{}", err));
    assert_eq!(v, Some(None));
}

#[test]
fn run_expr_nested_option_unannotated() {
    let thread = new_vm();
    let (v, _) = thread
        .run_expr::<Option<Option<i32>>>("test", r#"Some (Some 2)"#)
        .unwrap_or_else(|err| panic!("{}", err));
    assert_eq!(v, Some(Some(2)));
}

#[test]
fn get_global_nested_option() {
    let thread = new_vm();
    thread
        .load_script("nested_opt", r#"let x : Option (Option Int) = Some (Some 2) in x"#)
        .unwrap_or_else(|err| panic!("{}", err));
    let v: Option<Option<i32>> = thread
        .get_global("nested_opt")
        .unwrap_or_else(|err| panic!("{}", err));
    assert_eq!(v, Some(Some(2)));
}

#[test]
fn function_nested_option_annotated() {
    let thread = new_vm();
    let (mut f, _) = thread
        .run_expr::<FunctionRef<fn(Option<Option<i32>>) -> Option<Option<i32>>>>(
            "test",
            r#"let f x : Option (Option Int) -> Option (Option Int) = x in f"#,
        )
        .unwrap_or_else(|err| panic!("{}", err));
    assert_eq!(f.call(Some(None)).unwrap(), Some(None));
    assert_eq!(f.call(Some(Some(3))).unwrap(), Some(Some(3)));
    assert_eq!(f.call(None).unwrap(), None);
}

#[test]
fn function_nested_option_polymorphic_identity() {
    let thread = new_vm();
    let (mut f, _) = thread
        .run_expr::<FunctionRef<fn(Option<Option<i32>>) -> Option<Option<i32>>>>(
            "test",
            r#"\x -> x"#,
        )
        .unwrap_or_else(|err| panic!("{}", err));
    assert_eq!(f.call(Some(None)).unwrap(), Some(None));
    assert_eq!(f.call(Some(Some(3))).unwrap(), Some(Some(3)));
    assert_eq!(f.call(None).unwrap(), None);
}

#[test]
fn run_expr_vec_nested_option() {
    let thread = new_vm();
    let (v, _) = thread
        .run_expr::<Vec<Option<Option<i32>>>>("test", r#"[Some (Some 2), Some None, None]"#)
        .unwrap_or_else(|err| panic!("{}", err));
    assert_eq!(v, vec![Some(Some(2)), Some(None), None]);
}

#[test]
fn run_expr_option_vec_option() {
    let thread = new_vm();
    let (v, _) = thread
        .run_expr::<Option<Vec<Option<i32>>>>("test", r#"Some [Some 2, None]"#)
        .unwrap_or_else(|err| panic!("{}", err));
    assert_eq!(v, Some(vec![Some(2), None]));
}

#[test]
fn run_expr_nested_result() {
    let thread = new_vm();
    let (v, _) = thread
        .run_expr::<Result<Result<i32, String>, String>>("test", r#"let { Result } = import! std.types in Ok (Ok 1)"#)
        .unwrap_or_else(|err| panic!("{}", err));
    assert_eq!(v, Ok(Ok(1)));
}

#[test]
fn run_expr_option_in_result_in_option() {
    let thread = new_vm();
    let (v, _) = thread
        .run_expr::<Option<Result<Option<i32>, String>>>("test", r#"let { Result } = import! std.types in Some (Ok (Some 1))"#)
        .unwrap_or_else(|err| panic!("{}", err));
    assert_eq!(v, Some(Ok(Some(1))));
}

#[test]
fn run_expr_tuple_of_options() {
    let thread = new_vm();
    let (v, _) = thread
        .run_expr::<(Option<i32>, Option<String>)>("test", r#"(Some 1, None)"#)
        .unwrap_or_else(|err| panic!("{}", err));
    assert_eq!(v, (Some(1), None));
}
