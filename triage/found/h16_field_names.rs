// C16 (minor, host API): `Data::field_names()` iterates an FnvMap keyed by `InternedStr`, whose
// hash is the ADDRESS of the interned string (vm/src/interner.rs, `impl Hash for InternedStr`).
// The order in which the host sees the field names of the very same result value therefore
// depends on where the GC happened to place the strings: it differs between VMs / processes /
// after unrelated work.
use gluon::{
    ThreadExt,
    vm::api::{Hole, OpaqueValue, ValueRef},
    vm::thread::{RootedThread, Thread},
};

mod support;

fn fresh() -> RootedThread {
    let vm = support::make_vm();
    vm.get_database_mut().implicit_prelude(false).run_io(true);
    vm
}

const SRC: &str = "{ alpha = 1, beta = 2, gamma = 3, delta = 4, epsilon = 5, zeta = 6, eta = 7, theta = 8, iota = 9, kappa = 10 }";

fn names(vm: &Thread) -> Vec<String> {
    let (v, _) = vm
        .run_expr::<OpaqueValue<&Thread, Hole>>("prog", SRC)
        .unwrap();
    match v.get_ref() {
        ValueRef::Data(d) => d.field_names().map(|s| s.to_string()).collect(),
        _ => panic!(),
    }
}

#[test]
fn field_names_order_fresh_vs_after_unrelated_work() {
    let a = names(&fresh());
    let mut differing = 0;
    for i in 0..8 {
        let vm = fresh();
        // unrelated earlier work which interns a few other strings / allocates
        for j in 0..=i {
            let _ = vm
                .run_expr::<OpaqueValue<&Thread, Hole>>(
                    "other",
                    &format!("{{ unrelated_{} = \"{}\" }}", j, "x".repeat(j * 7 + 1)),
                )
                .unwrap();
        }
        let b = names(&vm);
        println!("{:?}", b);
        if a != b {
            differing += 1;
        }
    }
    println!("{:?}", a);
    assert_eq!(differing, 0, "field name order differs in {} of 8 VMs", differing);
}

// Control: the SET of names is stable, only the order is not
#[test]
fn control_sorted_names_agree() {
    let mut a = names(&fresh());
    let mut b = names(&fresh());
    a.sort();
    b.sort();
    assert_eq!(a, b);
}
