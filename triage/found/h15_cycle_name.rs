// C15 finding 4: a cyclic import is reported, but when the cycle was introduced by an edit (the
// other members of the cycle had been loaded before) the error does not name the cycle: it says
// `a -> a` for the cycle a -> b -> a (and `c -> c` for c -> a -> b -> c).
mod h15_common;
use h15_common::*;

use gluon::{ThreadExt, query::CompilationBase};

/// Control: a VM which sees both sources for the first time names the cycle.
#[test]
fn control_fresh_cycle_of_two_is_named() {
    let r = with_timeout(60, || {
        let vm = new_vm();
        vm.get_database_mut()
            .add_module("b".into(), "let a = import! a\n{ y = a.x }");
        load(&vm, "a", "let b = import! b\n{ x = b.y }")
    })
    .expect("hang");
    let e = r.unwrap_err();
    assert!(e.contains("cyclic dependency: `a -> b -> a`"), "{}", e);
}

/// Control: three modules
#[test]
fn control_fresh_cycle_of_three_is_named() {
    let r = with_timeout(60, || {
        let vm = new_vm();
        vm.get_database_mut()
            .add_module("b".into(), "let c = import! c\n{ y = c.z }");
        vm.get_database_mut()
            .add_module("c".into(), "let a = import! a\n{ z = a.x }");
        load(&vm, "a", "let b = import! b\n{ x = b.y }")
    })
    .expect("hang");
    let e = r.unwrap_err();
    assert!(e.contains("cyclic dependency: `a -> b -> c -> a`"), "{}", e);
}

/// FAILS: `a` and its importer `b` are loaded, then `a` is changed to import `b`.
/// Reported: "Module 'a' occurs in a cyclic dependency: `a -> a`".
#[test]
fn cycle_of_two_introduced_by_an_edit() {
    let r = with_timeout(60, || {
        let vm = new_vm();
        load(&vm, "a", "{ x = 1 }").unwrap();
        load(&vm, "b", "let a = import! a\n{ y = a.x }").unwrap();
        let e1 = load(&vm, "a", "let b = import! b\n{ x = b.y }");
        // Also what later evaluations see
        let e2 = eval_int(&vm, "(import! b).y");
        (e1, e2)
    })
    .expect("hang");
    let e1 = r.0.unwrap_err();
    let e2 = r.1.unwrap_err();
    println!("{}\n{}", e1, e2);
    assert!(e1.contains("cyclic dependency"), "{}", e1);
    assert!(e2.contains("cyclic dependency"), "{}", e2);
    assert!(e1.contains("`a -> b -> a`"), "{}", e1);
    assert!(
        e2.contains("`a -> b -> a`") || e2.contains("`b -> a -> b`"),
        "{}",
        e2
    );
}

/// FAILS: c <- b <- a are loaded, then `c` is changed to import `a`.
/// Reported: "Module 'c' occurs in a cyclic dependency: `c -> c`".
#[test]
fn cycle_of_three_introduced_by_an_edit() {
    let r = with_timeout(60, || {
        let vm = new_vm();
        load(&vm, "c", "{ x = 1 }").unwrap();
        load(&vm, "b", "let c = import! c\n{ x = c.x }").unwrap();
        load(&vm, "a", "let b = import! b\n{ x = b.x }").unwrap();
        load(&vm, "c", "let a = import! a\n{ x = a.x }")
    })
    .expect("hang");
    let e = r.unwrap_err();
    println!("{}", e);
    assert!(e.contains("cyclic dependency"), "{}", e);
    assert!(e.contains("`c -> a -> b -> c`"), "{}", e);
}

/// Control: once the edit is undone everything evaluates again (no stale cycle error).
#[test]
fn control_cycle_removed_again() {
    let r = with_timeout(60, || {
        let vm = new_vm();
        load(&vm, "a", "{ x = 1 }").unwrap();
        load(&vm, "b", "let a = import! a\n{ y = a.x #Int+ 1 }").unwrap();
        let e1 = load(&vm, "a", "let b = import! b\n{ x = b.y }");
        let e2 = load(&vm, "a", "{ x = 5 }");
        let v2 = eval_int(&vm, "(import! b).y");
        (e1.is_err(), e2, v2)
    })
    .expect("hang");
    assert_eq!(r, (true, Ok(()), Ok(6)));
}
