//! H06: after a failed evaluation the VM must behave like a fresh VM and the stack/memory of the
//! failed run must be reclaimable.
use std::{
    future::Future,
    panic::{AssertUnwindSafe, catch_unwind},
    sync::mpsc,
    task::{Context, Poll},
    time::Duration,
};

use gluon::{
    RootedThread, Thread, ThreadExt, new_vm,
    vm::{
        api::{IO, OwnedFunction},
        thread::ThreadInternal,
    },
};

fn with_timeout<T: Send + 'static>(secs: u64, f: impl FnOnce() -> T + Send + 'static) -> T {
    let (tx, rx) = mpsc::channel();
    std::thread::Builder::new()
        .stack_size(16 * 1024 * 1024)
        .spawn(move || {
            let _ = tx.send(f());
        })
        .unwrap();
    rx.recv_timeout(Duration::from_secs(secs))
        .expect("timed out (or the VM thread panicked)")
}

fn io_vm() -> RootedThread {
    let vm = new_vm();
    vm.get_database_mut().run_io(true);
    vm
}

fn show_int(vm: &Thread, src: &str) -> String {
    match vm.run_expr::<i32>("<top>", src) {
        Ok((v, _)) => format!("Value({})", v),
        Err(e) => format!("Err({})", e),
    }
}

fn show_io_int(vm: &Thread, src: &str) -> String {
    match vm.run_expr::<IO<i32>>("<top>", src) {
        Ok((IO::Value(v), _)) => format!("Value({})", v),
        Ok((IO::Exception(e), _)) => format!("Exception({})", e),
        Err(e) => format!("Err({})", e),
    }
}

/// Number of values on the VM stack of `vm`
fn stack_len(vm: &Thread) -> u32 {
    vm.context()
        .stack_frame::<gluon::vm::stack::State>()
        .len()
}

const DEEP_OK: &str = r#"
let array = import! std.array
let f n : Int -> Int = if n == 0 then array.index [7] 0 else 1 + f (n - 1)
f 1000
"#;

/// Same as `DEEP_OK` but the innermost call fails
const DEEP_FAIL: &str = r#"
let array = import! std.array
let f n : Int -> Int = if n == 0 then array.index [7] 1 else 1 + f (n - 1)
f 1000
"#;

// ------------------------------------------------------------------------------------------
// 1. The values of the frames of a failed run stay on the VM stack forever
// ------------------------------------------------------------------------------------------

#[test]
fn successful_run_leaves_stack_empty_control() {
    with_timeout(120, || {
        let vm = new_vm();
        assert_eq!(show_int(&vm, DEEP_OK), "Value(1007)");
        assert_eq!(stack_len(&vm), 0);
        assert_eq!(vm.context().frame_level(), 1);
    })
}

#[test]
fn failed_run_leaves_its_values_on_the_stack() {
    with_timeout(120, || {
        let vm = new_vm();
        assert_eq!(show_int(&vm, DEEP_OK), "Value(1007)");
        assert_eq!(stack_len(&vm), 0);

        assert!(show_int(&vm, DEEP_FAIL).starts_with("Err(Index 1 is out of range"));
        // The frames are unwound ...
        assert_eq!(vm.context().frame_level(), 1);
        // ... but their values are not
        let after_one = stack_len(&vm);
        assert!(show_int(&vm, DEEP_FAIL).starts_with("Err(Index 1 is out of range"));
        let after_two = stack_len(&vm);
        assert_eq!(
            (after_one, after_two),
            (0, 0),
            "values left on the stack after one and after two failed runs"
        );
    })
}

#[test]
fn vm_is_unusable_after_one_stack_overflow() {
    with_timeout(120, || {
        let vm = new_vm();
        vm.context().set_max_stack_size(200_000);
        // control: works under this limit
        assert_eq!(show_int(&vm, "1 + 2"), "Value(3)");
        assert_eq!(show_int(&vm, DEEP_OK), "Value(1007)");

        let overflow = show_int(&vm, "let f x : Int -> Int = 1 + f x in f 1");
        assert!(overflow.starts_with("Err(The stack has overflowed"), "{}", overflow);

        // A fresh VM with the same limit evaluates this to 3
        assert_eq!(show_int(&vm, "1 + 2"), "Value(3)");
    })
}

const BIG_LIST: &str = r#"
let array = import! std.array
type L = | Nil | Cons Int L
let build n acc : Int -> L -> L =
    if n == 0 then acc else build (n - 1) (Cons n acc)
let use l : L -> Int =
    match l with
    | Nil -> 0
    | Cons x _ -> array.index [x] INDEX
let f n l : Int -> L -> Int = if n == 0 then use l else 1 + f (n - 1) l
f 10 (build 20000 Nil)
"#;

#[test]
fn memory_of_failed_run_cannot_be_reclaimed() {
    with_timeout(120, || {
        let vm = new_vm();
        assert_eq!(show_int(&vm, &BIG_LIST.replace("INDEX", "0")), "Value(11)");
        vm.collect();
        let after_success = vm.allocated_memory();

        assert!(show_int(&vm, &BIG_LIST.replace("INDEX", "1")).starts_with("Err(Index 1"));
        vm.collect();
        let after_failure = vm.allocated_memory();

        assert!(
            after_failure <= after_success + 4096,
            "{} bytes live after the successful run and a collection, {} bytes after the failed \
             run and a collection",
            after_success,
            after_failure
        );
    })
}

const OOM_LIST: &str = r#"
type L = | Nil | Cons Int L
let build n acc : Int -> L -> L =
    if n == 0 then acc else build (n - 1) (Cons n acc)
match build 100000 Nil with
| Nil -> 0
| Cons x _ -> x
"#;

fn run_into_memory_limit() -> RootedThread {
    let vm = new_vm();
    assert_eq!(show_int(&vm, "1 + 2"), "Value(3)");
    vm.collect();
    vm.set_memory_limit(vm.allocated_memory() + 200_000);
    // control: works under this limit
    assert_eq!(show_int(&vm, "1 + 2"), "Value(3)");

    let oom = show_int(&vm, OOM_LIST);
    assert!(oom.starts_with("Err(Thread is out of memory"), "{}", oom);
    vm
}

/// If the host itself forces a collection after the failure the VM works again ...
#[test]
fn out_of_memory_then_host_collect_control() {
    with_timeout(120, || {
        let vm = run_into_memory_limit();
        vm.collect();
        assert_eq!(show_int(&vm, "1 + 2"), "Value(3)");
    })
}

/// ... but by itself the VM never collects the garbage of the failed run: the collector only
/// runs when `allocated_memory >= collect_limit` (twice the live memory of the last collection)
/// and that threshold is above the memory limit, so every later program is out of memory as well
#[test]
fn out_of_memory_failure_is_permanent() {
    with_timeout(120, || {
        let vm = run_into_memory_limit();
        assert_eq!(show_int(&vm, "1 + 2"), "Value(3)");
    })
}

// ------------------------------------------------------------------------------------------
// 2. An interrupted evaluation poisons the VM
// ------------------------------------------------------------------------------------------

#[test]
fn interrupt_is_never_cleared() {
    with_timeout(120, || {
        let vm = new_vm();
        assert_eq!(show_int(&vm, "1 + 2"), "Value(3)");
        let vm2 = vm.clone();
        let h = std::thread::spawn(move || {
            std::thread::sleep(Duration::from_millis(1000));
            vm2.interrupt();
        });
        let looped = show_int(&vm, "let f x : Int -> Int = f (x + 1) in f 0");
        h.join().unwrap();
        assert_eq!(looped, "Err(Thread was interrupted)");

        assert_eq!(show_int(&vm, "1 + 2"), "Value(3)");
    })
}

// ------------------------------------------------------------------------------------------
// 3. An evaluation that the host gives up on (drops while it is pending) blocks the VM
// ------------------------------------------------------------------------------------------

const YIELDING: &str = r#"
let thread = import! std.thread
let io @ { ? } = import! std.io
let { wrap } = import! std.applicative
let { (>>=), flat_map } = import! std.monad
let f x : Int -> IO Int =
    let _ = thread.yield ()
    wrap (x + 1)
do a = f 1
do b = f a
wrap (a + b)
"#;

#[test]
fn dropped_pending_evaluation_blocks_vm() {
    with_timeout(120, || {
        let vm = io_vm();
        // control
        assert_eq!(show_io_int(&vm, YIELDING), "Value(5)");
        {
            let mut fut = Box::pin(vm.run_expr_async::<IO<i32>>("<top>", YIELDING));
            let waker = futures::task::noop_waker();
            let mut cx = Context::from_waker(&waker);
            match fut.as_mut().poll(&mut cx) {
                Poll::Pending => (),
                Poll::Ready(_) => panic!("expected the evaluation to yield"),
            }
            // The host gives up on the evaluation, e.g. because of a timeout
        }
        assert_eq!(show_int(&vm, "1 + 2"), "Value(3)");
    })
}

// ------------------------------------------------------------------------------------------
// 4. `Function::call` (the synchronous host call) panics if the gluon function yields
// ------------------------------------------------------------------------------------------

const YIELDING_FN: &str = r#"
let thread = import! std.thread
\x ->
    let _ = thread.yield ()
    x #Int+ 1
"#;

#[test]
fn async_call_of_yielding_function_control() {
    with_timeout(120, || {
        let vm = new_vm();
        let (mut f, _) = vm
            .run_expr::<OwnedFunction<fn(i32) -> i32>>("<top>", YIELDING_FN)
            .unwrap_or_else(|err| panic!("{}", err));
        assert_eq!(futures::executor::block_on(f.call_async(1)).unwrap(), 2);
    })
}

#[test]
fn sync_call_of_yielding_function_panics_in_the_host() {
    with_timeout(120, || {
        let vm = new_vm();
        let (mut f, _) = vm
            .run_expr::<OwnedFunction<fn(i32) -> i32>>("<top>", YIELDING_FN)
            .unwrap_or_else(|err| panic!("{}", err));
        let r = catch_unwind(AssertUnwindSafe(|| f.call(1).map_err(|err| err.to_string())));
        let after = catch_unwind(AssertUnwindSafe(|| show_int(&vm, "1 + 2")));
        let r = match r {
            Ok(r) => format!("{:?}", r),
            Err(payload) => format!(
                "host panic: {}",
                payload
                    .downcast_ref::<&str>()
                    .map(|s| s.to_string())
                    .or_else(|| payload.downcast_ref::<String>().cloned())
                    .unwrap_or_default()
            ),
        };
        let after = after.unwrap_or_else(|_| "host panic".to_string());
        // `block_on_sync` reports functions that turn out to be async as this error
        assert!(
            r.contains("Unexpected async") && after == "Value(3)",
            "f.call(1) = {}; the next evaluation on the VM = {}",
            r,
            after
        );
    })
}

// ------------------------------------------------------------------------------------------
// 5. (minor) `io.run_expr` replaces the error of the inner program with an internal message
// ------------------------------------------------------------------------------------------

#[test]
fn run_expr_error_is_replaced_by_internal_message() {
    with_timeout(120, || {
        let vm = io_vm();
        let src = r#"
let io @ { ? } = import! std.io
let { wrap } = import! std.applicative
let { (>>=), flat_map } = import! std.monad
do r = io.run_expr "let a = import! std.array in a.index [1] 3"
wrap 1
"#;
        let out = show_io_int(&vm, src);
        assert!(
            out.contains("Index 3 is out of range"),
            "the error of the inner program is lost: {}",
            out
        );
    })
}
