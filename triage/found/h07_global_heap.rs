//! H07: with a memory limit configured a program must not be able to allocate without bound.
//!
//! A `Reference` that is part of the value of a module lives in the global heap and `<-` copies
//! every stored value into the global heap as well. The global heap has no limit
//! (`usize::MAX`) and is never collected.

use std::{sync::mpsc, time::Duration};

use gluon::{
    Thread, ThreadExt, new_vm,
    vm::api::{Hole, OpaqueValue},
};

fn with_timeout<T: Send + 'static>(secs: u64, f: impl FnOnce() -> T + Send + 'static) -> T {
    let (tx, rx) = mpsc::channel();
    std::thread::Builder::new()
        .stack_size(64 * 1024 * 1024)
        .spawn(move || {
            let _ = tx.send(f());
        })
        .unwrap();
    rx.recv_timeout(Duration::from_secs(secs))
        .expect("timeout (or the worker thread panicked)")
}

const LIMIT_HEADROOM: usize = 1_000_000;

fn setup() -> gluon::RootedThread {
    let vm = new_vm();
    vm.get_database_mut().run_io(true);
    vm.run_expr::<OpaqueValue<&Thread, Hole>>(
        "load",
        "let _ = import! std.st.reference.prim\n()",
    )
    .unwrap_or_else(|err| panic!("{}", err));
    // A module whose value is a reference
    vm.load_script(
        "h07cell",
        "let { ref } = import! std.st.reference.prim\nref [0]",
    )
    .unwrap_or_else(|err| panic!("{}", err));
    vm
}

const PROGRAM_GLOBAL_CELL: &str = r#"
let cell = import! h07cell
let prim = import! std.st.reference.prim
let store = prim.(<-)
rec let fill n : Int -> Int =
    if n #Int== 0 then 0
    else
        let _ = store cell [n, n, n, n, n, n, n, n, n, n, n, n, n, n, n, n, n, n, n, n, n, n, n, n, n, n, n, n, n, n, n, n]
        fill (n #Int- 1)
fill 50000
"#;

const PROGRAM_LOCAL_CELL: &str = r#"
let prim = import! std.st.reference.prim
let store = prim.(<-)
let cell = prim.ref [0]
rec let fill n : Int -> Int =
    if n #Int== 0 then 0
    else
        let _ = store cell [n, n, n, n, n, n, n, n, n, n, n, n, n, n, n, n, n, n, n, n, n, n, n, n, n, n, n, n, n, n, n, n]
        fill (n #Int- 1)
fill 50000
"#;

fn total_growth(program: &'static str) -> (usize, usize) {
    with_timeout(600, move || {
        let vm = setup();
        vm.collect();
        let thread_before = vm.allocated_memory();
        let global_before = vm.global_env().gc.lock().unwrap().allocated_memory();
        vm.set_memory_limit(thread_before + LIMIT_HEADROOM);

        let result = vm.run_expr::<i64>("fill", program);
        match result {
            Ok((0, _)) => (),
            Ok(_) => unreachable!(),
            Err(err) => panic!("{}", err),
        }
        vm.collect();
        let thread_after = vm.allocated_memory();
        let global_after = vm.global_env().gc.lock().unwrap().allocated_memory();
        (
            thread_after.saturating_sub(thread_before),
            global_after.saturating_sub(global_before),
        )
    })
}

#[test]
fn control_local_reference_stays_within_the_limit() {
    let (thread_growth, global_growth) = total_growth(PROGRAM_LOCAL_CELL);
    eprintln!("thread +{} global +{}", thread_growth, global_growth);
    assert!(thread_growth + global_growth <= LIMIT_HEADROOM);
}

#[test]
fn module_reference_stays_within_the_limit() {
    let (thread_growth, global_growth) = total_growth(PROGRAM_GLOBAL_CELL);
    eprintln!("thread +{} global +{}", thread_growth, global_growth);
    assert!(
        thread_growth + global_growth <= LIMIT_HEADROOM,
        "a program limited to {} more bytes left {} bytes allocated that no collection frees \
         ({} in the thread heap, {} in the unlimited global heap)",
        LIMIT_HEADROOM,
        thread_growth + global_growth,
        thread_growth,
        global_growth
    );
}
