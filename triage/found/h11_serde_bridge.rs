#![cfg(feature = "serialization")]
//! C11: values passed through the serde bridge (api::ser::Ser / api::de::De)
//! must come back equal and be observed by gluon as the corresponding value.

use std::collections::BTreeMap;

use gluon::{
    ThreadExt, new_vm,
    vm::api::{FunctionRef, convert, de::De, ser::Ser},
};

fn rt<T>(v: T) -> T
where
    T: serde::Serialize + serde::de::DeserializeOwned + gluon::vm::api::VmType + Clone,
{
    let thread = new_vm();
    let De(out): De<T> = convert(&thread, Ser(v)).unwrap_or_else(|err| panic!("{}", err));
    out
}

#[test]
fn int_roundtrip_baseline() {
    assert_eq!(rt(i64::MIN), i64::MIN);
    assert_eq!(rt(-3i32), -3);
    assert_eq!(rt(String::from("abc")), "abc");
    assert_eq!(rt(1.5f64), 1.5);
}

#[test]
fn vec_int_roundtrip() {
    assert_eq!(rt(vec![1i32, 2, 3]), vec![1, 2, 3]);
}

#[test]
fn vec_empty_roundtrip() {
    assert_eq!(rt(Vec::<i32>::new()), Vec::<i32>::new());
}

#[test]
fn option_some_roundtrip() {
    assert_eq!(rt(Some(5i32)), Some(5));
}

#[test]
fn option_none_roundtrip() {
    assert_eq!(rt(None::<i32>), None);
}

#[test]
fn option_some_zero_float_roundtrip() {
    assert_eq!(rt(Some(0.0f64)), Some(0.0));
}

#[test]
fn result_ok_roundtrip() {
    assert_eq!(rt(Ok::<i32, String>(1)), Ok(1));
}

#[test]
fn result_err_roundtrip() {
    assert_eq!(rt(Err::<i32, String>("e".into())), Err("e".into()));
}

#[test]
fn u8_roundtrip() {
    assert_eq!(rt(200u8), 200u8);
}

#[test]
fn char_roundtrip() {
    assert_eq!(rt('a'), 'a');
}

#[test]
fn tuple_roundtrip() {
    assert_eq!(rt((1i32, String::from("x"))), (1, String::from("x")));
}

#[test]
fn bytes_vec_roundtrip() {
    assert_eq!(rt(vec![1u8, 2, 3]), vec![1u8, 2, 3]);
}

#[test]
fn map_roundtrip() {
    let mut m = BTreeMap::new();
    m.insert("a".to_string(), 1i32);
    m.insert("b".to_string(), 2i32);
    let thread = new_vm();
    thread
        .run_expr::<gluon::vm::api::OpaqueValue<&gluon::Thread, gluon::vm::api::Hole>>("m", "import! std.map")
        .unwrap_or_else(|err| panic!("{}", err));
    // baseline: the direct Pushable/Getable path round-trips
    let direct: BTreeMap<String, i32> = convert(&thread, m.clone()).unwrap();
    assert_eq!(direct, m);
    let De(out): De<BTreeMap<String, i32>> =
        convert(&thread, Ser(m.clone())).unwrap_or_else(|err| panic!("{}", err));
    assert_eq!(out, m);
}

// ---- gluon observing the serialized value ----

#[test]
fn gluon_observes_ser_vec() {
    let thread = new_vm();
    let (mut f, _): (FunctionRef<fn(Ser<Vec<i32>>) -> i32>, _) = thread
        .run_expr(
            "",
            r#"let array = import! std.array in let f xs : Array Int -> Int = array.len xs in f"#,
        )
        .unwrap_or_else(|err| panic!("{}", err));
    assert_eq!(f.call(Ser(vec![10, 20, 30])).unwrap(), 3);
}

#[test]
fn gluon_observes_ser_option() {
    let thread = new_vm();
    let (mut f, _): (FunctionRef<fn(Ser<Option<i32>>) -> i32>, _) = thread
        .run_expr(
            "",
            r#"
let f o : Option Int -> Int =
    match o with
    | Some x -> x
    | None -> 0 - 1
f
"#,
        )
        .unwrap_or_else(|err| panic!("{}", err));
    assert_eq!(f.call(Ser(None)).unwrap(), -1);
    assert_eq!(f.call(Ser(Some(7))).unwrap(), 7);
}

#[test]
fn gluon_observes_ser_result() {
    let thread = new_vm();
    let (mut f, _): (FunctionRef<fn(Ser<Result<i32, i32>>) -> i32>, _) = thread
        .run_expr(
            "",
            r#"
let { Result } = import! std.types
let f o : Result Int Int -> Int =
    match o with
    | Ok x -> x
    | Err e -> 0 - e
f
"#,
        )
        .unwrap_or_else(|err| panic!("{}", err));
    assert_eq!(f.call(Ser(Ok(7))).unwrap(), 7);
    assert_eq!(f.call(Ser(Err(7))).unwrap(), -7);
}

#[test]
fn gluon_observes_ser_char() {
    let thread = new_vm();
    let (mut f, _): (FunctionRef<fn(Ser<char>) -> i32>, _) = thread
        .run_expr(
            "",
            r#"let char = import! std.char in let f c : Char -> Int = char.to_int c in f"#,
        )
        .unwrap_or_else(|err| panic!("{}", err));
    assert_eq!(f.call(Ser('a')).unwrap(), 97);
}

#[test]
fn gluon_observes_ser_byte() {
    let thread = new_vm();
    let (mut f, _): (FunctionRef<fn(Ser<u8>) -> u8>, _) = thread
        .run_expr("", r#"let f b : Byte -> Byte = b #Byte+ 1b in f"#)
        .unwrap_or_else(|err| panic!("{}", err));
    assert_eq!(f.call(Ser(5u8)).unwrap(), 6);
}

// ---- De from genuine gluon values ----

fn de_expr<T>(expr: &str) -> T
where
    T: serde::de::DeserializeOwned + gluon::vm::api::VmType + Send + 'static,
    T::Type: Sized,
{
    let thread = new_vm();
    let (De(v), _) = thread
        .run_expr::<De<T>>("test", expr)
        .unwrap_or_else(|err| panic!("{}", err));
    v
}

#[test]
fn de_gluon_tuple() {
    assert_eq!(de_expr::<(i32, String)>(r#"(1, "x")"#), (1, "x".to_string()));
}

#[test]
fn de_gluon_array_int() {
    assert_eq!(de_expr::<Vec<i32>>(r#"[1, 2, 3]"#), vec![1, 2, 3]);
}

#[test]
fn de_gluon_array_byte() {
    assert_eq!(de_expr::<Vec<u8>>(r#"[1b, 2b, 3b]"#), vec![1u8, 2, 3]);
}

#[test]
fn de_gluon_array_empty() {
    assert_eq!(de_expr::<Vec<i32>>(r#"let x : Array Int = [] in x"#), Vec::<i32>::new());
}

#[test]
fn de_gluon_result() {
    assert_eq!(
        de_expr::<Result<i32, String>>(r#"let { Result } = import! std.types in let x : Result String Int = Ok 1 in x"#),
        Ok(1)
    );
    assert_eq!(
        de_expr::<Result<i32, String>>(r#"let { Result } = import! std.types in let x : Result String Int = Err "e" in x"#),
        Err("e".to_string())
    );
}

#[test]
fn de_gluon_char() {
    assert_eq!(de_expr::<char>(r#"'a'"#), 'a');
}

#[test]
fn de_gluon_byte() {
    assert_eq!(de_expr::<u8>(r#"200b"#), 200);
}

#[test]
fn de_gluon_unit() {
    assert_eq!(de_expr::<()>(r#"()"#), ());
}

#[test]
fn de_gluon_nested_option() {
    assert_eq!(
        de_expr::<Option<Option<i32>>>(r#"let x : Option (Option Int) = Some None in x"#),
        Some(None)
    );
}

#[test]
fn de_gluon_array_option() {
    assert_eq!(
        de_expr::<Vec<Option<i32>>>(r#"[Some 1, None]"#),
        vec![Some(1), None]
    );
}

#[test]
fn de_gluon_array_tuple() {
    assert_eq!(
        de_expr::<Vec<(i32, f64)>>(r#"[(1, 2.0)]"#),
        vec![(1, 2.0)]
    );
}

#[test]
fn de_gluon_i64_min() {
    assert_eq!(de_expr::<i64>(r#"-9223372036854775807 - 1"#), i64::MIN);
}

#[test]
fn de_gluon_f32() {
    assert_eq!(de_expr::<f32>(r#"1.5"#), 1.5f32);
}

#[test]
fn plain_gluon_nested_option() {
    let thread = new_vm();
    let (v, _) = thread
        .run_expr::<Option<Option<i32>>>("test", r#"let x : Option (Option Int) = Some None in x"#)
        .unwrap_or_else(|err| panic!("{}", err));
    assert_eq!(v, Some(None));
}

#[test]
fn plain_gluon_nested_option_fn() {
    let thread = new_vm();
    let (mut f, _) = thread
        .run_expr::<FunctionRef<fn(Option<Option<i32>>) -> Option<Option<i32>>>>("test", r#"let f x : Option (Option Int) -> Option (Option Int) = x in f"#)
        .unwrap_or_else(|err| panic!("{}", err));
    assert_eq!(f.call(Some(None)).unwrap(), Some(None));
    assert_eq!(f.call(Some(Some(3))).unwrap(), Some(Some(3)));
    assert_eq!(f.call(None).unwrap(), None);
}

#[test]
fn plain_gluon_array_of_array_option() {
    let thread = new_vm();
    let (v, _) = thread
        .run_expr::<Vec<Vec<Option<i32>>>>("test", r#"[[Some 1], []]"#)
        .unwrap_or_else(|err| panic!("{}", err));
    assert_eq!(v, vec![vec![Some(1)], vec![]]);
}

#[test]
fn de_gluon_result_same_types() {
    assert_eq!(
        de_expr::<Result<i32, i32>>(
            r#"let { Result } = import! std.types in let x : Result Int Int = Ok 7 in x"#
        ),
        Ok(7)
    );
}
