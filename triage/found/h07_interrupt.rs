//! H07: an interrupt request must stop a running program promptly.

use std::{
    sync::mpsc,
    time::{Duration, Instant},
};

use gluon::{
    Error, RootedThread, Thread, ThreadExt, new_vm,
    vm::{
        Error as VMError,
        api::{Hole, IO, OpaqueValue},
    },
};

fn loaded_vm() -> RootedThread {
    let vm = new_vm();
    vm.get_database_mut().run_io(true);
    vm.run_expr::<OpaqueValue<&Thread, Hole>>(
        "load",
        r#"
let _ = import! std.thread
let _ = import! std.io
let _ = import! std.lazy
()
"#,
    )
    .unwrap_or_else(|err| panic!("{}", err));
    vm
}

/// Runs `expr` on another OS thread, interrupts the vm after 300ms and reports how the program
/// ended (or `None` if it was still running 10 seconds after the interrupt)
fn run_and_interrupt(expr: &'static str) -> Option<Result<String, String>> {
    let vm = loaded_vm();
    let (tx, rx) = mpsc::channel();
    {
        let vm = vm.clone();
        std::thread::Builder::new()
            .stack_size(64 * 1024 * 1024)
            .spawn(move || {
                let result = vm.run_expr::<IO<i64>>("interrupt_me", expr);
                let _ = tx.send(match result {
                    Ok((IO::Value(v), _)) => Ok(format!("value {}", v)),
                    Ok((IO::Exception(err), _)) => Err(format!("exception: {}", err)),
                    Err(Error::VM(VMError::Interrupted)) => Err("interrupted".to_string()),
                    Err(err) => Err(err.to_string()),
                });
            })
            .unwrap();
    }
    std::thread::sleep(Duration::from_millis(300));
    let start = Instant::now();
    vm.interrupt();
    let result = rx.recv_timeout(Duration::from_secs(10)).ok();
    eprintln!(
        "after {:?}: {:?}",
        start.elapsed(),
        result
    );
    // The vm (and the OS thread that may still be spinning) are leaked on purpose
    std::mem::forget(vm);
    result
}

fn assert_interrupted(result: Option<Result<String, String>>) {
    match result {
        None => panic!("the program was still running 10 seconds after `interrupt()`"),
        Some(Err(msg)) => assert!(
            msg.to_lowercase().contains("interrupted"),
            "Unexpected error: {}",
            msg
        ),
        Some(Ok(v)) => panic!("the program completed?! {}", v),
    }
}

#[test]
fn control_interrupt_stops_a_tail_recursive_loop() {
    assert_interrupted(run_and_interrupt(
        r#"
let io @ { ? } = import! std.io
let { wrap } = import! std.applicative
rec let spin n : Int -> Int = spin (n #Int+ 1)
do _ = wrap ()
wrap (spin 0)
"#,
    ));
}

#[test]
fn control_interrupt_stops_a_loop_under_lazy_force() {
    assert_interrupted(run_and_interrupt(
        r#"
let io @ { ? } = import! std.io
let { wrap } = import! std.applicative
let { lazy, force } = import! std.lazy
rec let spin n : Int -> Int = spin (n #Int+ 1)
do _ = wrap ()
wrap (force (lazy (\_ -> spin 0)))
"#,
    ));
}

/// The program loops inside a green thread that it spawned and resumed itself
#[test]
fn interrupt_stops_a_loop_in_a_resumed_child_thread() {
    assert_interrupted(run_and_interrupt(
        r#"
let io @ { ? } = import! std.io
let { wrap } = import! std.applicative
let { spawn, resume } = import! std.thread
rec let spin n : Int -> Int = spin (n #Int+ 1)
do child = spawn (
        do _ = wrap ()
        let _ = spin 0
        wrap ()
    )
do _ = resume child
wrap 0
"#,
    ));
}
