#![cfg(feature = "serialization")]
//! C11: a tuple pushed through the serde bridge must be the record that gluon tuples are
use gluon::{new_vm, ThreadExt, vm::api::{FunctionRef, ser::Ser}};
const SRC: &str = r#"
let first x = x._0
let f t : (Int, String) -> Int = first t
f
"#;
#[test]
fn ser_tuple_polymorphic_field_access() {
    let thread = new_vm();
    let (mut f, _): (FunctionRef<fn(Ser<(i32, String)>) -> i32>, _) = thread
        .run_expr("", SRC).unwrap_or_else(|err| panic!("{}", err));
    assert_eq!(f.call(Ser((7, "x".to_string()))).unwrap(), 7);
}
#[test]
fn direct_tuple_polymorphic_field_access() {
    let thread = new_vm();
    let (mut f, _): (FunctionRef<fn((i32, String)) -> i32>, _) = thread
        .run_expr("", SRC).unwrap_or_else(|err| panic!("{}", err));
    assert_eq!(f.call((7, "x".to_string())).unwrap(), 7);
}
