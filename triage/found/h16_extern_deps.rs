// C16 finding: importing a primitive (extern) module gives a different outcome depending on which
// other modules the VM happened to load earlier, because the extern loader relies on types which
// are registered as a side effect of loading a module that is not declared as a dependency.
use gluon::{
    ThreadExt,
    vm::api::{Hole, OpaqueValue},
    vm::thread::{RootedThread, Thread},
};

mod support;

fn outcome(vm: &Thread, name: &str, src: &str) -> String {
    let r = std::panic::catch_unwind(std::panic::AssertUnwindSafe(|| {
        match vm.run_expr::<OpaqueValue<&Thread, Hole>>(name, src) {
            Ok((_, t)) => format!("OK type={}", t),
            Err(e) => format!("ERR {}", e.emit_string().unwrap()),
        }
    }));
    match r {
        Ok(s) => s,
        Err(e) => format!(
            "PANIC {}",
            e.downcast_ref::<String>()
                .cloned()
                .or_else(|| e.downcast_ref::<&str>().map(|s| s.to_string()))
                .unwrap_or_default()
        ),
    }
}

fn fresh() -> RootedThread {
    let vm = support::make_vm();
    vm.get_database_mut().implicit_prelude(true).run_io(false);
    vm
}

const EXTERN_MODULES: &[&str] = &[
    "std.prim",
    "std.byte.prim",
    "std.int.prim",
    "std.float.prim",
    "std.string.prim",
    "std.fs.prim",
    "std.char.prim",
    "std.thread.prim",
    "std.io.prim",
    "std.path.prim",
    "std.st.reference.prim",
    "std.array.prim",
    "std.lazy.prim",
    "std.reference.prim",
    "std.channel.prim",
    "std.debug.prim",
    "std.process.prim",
    "std.env.prim",
    "std.effect.st.string.prim",
    "std.json.prim",
    "std.regex.prim",
    "std.random.prim",
];

// Exploration: every extern module, alone in a fresh VM vs in a VM which has loaded all the others
#[test]
fn every_extern_module_fresh_vs_warm() {
    let mut bad = Vec::new();
    for m in EXTERN_MODULES {
        let src = format!("let m = import! {} in ()", m);
        let a = outcome(&fresh(), "prog", &src);

        let warm = fresh();
        for other in EXTERN_MODULES {
            if other != m {
                let _ = outcome(&warm, "other", &format!("let m = import! {} in ()", other));
            }
        }
        let b = outcome(&warm, "prog", &src);
        println!("{:28} fresh: {:60.60} | warm: {:60.60}", m, a.replace('\n', " "), b.replace('\n', " "));
        if a != b {
            bad.push(*m);
        }
    }
    assert!(bad.is_empty(), "outcome depends on earlier imports: {:?}", bad);
}

// Failing (panics in the host): `std.path.prim` alone in a fresh VM
#[test]
fn path_prim_fresh_vm() {
    let a = outcome(&fresh(), "prog", "let m = import! std.path.prim in ()");
    assert_eq!(a, "OK type=()");
}

// Control: the same program after an unrelated earlier program imported `std.fs.prim`
#[test]
fn path_prim_after_fs_prim() {
    let vm = fresh();
    assert_eq!(
        outcome(&vm, "unrelated", "let m = import! std.fs.prim in ()"),
        "OK type=()"
    );
    let a = outcome(&vm, "prog", "let m = import! std.path.prim in ()");
    assert_eq!(a, "OK type=()");
}

// Failing: merely permuting two independent imports inside one program changes the outcome
#[test]
fn import_order_inside_one_program() {
    let fs_first = outcome(
        &fresh(),
        "prog",
        "let f = import! std.fs.prim\nlet p = import! std.path.prim\n()",
    );
    let path_first = outcome(
        &fresh(),
        "prog",
        "let p = import! std.path.prim\nlet f = import! std.fs.prim\n()",
    );
    println!("fs first:   {}\npath first: {}", fs_first, path_first);
    assert_eq!(fs_first, "OK type=()");
    assert_eq!(path_first, fs_first);
}
