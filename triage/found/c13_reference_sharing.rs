//! C13: sharing and cycles that go through a `Reference` (or a `Lazy`) must be preserved by a transfer
mod support;

use std::{sync::mpsc, time::Duration};

use gluon::{
    RootedThread, Thread, ThreadExt,
    vm::api::{FunctionRef, Hole, IO, OpaqueValue},
};

use crate::support::*;

fn setup(vm: &Thread) {
    vm.get_database_mut().run_io(true);
    vm.run_expr::<()>(
        "load",
        r#"let _ = import! std.reference
let _ = import! std.lazy
()"#,
    )
    .unwrap_or_else(|err| panic!("{}", err));
}

fn run_io_hole(vm: &Thread, name: &str, expr: &str) -> OpaqueValue<RootedThread, Hole> {
    vm.run_expr::<IO<OpaqueValue<RootedThread, Hole>>>(name, expr)
        .and_then(|(io, _)| Result::from(io).map_err(From::from))
        .unwrap_or_else(|err| panic!("{}", err))
}

const SHARED: &str = r#"
let { ref, load, (<-) } = import! std.reference
let { ? } = import! std.io
let { wrap } = import! std.applicative
do r = ref 0
wrap { a = r, b = r }
"#;

const OBSERVE: &str = r#"
let { Reference, ref, load, (<-) } = import! std.reference
let { ? } = import! std.io
let { wrap } = import! std.applicative
let f p : { a : Reference Int, b : Reference Int } -> IO Int =
    do _ = p.a <- 1
    load p.b
f
"#;

fn observe(vm: &Thread, value: OpaqueValue<RootedThread, Hole>) -> i32 {
    let (mut f, _) = vm
        .run_expr::<FunctionRef<fn(OpaqueValue<RootedThread, Hole>) -> IO<i32>>>(
            "observe", OBSERVE,
        )
        .unwrap_or_else(|err| panic!("{}", err));
    match f.call(value).unwrap_or_else(|err| panic!("{}", err)) {
        IO::Value(v) => v,
        IO::Exception(err) => panic!("{}", err),
    }
}

/// Baseline: in the thread that made it, `{ a = r, b = r }` shares one cell
#[test]
fn shared_reference_in_the_original_thread() {
    let _ = ::env_logger::try_init();
    let vm1 = make_vm();
    setup(&vm1);
    let value = run_io_hole(&vm1, "shared", SHARED);
    assert_eq!(observe(&vm1, value), 1);
}

/// The same value moved to a sibling thread: the two fields are no longer the same cell
#[test]
fn shared_reference_moved_to_a_sibling_keeps_sharing() {
    let _ = ::env_logger::try_init();
    let vm = make_vm();
    let vm1 = vm.new_thread().unwrap();
    let vm2 = vm.new_thread().unwrap();
    setup(&vm1);
    setup(&vm2);
    let value = run_io_hole(&vm1, "shared", SHARED);
    let moved: OpaqueValue<RootedThread, Hole> =
        OpaqueValue::from_value(value.into_inner().re_root(vm2.clone()).unwrap());
    assert_eq!(
        observe(&vm2, moved),
        1,
        "writing through `a` must be visible through `b`: they were the same reference"
    );
}

const CYCLE: &str = r#"
let { Reference, ref, load, (<-) } = import! std.reference
let { ? } = import! std.io
let { wrap } = import! std.applicative
let { Option } = import! std.option
rec type Node = { value : Int, next : Reference (Option Node) }
do r = ref None
let node : Node = { value = 7, next = r }
do _ = r <- Some node
wrap node
"#;

/// A cycle through a reference: the transfer must terminate (and preserve the cycle)
#[test]
fn cyclic_reference_moved_to_a_sibling_terminates() {
    let _ = ::env_logger::try_init();
    let (tx, rx) = mpsc::channel();
    std::thread::spawn(move || {
        let vm = make_vm();
        let vm1 = vm.new_thread().unwrap();
        let vm2 = vm.new_thread().unwrap();
        setup(&vm1);
        setup(&vm2);
        let value = run_io_hole(&vm1, "cycle", CYCLE);
        tx.send("built").unwrap();
        let moved = value.into_inner().re_root(vm2.clone());
        tx.send(if moved.is_ok() { "moved" } else { "error" }).unwrap();
    });
    assert_eq!(rx.recv_timeout(Duration::from_secs(120)), Ok("built"));
    assert_eq!(
        rx.recv_timeout(Duration::from_secs(30)),
        Ok("moved"),
        "re_root of a record that is reachable from its own reference did not finish"
    );
}

const OBSERVE_CYCLE: &str = r#"
let { Reference, ref, load, (<-) } = import! std.reference
let { ? } = import! std.io
let { wrap } = import! std.applicative
let { Option } = import! std.option
rec type Node = { value : Int, next : Reference (Option Node) }
let f node : Node -> IO Int =
    // Overwrite the cell of the outer node; then walk one step along the cycle and look at
    // the cell found there: in a preserved cycle it is the same cell
    do _ = node.next <- None
    wrap 0
let g node : Node -> IO Int =
    do n = load node.next
    match n with
    | None -> wrap 0
    | Some node2 ->
        do _ = node.next <- None
        do n2 = load node2.next
        match n2 with
        | None -> wrap 1
        | Some node3 -> wrap (2 + node3.value)
g
"#;

#[test]
fn cyclic_reference_moved_to_a_sibling_keeps_the_cycle() {
    let _ = ::env_logger::try_init();
    let vm = make_vm();
    let vm1 = vm.new_thread().unwrap();
    let vm2 = vm.new_thread().unwrap();
    setup(&vm1);
    setup(&vm2);
    let run = |vm: &Thread, value: OpaqueValue<RootedThread, Hole>| -> i32 {
        let (mut f, _) = vm
            .run_expr::<FunctionRef<fn(OpaqueValue<RootedThread, Hole>) -> IO<i32>>>(
                "observe_cycle",
                OBSERVE_CYCLE,
            )
            .unwrap_or_else(|err| panic!("{}", err));
        match f.call(value).unwrap_or_else(|err| panic!("{}", err)) {
            IO::Value(v) => v,
            IO::Exception(err) => panic!("{}", err),
        }
    };
    let value = run_io_hole(&vm1, "cycle", CYCLE);
    let moved: OpaqueValue<RootedThread, Hole> =
        OpaqueValue::from_value(value.clone().into_inner().re_root(vm2.clone()).unwrap());
    assert_eq!(run(&vm2, moved), 1, "moved copy");
    assert_eq!(run(&vm1, value), 1, "original");
}

const CYCLE_FROM_CELL: &str = r#"
let { Reference, ref, load, (<-) } = import! std.reference
let { ? } = import! std.io
let { wrap } = import! std.applicative
let { Option } = import! std.option
rec type Node = { value : Int, next : Reference (Option Node) }
do r = ref None
let node : Node = { value = 7, next = r }
do _ = r <- Some node
// The same cyclic structure as in `CYCLE` but entered at the cell instead of at the record
wrap r
"#;

/// The same cycle entered at the reference: the transfer must terminate
#[test]
fn cyclic_reference_entered_at_the_cell_terminates() {
    let _ = ::env_logger::try_init();
    let (tx, rx) = mpsc::channel();
    std::thread::spawn(move || {
        let vm = make_vm();
        let vm1 = vm.new_thread().unwrap();
        let vm2 = vm.new_thread().unwrap();
        setup(&vm1);
        setup(&vm2);
        let value = run_io_hole(&vm1, "cycle", CYCLE_FROM_CELL);
        tx.send("built").unwrap();
        let moved = value.into_inner().re_root(vm2.clone());
        tx.send(if moved.is_ok() { "moved" } else { "error" }).unwrap();
    });
    assert_eq!(rx.recv_timeout(Duration::from_secs(120)), Ok("built"));
    assert_eq!(
        rx.recv_timeout(Duration::from_secs(30)),
        Ok("moved"),
        "re_root of a reference that is reachable from itself did not finish"
    );
}
