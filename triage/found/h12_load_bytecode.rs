#![cfg(feature = "serialization")]
extern crate serde_state as serde;

use crate::serde::ser::SerializeState;

use gluon::{
    ThreadExt,
    compiler_pipeline::*,
    new_vm_async,
    vm::{internal::Global, serialization::SeSeed},
};

/// Runs `text` from source in `thread` and serialises the resulting module as a `Global`, the form
/// `load_bytecode` reads.
async fn serialize_global(thread: &gluon::RootedThread, name: &str, text: &str) -> Vec<u8> {
    let v = text
        .run_expr(
            &mut thread.module_compiler(&mut thread.get_database()),
            &**thread,
            name,
            text,
            None,
        )
        .await
        .unwrap_or_else(|err| panic!("{}", err));
    let global = Global {
        id: v.id.clone(),
        typ: v.typ.clone(),
        metadata: v.metadata.clone(),
        value: v.value.get_variant(),
    };
    let mut buffer = Vec::new();
    {
        let mut ser = serde_json::Serializer::new(&mut buffer);
        global.serialize_state(&mut ser, &SeSeed::new()).unwrap();
    }
    buffer
}

/// What `Precompiled::load_script` does, without holding a database snapshot while calling
/// `set_global` (ThreadExt::load_bytecode deadlocks, see `load_bytecode_hangs`)
fn manual_load(thread: &gluon::RootedThread, name: &str, buffer: &[u8]) {
    use gluon::vm::{serialization::DeSeed, thread::RootedValue};
    let mut de = serde_json::Deserializer::from_slice(buffer);
    let global: Global<RootedValue<gluon::RootedThread>> =
        DeSeed::new(thread, &mut thread.current_context())
            .deserialize(&mut de)
            .unwrap_or_else(|err| panic!("deserialize: {}", err));
    thread.get_database_mut().set_global(
        name,
        global.typ.clone(),
        global.metadata.clone(),
        &global.value,
    );
}

/// Loads the module `module_src` under the name `mymod` from source in one VM and via
/// `load_bytecode` in another VM and runs `user_src` against both.
async fn compare<T>(module_src: &str, user_src: &str)
where
    T: for<'vm, 'value> gluon::vm::api::Getable<'vm, 'value>
        + gluon::vm::api::VmType
        + Send
        + std::fmt::Debug
        + PartialEq
        + 'static,
{
    // From source
    let src_vm = new_vm_async().await;
    src_vm
        .load_script_async("mymod", module_src)
        .await
        .unwrap_or_else(|err| panic!("{}", err));
    let (expected, _) = src_vm
        .run_expr_async::<T>("user", user_src)
        .await
        .unwrap_or_else(|err| panic!("source: {}", err));

    // Through bytecode
    let producer = new_vm_async().await;
    // make sure that anything the user program imports exist in the producer as well
    let buffer = serialize_global(&producer, "mymod", module_src).await;

    let consumer = new_vm_async().await;
    // Import everything the module refers to so that nothing is missing
    manual_load(&consumer, "mymod", &buffer);
    // A global defined through `set_global` is referred to by its name, not through `import!`
    let user_src = &user_src.replace("import! mymod", "mymod");
    let (actual, _) = consumer
        .run_expr_async::<T>("user", user_src)
        .await
        .unwrap_or_else(|err| panic!("bytecode: {}", err));
    assert_eq!(expected, actual);
}

#[tokio::test]
async fn plain_record() {
    compare::<i32>(
        r#" { x = 1, f = \y -> y #Int+ 1 } "#,
        r#" let m = import! mymod in m.f m.x "#,
    )
    .await;
}

#[tokio::test]
async fn polymorphic_function() {
    compare::<i32>(
        r#" { id = \x -> x } "#,
        r#" let m = import! mymod in m.id 1 "#,
    )
    .await;
}

#[tokio::test]
async fn polymorphic_function_two_uses() {
    compare::<String>(
        r#" let id x = x in { id } "#,
        r#" let m = import! mymod in let _ = m.id 1 in m.id "a" "#,
    )
    .await;
}

#[tokio::test]
async fn recursive_type() {
    compare::<i32>(
        r#"
        type L a = | Nil | Cons a (L a)
        rec let sum l : L Int -> Int =
            match l with
            | Nil -> 0
            | Cons x xs -> x #Int+ sum xs
        { L, sum, l = Cons 1 (Cons 2 Nil) }
        "#,
        r#"
        let m @ { L } = import! mymod
        m.sum (Cons 10 m.l)
        "#,
    )
    .await;
}

#[tokio::test]
async fn byte_array() {
    compare::<String>(
        r#" { bytes = [104b, 105b] } "#,
        r#"
        let m = import! mymod
        let prim = import! std.string.prim
        let { Result } = import! std.types
        match prim.from_utf8 m.bytes with
        | Ok s -> s
        | Err _ -> "not utf8"
        "#,
    )
    .await;
}

#[tokio::test]
async fn int_array_to_rust_slice() {
    let module_src = r#" { xs = [1, 2, 3] } "#;
    let producer = new_vm_async().await;
    let buffer = serialize_global(&producer, "mymod", module_src).await;
    let consumer = new_vm_async().await;
    manual_load(&consumer, "mymod", &buffer);

    fn sum(xs: &[i64]) -> i64 {
        xs.iter().sum()
    }
    use gluon::vm::{ExternModule, primitive};
    gluon::import::add_extern_module(&consumer, "sum_mod", |thread| {
        ExternModule::new(thread, primitive!(1, sum))
    });
    eprintln!("extern added");
    let (actual, _) = consumer
        .run_expr_async::<i64>(
            "user",
            "let m = mymod in let sum = import! sum_mod in sum m.xs",
        )
        .await
        .unwrap_or_else(|err| panic!("bytecode: {}", err));
    assert_eq!(actual, 6);
}

#[tokio::test]
async fn polymorphic_value_no_closure() {
    compare::<i32>(
        r#" { empty = [] } "#,
        r#"
        let m = import! mymod
        let a : Array Int = m.empty
        let b : Array String = m.empty
        1
        "#,
    )
    .await;
}

#[tokio::test]
async fn recursive_type_no_closure() {
    compare::<i32>(
        r#"
        type L a = | Nil | Cons a (L a)
        { L, l = Cons 1 (Cons 2 Nil) }
        "#,
        r#"
        let m @ { L, ? } = import! mymod
        rec let sum l : L Int -> Int =
            match l with
            | Nil -> 0
            | Cons x xs -> x #Int+ sum xs
        sum (Cons 10 m.l)
        "#,
    )
    .await;
}

#[tokio::test]
async fn plain_values_no_closure() {
    compare::<String>(
        r#" { x = 1, s = "abc", f = 1.5, c = 'c', b = 1b, nested = { y = Some 2 } } "#,
        r#"
        let m = import! mymod
        match m.nested.y with
        | Some _ -> m.s
        | None -> ""
        "#,
    )
    .await;
}

/// `ThreadExt::load_bytecode` itself, given a well formed serialised global without any closure in
/// it. Run on a separate thread since the call never returns.
#[test]
fn load_bytecode_returns() {
    let (tx, rx) = std::sync::mpsc::channel();
    std::thread::spawn(move || {
        let rt = tokio::runtime::Builder::new_current_thread()
            .enable_all()
            .build()
            .unwrap();
        rt.block_on(async {
            let producer = new_vm_async().await;
            let buffer = serialize_global(&producer, "mymod", r#" { x = 1, s = "abc" } "#).await;
            let consumer = new_vm_async().await;
            let mut de = serde_json::Deserializer::from_reader(&buffer[..]);
            let result = consumer.load_bytecode("mymod", &mut de).await;
            tx.send(result.map_err(|err| err.to_string())).unwrap();
        })
    });
    match rx.recv_timeout(std::time::Duration::from_secs(30)) {
        Ok(result) => result.unwrap(),
        Err(_) => panic!("load_bytecode did not return within 30 seconds"),
    }
}
