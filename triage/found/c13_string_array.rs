//! C13: an array of strings that crosses heaps must be a complete, independent copy.
mod support;

use gluon::{
    RootedThread, Thread, ThreadExt,
    vm::api::{Hole, OpaqueValue, ValueRef},
};

use crate::support::*;

const MAKE: &str = r#"
let prim = import! std.string.prim
[prim.append "first string, allocated at runtime: " "AAAAAAAAAAAAAAAAAAAAAAAA",
 prim.append "second string, allocated at runtime: " "BBBBBBBBBBBBBBBBBBBBBBB"]
"#;

fn string_ptrs<T>(value: &OpaqueValue<T, Hole>) -> Vec<(usize, String)>
where
    T: gluon::vm::thread::VmRootInternal,
{
    match value.get_ref() {
        ValueRef::Array(array) => array
            .iter()
            .map(|v| match v.as_ref() {
                ValueRef::String(s) => (s.as_ptr() as usize, s.to_string()),
                _ => panic!("expected a string"),
            })
            .collect(),
        _ => panic!("expected an array"),
    }
}

fn make(vm: &Thread) -> OpaqueValue<RootedThread, Hole> {
    vm.get_database_mut().run_io(false);
    vm.run_expr::<OpaqueValue<RootedThread, Hole>>("make", MAKE)
        .unwrap_or_else(|err| panic!("{}", err))
        .0
}

/// Two unrelated VMs: nothing may be shared
#[test]
fn string_array_between_unrelated_vms_is_a_complete_copy() {
    let _ = ::env_logger::try_init();
    let vm1 = make_vm();
    let vm2 = make_vm();

    let original = make(&vm1);
    let before = string_ptrs(&original);

    let copy: OpaqueValue<RootedThread, Hole> = OpaqueValue::from_value(
        original.clone().into_inner().re_root(vm2.clone()).unwrap(),
    );
    let after = string_ptrs(&copy);

    assert_eq!(
        before.iter().map(|x| &x.1).collect::<Vec<_>>(),
        after.iter().map(|x| &x.1).collect::<Vec<_>>()
    );
    for ((p1, s), (p2, _)) in before.iter().zip(&after) {
        assert_ne!(
            p1, p2,
            "the copy in vm2 still points at the string {:?} in the heap of vm1",
            s
        );
    }
}

/// Same thing, but observe the dangling pointer: drop the sending VM and allocate again
#[test]
fn string_array_survives_dropping_the_sender() {
    let _ = ::env_logger::try_init();
    let vm1 = make_vm();
    let vm2 = make_vm();

    let original = make(&vm1);
    let copy: OpaqueValue<RootedThread, Hole> = OpaqueValue::from_value(
        original.clone().into_inner().re_root(vm2.clone()).unwrap(),
    );
    let expected: Vec<String> = string_ptrs(&copy).into_iter().map(|x| x.1).collect();

    drop(original);
    drop(vm1);

    // Allocate strings of the same size in vm2
    vm2.get_database_mut().run_io(false);
    let _keep = vm2
        .run_expr::<OpaqueValue<RootedThread, Hole>>(
            "make2",
            r#"
let prim = import! std.string.prim
[prim.append "XXXXX XXXXXXX XXXXXXXXX XX XXXXXXXX " "XXXXXXXXXXXXXXXXXXXXXXXX",
 prim.append "YYYYYY YYYYYYY YYYYYYYYY YY YYYYYYYY " "YYYYYYYYYYYYYYYYYYYYYYY",
 prim.append "ZZZZZ ZZZZZZZ ZZZZZZZZZ ZZ ZZZZZZZZ " "ZZZZZZZZZZZZZZZZZZZZZZZZ",
 prim.append "WWWWWW WWWWWWW WWWWWWWWW WW WWWWWWWW " "WWWWWWWWWWWWWWWWWWWWWWW"]
"#,
        )
        .unwrap_or_else(|err| panic!("{}", err));

    let got: Vec<String> = match copy.get_ref() {
        ValueRef::Array(array) => array
            .iter()
            .map(|v| match v.as_ref() {
                ValueRef::String(s) => String::from_utf8_lossy(s.as_bytes()).into_owned(),
                _ => panic!("expected a string"),
            })
            .collect(),
        _ => panic!("expected an array"),
    };
    assert_eq!(expected, got, "the copy changed after the sender was dropped");
}
