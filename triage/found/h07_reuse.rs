//! H07: a thread must stay usable (with the same limits) after a resource error.

use std::{sync::mpsc, time::Duration};

use gluon::{
    Error, Thread, ThreadExt, new_vm,
    vm::{
        Error as VMError,
        api::{FunctionRef, Hole, OpaqueValue},
        thread::ThreadInternal,
    },
};

fn with_timeout<T: Send + 'static>(secs: u64, f: impl FnOnce() -> T + Send + 'static) -> T {
    let (tx, rx) = mpsc::channel();
    std::thread::Builder::new()
        .stack_size(64 * 1024 * 1024)
        .spawn(move || {
            let _ = tx.send(f());
        })
        .unwrap();
    rx.recv_timeout(Duration::from_secs(secs))
        .expect("timeout (or the worker thread panicked)")
}

const DEEP: &str = r#"
rec let deep n : Int -> Int =
    if n #Int== 0 then 0
    else 1 #Int+ deep (n #Int- 1)
deep
"#;

#[test]
fn thread_is_usable_after_stack_overflow_in_run_expr() {
    with_timeout(120, || {
        let vm = new_vm();
        vm.get_database_mut().implicit_prelude(false);
        vm.context().set_max_stack_size(1000);
        // Control: the shallow program fits in the limit
        let result = vm.run_expr::<i64>("shallow", &format!("{} 50", DEEP.trim_end()));
        assert_eq!(result.map(|t| t.0).map_err(|e| e.to_string()), Ok(50), "control");
        eprintln!("stack before: {}", vm.context().stacktrace(0).frames.len());
        for round in 0..5 {
            let result = vm.run_expr::<i64>("deep", &format!("{} 100000", DEEP.trim_end()));
            eprintln!("stack after failure: {}", vm.context().stacktrace(0).frames.len());
            assert!(
                matches!(result, Err(Error::VM(VMError::StackOverflow(_)))),
                "round {}: {:?}",
                round,
                result.map(|t| t.0)
            );
            let result = vm.run_expr::<i64>("shallow", &format!("{} 50", DEEP.trim_end()));
            assert_eq!(result.map(|t| t.0).map_err(|e| e.to_string()), Ok(50), "round {}", round);
        }
    })
}

#[test]
fn thread_is_usable_after_stack_overflow_in_function_call() {
    with_timeout(120, || {
        let vm = new_vm();
        vm.get_database_mut().implicit_prelude(false);
        vm.context().set_max_stack_size(1000);
        let (mut f, _) = vm
            .run_expr::<FunctionRef<fn(i64) -> i64>>("deep", DEEP)
            .unwrap_or_else(|err| panic!("{}", err));
        assert_eq!(f.call(50).map_err(|e| e.to_string()), Ok(50), "control");
        for round in 0..5 {
            let result = f.call(100000);
            assert!(
                matches!(result, Err(VMError::StackOverflow(_))),
                "round {}: {:?}",
                round,
                result
            );
            assert_eq!(f.call(50).map_err(|e| e.to_string()), Ok(50), "round {}", round);
        }
    })
}

#[test]
fn thread_is_usable_after_stack_overflow_under_lazy_force() {
    with_timeout(300, || {
        let vm = new_vm();
        vm.run_expr::<OpaqueValue<&Thread, Hole>>("load", "let _ = import! std.lazy\n()")
            .unwrap_or_else(|err| panic!("{}", err));
        vm.context().set_max_stack_size(1000);
        let program = |n: i64| {
            format!(
                r#"
let {{ lazy, force }} = import! std.lazy
rec let deep n : Int -> Int =
    if n #Int== 0 then 0
    else 1 #Int+ deep (n #Int- 1)
force (lazy (\_ -> deep {}))
"#,
                n
            )
        };
        let result = vm.run_expr::<i64>("shallow", &program(50));
        assert_eq!(result.map(|t| t.0).map_err(|e| e.to_string()), Ok(50), "control");
        for round in 0..5 {
            let result = vm.run_expr::<i64>("deep", &program(100000));
            match &result {
                Err(err) => assert!(
                    err.to_string().contains("stack has overflowed"),
                    "round {}: {}",
                    round,
                    err
                ),
                Ok(_) => panic!("expected an error"),
            }
            let result = vm.run_expr::<i64>("shallow", &program(50));
            assert_eq!(result.map(|t| t.0).map_err(|e| e.to_string()), Ok(50), "round {}", round);
        }
    })
}

#[test]
fn thread_is_usable_after_out_of_memory() {
    with_timeout(300, || {
        let vm = new_vm();
        vm.get_database_mut().implicit_prelude(false);
        let program = |n: i64| {
            format!(
                r#"
type L = | Nil | Cons Int L
rec let build n acc : Int -> L -> L =
    if n #Int== 0 then acc
    else build (n #Int- 1) (Cons n acc)
rec let length l acc : L -> Int -> Int =
    match l with
    | Nil -> acc
    | Cons _ xs -> length xs (acc #Int+ 1)
length (build {} Nil) 0
"#,
                n
            )
        };
        vm.run_expr::<i64>("warm", &program(10)).unwrap();
        vm.collect();
        let limit = vm.allocated_memory() + 200_000;
        vm.set_memory_limit(limit);
        let result = vm.run_expr::<i64>("small", &program(100));
        assert_eq!(result.map(|t| t.0).map_err(|e| e.to_string()), Ok(100), "control");
        for round in 0..5 {
            let result = vm.run_expr::<i64>("big", &program(100000));
            assert!(
                matches!(result, Err(Error::VM(VMError::OutOfMemory { .. }))),
                "round {}: {:?}",
                round,
                result.map(|t| t.0)
            );
            assert!(vm.allocated_memory() <= limit + 64);
            // Even an explicit collection does not help: the values of the failed call are still
            // on the stack of the thread and keep everything it built alive
            vm.collect();
            eprintln!(
                "round {}: allocated after the failed run and a collection: {} (limit {})",
                round,
                vm.allocated_memory(),
                limit
            );
            let result = vm.run_expr::<i64>("small", &program(100));
            assert_eq!(result.map(|t| t.0).map_err(|e| e.to_string()), Ok(100), "round {}", round);
        }
    })
}
