// C15 findings 2, 3, 5, 6: results which are stale after a module source was loaded / reloaded.
//
// What the failing tests have in common: a new source became available but no new salsa revision
// was started, so `import(..)`, `global_inner(..)` and `module_text(..)` keep answering from
// their memo tables. The passing controls show that the same sequence works as soon as anything
// starts a new revision.
mod h15_common;
use h15_common::*;

use gluon::ThreadExt;

// ---------------------------------------------------------------------------------------------
// Finding 2: a module which was imported before it existed stays "not found" after it is loaded
// ---------------------------------------------------------------------------------------------

/// FAILS: `import! a` fails as there is no `a` (fine). Then `load_script("a", ..)` *itself*
/// fails with the stale "Could not find module 'a'" and later imports fail as well.
#[test]
fn missing_module_stays_missing_after_load_script() {
    let r = with_timeout(60, || {
        let vm = new_vm();
        let e1 = eval_int(&vm, "(import! a).x");
        let e2 = load(&vm, "a", "{ x = 1 }");
        let v = eval_int(&vm, "(import! a).x");
        (e1, e2, v)
    })
    .unwrap();
    println!("{:#?}", r);
    assert!(r.0.is_err());
    assert_eq!(r.1, Ok(()), "load_script of a perfectly fine module");
    assert_eq!(r.2, Ok(1));
}

/// FAILS: same thing through an importer: `b` imports the not yet existing `a`, then `a` is
/// loaded, then `b` is loaded again. A fresh VM given these two sources loads `b` fine.
#[test]
fn importer_of_missing_module_stays_broken() {
    let r = with_timeout(60, || {
        let vm = new_vm();
        let e1 = load(&vm, "b", "let a = import! a\n{ y = a.x }");
        let _ = load(&vm, "a", "{ x = 1 }");
        let e3 = load(&vm, "b", "let a = import! a\n{ y = a.x }");
        let v = eval_int(&vm, "(import! b).y");
        (e1, e3, v)
    })
    .unwrap();
    println!("{:#?}", r);
    assert!(r.0.is_err());
    assert_eq!(r.1, Ok(()));
    assert_eq!(r.2, Ok(1));
}

/// Control: the same history, but something unrelated (here: a no-op settings change) starts a
/// new revision after `a` was added.
#[test]
fn control_missing_module_found_after_a_new_revision() {
    let r = with_timeout(60, || {
        let vm = new_vm();
        let e1 = load(&vm, "b", "let a = import! a\n{ y = a.x }");
        let _ = load(&vm, "a", "{ x = 1 }");
        vm.run_io(false);
        let e3 = load(&vm, "a", "{ x = 1 }");
        let v = eval_int(&vm, "(import! b).y");
        (e1, e3, v)
    })
    .unwrap();
    assert!(r.0.is_err());
    assert_eq!(r.1, Ok(()));
    assert_eq!(r.2, Ok(1));
}

/// Control: a fresh VM which gets `a` before anything imports it.
#[test]
fn control_fresh_vm() {
    let r = with_timeout(60, || {
        let vm = new_vm();
        let e2 = load(&vm, "a", "{ x = 1 }");
        let e3 = load(&vm, "b", "let a = import! a\n{ y = a.x }");
        let v = eval_int(&vm, "(import! b).y");
        (e2, e3, v)
    })
    .unwrap();
    assert_eq!(r, (Ok(()), Ok(()), Ok(1)));
}

// ---------------------------------------------------------------------------------------------
// Finding 3: modules which come from files are never read again
// ---------------------------------------------------------------------------------------------

fn file_vm(dir: &std::path::Path) -> gluon::RootedThread {
    let vm = gluon::VmBuilder::new()
        .import_paths(Some(vec![dir.to_owned()]))
        .build();
    vm.get_database_mut().set_implicit_prelude(false);
    vm
}

/// FAILS: fa.glu is loaded with `load_file`, changed on disk and loaded with `load_file` again.
/// The second `load_file` returns Ok but the module still has the old value.
#[test]
fn load_file_again_after_the_file_changed() {
    let r = with_timeout(60, || {
        let dir = tempfile::tempdir().unwrap();
        let vm = file_vm(dir.path());
        std::fs::write(dir.path().join("fa.glu"), "{ x = 1 }").unwrap();
        let l1 = vm.load_file("fa.glu").map_err(|e| e.to_string());
        let v1 = eval_int(&vm, "(import! fa).x");
        std::fs::write(dir.path().join("fa.glu"), "{ x = 2 }").unwrap();
        let l2 = vm.load_file("fa.glu").map_err(|e| e.to_string());
        let v2 = eval_int(&vm, "(import! fa).x");
        (l1, v1, l2, v2)
    })
    .unwrap();
    println!("{:#?}", r);
    assert_eq!(r.0, Ok(()));
    assert_eq!(r.1, Ok(1));
    assert_eq!(r.2, Ok(()));
    assert_eq!(r.3, Ok(2), "value of fa.x after the file was changed and loaded again");
}

/// FAILS: the dependency fa.glu changes on disk, the importer `b` is loaded again (same source).
/// `b.y` must be 2 (that is what a fresh VM computes), it is 1.
#[test]
fn importer_reloaded_after_file_dependency_changed() {
    let r = with_timeout(60, || {
        let dir = tempfile::tempdir().unwrap();
        let vm = file_vm(dir.path());
        std::fs::write(dir.path().join("fa.glu"), "{ x = 1 }").unwrap();
        load(&vm, "b", "let a = import! fa\n{ y = a.x }").unwrap();
        let v1 = eval_int(&vm, "(import! b).y");
        std::fs::write(dir.path().join("fa.glu"), "{ x = 2 }").unwrap();
        let l = load(&vm, "b", "let a = import! fa\n{ y = a.x }");
        let v2 = eval_int(&vm, "(import! b).y");
        (v1, l, v2)
    })
    .unwrap();
    println!("{:#?}", r);
    assert_eq!(r.0, Ok(1));
    assert_eq!(r.1, Ok(()));
    assert_eq!(r.2, Ok(2));
}

/// FAILS: the file does not exist at the first import, is then created, and is still reported
/// missing by `import!` and by `load_file`.
#[test]
fn file_created_after_a_failed_import() {
    let r = with_timeout(60, || {
        let dir = tempfile::tempdir().unwrap();
        let vm = file_vm(dir.path());
        let v1 = eval_int(&vm, "(import! fa).x");
        std::fs::write(dir.path().join("fa.glu"), "{ x = 2 }").unwrap();
        let v2 = eval_int(&vm, "(import! fa).x");
        let l2 = vm.load_file("fa.glu").map_err(|e| e.to_string());
        (v1, v2, l2)
    })
    .unwrap();
    println!("{:#?}", r);
    assert!(r.0.is_err());
    assert_eq!(r.1, Ok(2));
    assert_eq!(r.2, Ok(()));
}

/// Control: the changed file is picked up once the source of an (inline) module changes, as
/// that starts a new revision.
#[test]
fn control_file_change_seen_after_a_new_revision() {
    let r = with_timeout(60, || {
        let dir = tempfile::tempdir().unwrap();
        let vm = file_vm(dir.path());
        std::fs::write(dir.path().join("fa.glu"), "{ x = 1 }").unwrap();
        load(&vm, "b", "let a = import! fa\n{ y = a.x }").unwrap();
        let v1 = eval_int(&vm, "(import! b).y");
        std::fs::write(dir.path().join("fa.glu"), "{ x = 2 }").unwrap();
        load(&vm, "b", "let a = import! fa\n{ y = a.x #Int+ 0 }").unwrap();
        let v2 = eval_int(&vm, "(import! b).y");
        (v1, v2)
    })
    .unwrap();
    assert_eq!(r, (Ok(1), Ok(2)));
}

// ---------------------------------------------------------------------------------------------
// Finding 5: `compiler_pipeline::Executable::load_script` replaces the source without
// invalidating anything
// ---------------------------------------------------------------------------------------------

fn pipeline_load(vm: &gluon::Thread, name: &str, src: &str) -> Result<(), String> {
    use gluon::compiler_pipeline::Executable;
    futures::executor::block_on(async {
        let mut db = vm.get_database();
        src.load_script(&mut vm.module_compiler(&mut db), vm, name, src, None)
            .await
            .map_err(|e| e.to_string())
    })
}

/// FAILS: the public pipeline API `"..".load_script(compiler, vm, "a", "..", None)` is used twice
/// with different sources for `a`. The second call returns Ok, `a.x` is still 1.
#[test]
fn pipeline_load_script_twice() {
    let r = with_timeout(60, || {
        let vm = new_vm();
        let e1 = pipeline_load(&vm, "a", "{ x = 1 }");
        let v1 = eval_int(&vm, "(import! a).x");
        let e2 = pipeline_load(&vm, "a", "{ x = 2 }");
        let v2 = eval_int(&vm, "(import! a).x");
        (e1, v1, e2, v2)
    })
    .unwrap();
    println!("{:#?}", r);
    assert_eq!(r.0, Ok(()));
    assert_eq!(r.1, Ok(1));
    assert_eq!(r.2, Ok(()));
    assert_eq!(r.3, Ok(2));
}

/// Control: `ThreadExt::load_script` (which goes through `add_module`) does invalidate.
#[test]
fn control_thread_ext_load_script_twice() {
    let r = with_timeout(60, || {
        let vm = new_vm();
        let e1 = load(&vm, "a", "{ x = 1 }");
        let v1 = eval_int(&vm, "(import! a).x");
        let e2 = load(&vm, "a", "{ x = 2 }");
        let v2 = eval_int(&vm, "(import! a).x");
        (e1, v1, e2, v2)
    })
    .unwrap();
    assert_eq!(r, (Ok(()), Ok(1), Ok(()), Ok(2)));
}

// ---------------------------------------------------------------------------------------------
// Finding 6 (weaker, a host observation rather than an evaluation): `get_global` peeks into the
// memo table without validating it
// ---------------------------------------------------------------------------------------------

/// FAILS: a <- b <- c. `a` is reloaded (Ok) with another value. `get_global("c.z")` still
/// answers with the value computed from the old `a`; after any evaluation of `c` it answers 12.
#[test]
fn get_global_after_dependency_was_reloaded() {
    let r = with_timeout(60, || {
        let vm = new_vm();
        load(&vm, "a", "{ x = 1 }").unwrap();
        load(&vm, "b", "let a = import! a\n{ y = a.x #Int+ 1 }").unwrap();
        load(&vm, "c", "let b = import! b\n{ z = b.y #Int+ 1 }").unwrap();
        let v1 = eval_int(&vm, "(import! c).z");
        load(&vm, "a", "{ x = 10 }").unwrap();
        let g1 = vm.get_global::<i64>("c.z").map_err(|e| e.to_string());
        let v2 = eval_int(&vm, "(import! c).z");
        let g2 = vm.get_global::<i64>("c.z").map_err(|e| e.to_string());
        (v1, g1, v2, g2)
    })
    .unwrap();
    println!("{:?}", r);
    assert_eq!(r.0, Ok(3));
    assert_eq!(r.2, Ok(12));
    assert_eq!(r.3, Ok(12));
    assert_eq!(r.1, Ok(12), "get_global right after the reload of `a`");
}

/// FAILS: as above, but the new `a` makes `c` ill-typed. `get_global("c.z")` still hands out 3.
#[test]
fn get_global_after_dependency_got_a_type_error() {
    let r = with_timeout(60, || {
        let vm = new_vm();
        load(&vm, "a", "{ x = 1 }").unwrap();
        load(&vm, "b", "let a = import! a\n{ y = a.x #Int+ 1 }").unwrap();
        load(&vm, "c", "let b = import! b\n{ z = b.y #Int+ 1 }").unwrap();
        load(&vm, "a", "{ x = \"not an int\" }").unwrap();
        let g1 = vm.get_global::<i64>("c.z").map_err(|e| e.to_string());
        let v2 = eval_int(&vm, "(import! c).z");
        (g1, v2)
    })
    .unwrap();
    println!("{:?}", r);
    assert!(r.1.is_err(), "control: evaluation reports the type error");
    assert!(r.0.is_err(), "get_global returned {:?}", r.0);
}
