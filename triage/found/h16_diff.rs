// Differential harness for C16: typechecks a corpus of mutated programs and
//  (1) compares a fresh VM against one long-lived VM inside this process
//  (2) dumps all outcomes to a file so two separate processes can be diffed
use std::{fmt::Write as _, fs, path::Path};

use gluon::{
    ThreadExt,
    vm::thread::{RootedThread, Thread},
};

mod support;

// Finding 1 (see h16_implicit_name.rs) would otherwise mask everything else
fn norm(s: String) -> String {
    let mut out = String::new();
    let mut rest = &s[..];
    while let Some(i) = rest.find("implicit?") {
        out.push_str(&rest[..i + 9]);
        rest = &rest[i + 9..];
        let n = rest.bytes().take_while(|b| b.is_ascii_digit()).count();
        out.push('N');
        rest = &rest[n..];
    }
    out.push_str(rest);
    out
}

fn typecheck_outcome(vm: &Thread, name: &str, src: &str) -> String {
    match std::panic::catch_unwind(std::panic::AssertUnwindSafe(|| {
        norm(typecheck_outcome_(vm, name, src))
    })) {
        Ok(s) => s,
        Err(e) => format!(
            "PANIC {}",
            e.downcast_ref::<String>()
                .cloned()
                .or_else(|| e.downcast_ref::<&str>().map(|s| s.to_string()))
                .unwrap_or_default()
        ),
    }
}

fn typecheck_outcome_(vm: &Thread, name: &str, src: &str) -> String {
    match vm.typecheck_str(name, src, None) {
        Ok((_, t)) => format!("OK type={}", t),
        Err(e) => format!(
            "ERR {}",
            e.emit_string()
                .unwrap_or_else(|e| format!("<emit failed {}>", e))
        ),
    }
}

fn fresh() -> RootedThread {
    let vm = support::make_vm();
    vm.get_database_mut().implicit_prelude(true).run_io(false);
    vm
}

struct Lcg(u64);
impl Lcg {
    fn next(&mut self) -> u64 {
        self.0 = self
            .0
            .wrapping_mul(6364136223846793005)
            .wrapping_add(1442695040888963407);
        self.0 >> 33
    }
}

fn ident_positions(src: &str) -> Vec<(usize, usize)> {
    let b = src.as_bytes();
    let mut out = Vec::new();
    let mut i = 0;
    while i < b.len() {
        if b[i].is_ascii_alphabetic() || b[i] == b'_' {
            let s = i;
            while i < b.len() && (b[i].is_ascii_alphanumeric() || b[i] == b'_') {
                i += 1;
            }
            out.push((s, i));
        } else if b[i] == b'"' {
            i += 1;
            while i < b.len() && b[i] != b'"' {
                if b[i] == b'\\' {
                    i += 1;
                }
                i += 1;
            }
            i += 1;
        } else if b[i] == b'/' && i + 1 < b.len() && b[i + 1] == b'/' {
            while i < b.len() && b[i] != b'\n' {
                i += 1;
            }
        } else {
            i += 1;
        }
    }
    out
}

fn corpus() -> Vec<(String, String)> {
    let mut files = Vec::new();
    for dir in ["tests/pass", "std"] {
        let mut entries: Vec<_> = fs::read_dir(dir)
            .unwrap()
            .map(|e| e.unwrap().path())
            .filter(|p| p.extension().map_or(false, |e| e == "glu"))
            .collect();
        entries.sort();
        files.extend(entries);
    }
    let replacements = ["1", "\"\"", "undefined_x", "()", "Some", "show", "map", "x"];
    let mut out = Vec::new();
    let mut rng = Lcg(0x16);
    let limit: usize = std::env::var("H16_FILES")
        .ok()
        .and_then(|s| s.parse().ok())
        .unwrap_or(1000);
    let per_file: usize = std::env::var("H16_MUTANTS")
        .ok()
        .and_then(|s| s.parse().ok())
        .unwrap_or(3);
    for path in files.iter().take(limit) {
        let src = fs::read_to_string(path).unwrap();
        if src.len() > 6000 {
            continue;
        }
        let stem = Path::new(path).file_stem().unwrap().to_str().unwrap();
        let idents = ident_positions(&src);
        if idents.is_empty() {
            continue;
        }
        for k in 0..per_file {
            let (s, e) = idents[(rng.next() as usize) % idents.len()];
            let r = replacements[(rng.next() as usize) % replacements.len()];
            let mut m = String::new();
            m.push_str(&src[..s]);
            m.push_str(r);
            m.push_str(&src[e..]);
            out.push((format!("h16mut_{}_{}", stem, k), m));
        }
    }
    out
}

#[test]
fn diff_fresh_vs_warm_and_dump() {
    let corpus = corpus();
    let mut warm = fresh();
    let mut dump = String::new();
    let mut mismatches = Vec::new();
    for (name, src) in &corpus {
        let a = typecheck_outcome(&fresh(), name, src);
        let b = typecheck_outcome(&warm, name, src);
        if a.starts_with("PANIC") || b.starts_with("PANIC") {
            warm = fresh();
        }
        writeln!(dump, "#### {}\n{}", name, a).unwrap();
        if a != b {
            mismatches.push(name.clone());
            writeln!(dump, "#### {} (WARM DIFFERS)\n{}", name, b).unwrap();
        }
    }
    let out = format!("target/h16_out_{}.txt", std::process::id());
    fs::write(&out, &dump).unwrap();
    println!("wrote {} ({} programs)", out, corpus.len());
    assert!(mismatches.is_empty(), "fresh/warm mismatches: {:?}", mismatches);
}
