//! C01: `match` with several record-pattern alternatives (vm/src/core/mod.rs,
//! PatternTranslator::compile_record / pattern_identifiers_).
use gluon::{RootedThread, ThreadExt};

fn make_vm() -> RootedThread {
    let vm = gluon::VmBuilder::new().build();
    vm.get_database_mut().implicit_prelude(false).run_io(true);
    vm
}

fn run_int(text: &str) -> i32 {
    let vm = make_vm();
    vm.run_expr::<i32>("top", text)
        .unwrap_or_else(|err| panic!("{}", err))
        .0
}

// Host panic (`expect("Pattern")`, core/mod.rs:2071): the shorthand field `c` is renamed to a
// different symbol in each alternative so the merged core pattern gets 3 fields [a, c', c'']
// while each equation only contributes 2 sub patterns.
#[test]
fn shorthand_field_in_two_alternatives() {
    let text = r#"
match { a = 2, c = 7 } with
| { a = 1, c } -> c
| { a = 2, c } -> c
| _ -> 0
"#;
    assert_eq!(run_int(text), 7);
}

// Wrong value: second alternative lists the same fields in another order, its sub patterns
// are matched positionally against the variables of the first alternative (x==2, y==1).
#[test]
fn reordered_fields_literal() {
    let text = r#"
match { x = 1, y = 2 } with
| { x = 1, y = 3 } -> 10
| { y = 2, x = 1 } -> 20
| _ -> 30
"#;
    assert_eq!(run_int(text), 20);
}

// Wrong value: variables get bound to the wrong field
#[test]
fn reordered_fields_binds_wrong_field() {
    let text = r#"
match { x = 1, y = 2 } with
| { x = 5, y = 7 } -> 0
| { y = a, x = b } -> a
"#;
    assert_eq!(run_int(text), 2);
}

// Type confusion: `a : Int` is bound to the String stored in `x`
#[test]
fn reordered_fields_type_confusion() {
    let text = r#"
match { x = "abc", y = 2 } with
| { x = "q", y = 7 } -> 0
| { y = a, x = b } -> a #Int+ 1
"#;
    assert_eq!(run_int(text), 3);
}

// Host panic: alternatives mention different fields
#[test]
fn different_field_sets() {
    let text = r#"
match { x = 1, y = 2 } with
| { x = 5 } -> 10
| { y = 2 } -> 20
| _ -> 30
"#;
    assert_eq!(run_int(text), 20);
}
