//! H07: behaviour at and around the memory limit.

use std::{
    panic::{AssertUnwindSafe, catch_unwind},
    sync::mpsc,
    time::Duration,
};

use gluon::{
    Error, Thread, ThreadExt, new_vm,
    vm::{
        Error as VMError,
        api::{Hole, IO, OpaqueValue},
    },
};

fn with_timeout<T: Send + 'static>(secs: u64, f: impl FnOnce() -> T + Send + 'static) -> T {
    let (tx, rx) = mpsc::channel();
    std::thread::Builder::new()
        .stack_size(64 * 1024 * 1024)
        .spawn(move || {
            let _ = tx.send(f());
        })
        .unwrap();
    rx.recv_timeout(Duration::from_secs(secs))
        .expect("timeout (or the worker thread panicked)")
}

const CHILD_ENV: &str = "H07_OOM_CHILD";

/// Runs `payload` directly in the child process, or spawns the child and checks how it ended.
fn in_child(test_name: &str, payload: fn()) {
    use std::process::{Command, Stdio};
    if std::env::var(CHILD_ENV).ok().as_deref() == Some(test_name) {
        payload();
        return;
    }
    let exe = std::env::current_exe().unwrap();
    let mut child = Command::new(exe)
        .args(&["--exact", test_name, "--nocapture", "--test-threads", "1"])
        .env(CHILD_ENV, test_name)
        .env("RUST_BACKTRACE", "0")
        .stdout(Stdio::piped())
        .stderr(Stdio::piped())
        .spawn()
        .unwrap();
    let start = std::time::Instant::now();
    loop {
        if let Some(_) = child.try_wait().unwrap() {
            break;
        }
        if start.elapsed() > Duration::from_secs(300) {
            child.kill().unwrap();
            panic!("child timed out");
        }
        std::thread::sleep(Duration::from_millis(50));
    }
    let out = child.wait_with_output().unwrap();
    let stderr = String::from_utf8_lossy(&out.stderr);
    let tail = |s: &str| {
        let lines: Vec<_> = s
            .lines()
            .filter(|l| {
                let l = l.trim_start();
                !(l.starts_with("at ") || l.chars().next().map_or(false, |c| c.is_ascii_digit()))
            })
            .collect();
        lines[lines.len().saturating_sub(15)..].join("\n")
    };
    assert!(
        out.status.success(),
        "child process for `{}` died: {:?}\n--- stderr\n{}",
        test_name,
        out.status,
        tail(&stderr)
    );
}

// ---------------------------------------------------------------------------------------------
// 1. Creating a thread when the memory limit does not allow it
// ---------------------------------------------------------------------------------------------

#[test]
fn control_new_thread_within_memory_limit() {
    with_timeout(120, || {
        let vm = new_vm();
        vm.set_memory_limit(vm.allocated_memory() + 1_000_000);
        let child = vm.new_thread();
        assert!(child.is_ok());
        // The parent is still usable
        let _ = vm.allocated_memory();
    })
}

#[test]
fn new_thread_at_memory_limit_reports_out_of_memory() {
    with_timeout(120, || {
        let vm = new_vm();
        // Too little room for a `Thread` object
        vm.set_memory_limit(vm.allocated_memory() + 64);
        let result = catch_unwind(AssertUnwindSafe(|| vm.new_thread()));
        match result {
            Ok(Err(VMError::OutOfMemory { .. })) => (),
            Ok(Err(err)) => panic!("Unexpected error {}", err),
            Ok(Ok(_)) => panic!("The thread should not fit in the memory limit"),
            Err(panic) => {
                let msg = panic
                    .downcast_ref::<String>()
                    .map(|s| s.as_str())
                    .or_else(|| panic.downcast_ref::<&str>().map(|s| *s))
                    .unwrap_or("<non string panic>")
                    .to_string();
                // Leak the vm, dropping it would panic again
                std::mem::forget(vm);
                panic!(
                    "`Thread::new_thread` panicked with `{}` instead of returning OutOfMemory",
                    msg
                );
            }
        }
    })
}

#[test]
fn vm_is_usable_after_new_thread_hit_the_memory_limit() {
    with_timeout(120, || {
        let vm = new_vm();
        vm.get_database_mut().implicit_prelude(false);
        vm.set_memory_limit(vm.allocated_memory() + 64);
        let _ = catch_unwind(AssertUnwindSafe(|| vm.new_thread().map(|_| ())));

        // Give the vm plenty of memory again: it should just work
        let result = catch_unwind(AssertUnwindSafe(|| {
            vm.set_memory_limit(usize::MAX);
            vm.run_expr::<i64>("after", "1 #Int+ 2").map(|t| t.0)
        }));
        match result {
            Ok(Ok(3)) => (),
            Ok(other) => panic!("Unexpected result {:?}", other),
            Err(_) => {
                std::mem::forget(vm);
                panic!(
                    "the vm panics on every use after `new_thread` failed at the memory limit \
                     (its context mutex is poisoned)"
                )
            }
        }
    })
}

/// Runs in a child process since the observed failure is an abort of the whole process
#[test]
fn gluon_new_thread_at_memory_limit_reports_out_of_memory() {
    in_child(
        "gluon_new_thread_at_memory_limit_reports_out_of_memory",
        gluon_new_thread_at_memory_limit,
    )
}

fn gluon_new_thread_at_memory_limit() {
    with_timeout(300, || {
        let vm = new_vm();
        vm.get_database_mut().run_io(true);
        vm.run_expr::<OpaqueValue<&Thread, Hole>>(
            "load",
            r#"
let _ = import! std.thread
let _ = import! std.io
()
"#,
        )
        .unwrap_or_else(|err| panic!("{}", err));

        let expr = r#"
let { new_thread } = import! std.thread
let io @ { ? } = import! std.io
let { wrap } = import! std.applicative
do _ = new_thread ()
wrap 1
"#;
        // Compile first (with enough memory), then run at the limit
        vm.set_memory_limit(vm.allocated_memory() + 1_000_000);
        let ok = vm.run_expr::<IO<i64>>("new_thread_ok", expr).map(|t| t.0);
        assert!(matches!(ok, Ok(IO::Value(1))), "control failed: {:?}", ok);

        // Find a limit at which the program itself still runs but the `Thread` does not fit.
        // `Thread` is several hundred bytes, the rest of the program allocates next to nothing
        let mut outcome = None;
        for extra in &[400usize, 300, 200, 100] {
            vm.collect();
            vm.set_memory_limit(vm.allocated_memory() + extra);
            let result = catch_unwind(AssertUnwindSafe(|| {
                vm.run_expr::<IO<i64>>("new_thread_limited", expr).map(|t| t.0)
            }));
            match result {
                Ok(Ok(IO::Value(_))) => continue,
                other => {
                    outcome = Some(other);
                    break;
                }
            }
        }
        match outcome.expect("never reached the memory limit") {
            Ok(Ok(IO::Exception(msg))) => {
                assert!(msg.contains("out of memory"), "Unexpected exception {}", msg)
            }
            Ok(Err(Error::VM(VMError::OutOfMemory { .. }))) => (),
            Ok(Err(err)) => assert!(
                err.to_string().contains("out of memory"),
                "Expected an out of memory error, got: {}",
                err
            ),
            Ok(Ok(IO::Value(_))) => unreachable!(),
            Err(_) => {
                std::mem::forget(vm);
                panic!("the host call panicked")
            }
        }
        // And the vm must still be usable
        let result = catch_unwind(AssertUnwindSafe(|| {
            vm.set_memory_limit(usize::MAX);
            vm.run_expr::<i64>("after", "1 #Int+ 2").map(|t| t.0)
        }));
        match result {
            Ok(Ok(3)) => (),
            Ok(other) => panic!("Unexpected result {:?}", other),
            Err(_) => {
                std::mem::forget(vm);
                panic!("the vm panics on every use after `std.thread.new_thread` hit the memory limit")
            }
        }
    })
}

// ---------------------------------------------------------------------------------------------
// 2. The memory accounted to a thread must never exceed the limit
// ---------------------------------------------------------------------------------------------

/// Sweep of limits just above what the thread already uses: after every run (successful or not)
/// the accounted memory must be within the limit that was configured.
#[test]
fn accounted_memory_never_exceeds_the_limit() {
    with_timeout(300, || {
        let vm = new_vm();
        vm.get_database_mut().implicit_prelude(false);
        let expr = "[1, 2, 3, 4, 5, 6, 7, 8, 9, 10, 11, 12, 13, 14, 15, 16]";
        // Warm up so that everything which is allocated once is allocated
        vm.run_expr::<OpaqueValue<&Thread, Hole>>("warm", expr)
            .unwrap_or_else(|err| panic!("{}", err));

        let mut violations = Vec::new();
        let mut successes = 0;
        let mut failures = 0;
        for extra in 1..400usize {
            vm.collect();
            let base = vm.allocated_memory();
            let limit = base + extra;
            vm.set_memory_limit(limit);
            let result = vm.run_expr::<OpaqueValue<&Thread, Hole>>("sweep", expr);
            let allocated = vm.allocated_memory();
            match &result {
                Ok(_) => successes += 1,
                Err(Error::VM(VMError::OutOfMemory { .. })) => failures += 1,
                Err(err) => panic!("Unexpected error: {}", err),
            }
            if allocated > limit {
                violations.push((extra, limit, allocated, result.is_ok()));
            }
            drop(result);
            vm.set_memory_limit(usize::MAX);
        }
        eprintln!("{} runs completed, {} ran out of memory", successes, failures);
        assert!(successes > 0 && failures > 0, "the sweep did not cross the limit");
        assert!(
            violations.is_empty(),
            "accounted memory exceeded the limit in {} runs, e.g. (extra, limit, allocated, completed) = {:?}",
            violations.len(),
            &violations[..violations.len().min(5)]
        );
    })
}

// ---------------------------------------------------------------------------------------------
// 3. Running out of memory inside a primitive must still be reported as out of memory
// ---------------------------------------------------------------------------------------------

fn doubling_program(append: &str) -> String {
    format!(
        r#"
let string = import! std.string
let array = import! std.array
rec let grow n a =
    if n #Int== 0 then a
    else grow (n #Int- 1) ({} a a)
grow 40
"#,
        append
    )
}

fn run_doubling<T>(append: &str, seed: &str) -> Result<(), Error>
where
    T: for<'vm, 'value> gluon::vm::api::Getable<'vm, 'value> + gluon::vm::api::VmType + Send + 'static,
{
    let vm = new_vm();
    vm.run_expr::<OpaqueValue<&Thread, Hole>>(
        "load",
        "let _ = import! std.string\nlet _ = import! std.array\n()",
    )
    .unwrap_or_else(|err| panic!("{}", err));
    vm.set_memory_limit(vm.allocated_memory() + 1_000_000);
    let expr = format!("{} {}", doubling_program(append).trim_end(), seed);
    vm.run_expr::<OpaqueValue<gluon::RootedThread, Hole>>("doubling", &expr)
        .map(|_| ())
}

/// The array literal is allocated by the `ConstructArray` instruction, the doubling is written
/// in gluon with a constructor: out of memory is reported as such
#[test]
fn control_out_of_memory_in_bytecode_is_out_of_memory() {
    with_timeout(300, || {
        let vm = new_vm();
        vm.get_database_mut().implicit_prelude(false);
        vm.set_memory_limit(vm.allocated_memory() + 1_000_000);
        let expr = r#"
type T = | Leaf | Node T T
rec let grow n a : Int -> T -> T =
    if n #Int== 0 then a
    else grow (n #Int- 1) (Node (Node a a) (Node (Node a a) a))
rec let forever n a : Int -> T -> T = forever (n #Int+ 1) (Node a (grow 10 a))
forever 0 Leaf
"#;
        match vm.run_expr::<OpaqueValue<gluon::RootedThread, Hole>>("bytecode", expr) {
            Err(Error::VM(VMError::OutOfMemory { .. })) => (),
            Err(err) => panic!("Unexpected error {:?}", err),
            Ok(_) => panic!("Expected an error"),
        }
    })
}

#[test]
fn out_of_memory_in_string_append_is_out_of_memory() {
    with_timeout(300, || {
        match run_doubling::<String>("string.append", "\"0123456789abcdef\"") {
            Err(Error::VM(VMError::OutOfMemory { .. })) => (),
            Err(err) => panic!("Expected Error::VM(OutOfMemory), got {:?}", err),
            Ok(_) => panic!("Expected an error"),
        }
    })
}

#[test]
fn out_of_memory_in_array_append_is_out_of_memory() {
    with_timeout(300, || {
        match run_doubling::<String>("array.append", "[1, 2, 3, 4]") {
            Err(Error::VM(VMError::OutOfMemory { .. })) => (),
            Err(err) => panic!("Expected Error::VM(OutOfMemory), got {:?}", err),
            Ok(_) => panic!("Expected an error"),
        }
    })
}
