//! C01: record update `{ x = .., .. base }` builds a record with more fields than its static type
//! (vm/src/core/mod.rs translate_ Expr::Record + check/src/typecheck.rs Expr::Record), a later
//! `Split` then pushes more stack slots than the compiler accounted for.
use gluon::{RootedThread, ThreadExt};

fn make_vm() -> RootedThread {
    let vm = gluon::VmBuilder::new().build();
    vm.get_database_mut().implicit_prelude(false).run_io(true);
    vm
}

fn run_int(text: &str) -> i32 {
    let vm = make_vm();
    vm.run_expr::<i32>("top", text)
        .unwrap_or_else(|err| panic!("{}", err))
        .0
}

// The fields of `r` are discovered after the record update has been typechecked
#[test]
fn base_fields_inferred_later() {
    let text = r#"
let f r =
    let z = { x = 1, .. r }
    let _ = r.y
    z
10 #Int- (f { y = 5 }).x
"#;
    assert_eq!(run_int(text), 9);
}

// The expected type lists exactly the explicitly written fields so the subsumption check against
// it is skipped even though `.. r` adds the field `y`
#[test]
fn base_with_expected_type() {
    let text = r#"
let f r : { y : Int } -> { x : Int } = { x = 1, .. r }
10 #Int- (f { y = 5 }).x
"#;
    assert_eq!(run_int(text), 9);
}
