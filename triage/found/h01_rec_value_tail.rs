//! C01: recursive value bindings whose tail expression is accepted by
//! check/src/recursion_check.rs (`check_tail`: lambda, if/match with constructors in each branch)
//! but which vm/src/compiler.rs (Named::Recursive with zero args) can only compile when the very
//! last instruction is a single ConstructRecord/ConstructVariant.
use gluon::{RootedThread, ThreadExt};

fn make_vm() -> RootedThread {
    let vm = gluon::VmBuilder::new().build();
    vm.get_database_mut().implicit_prelude(false).run_io(true);
    vm
}

fn run_int(text: &str) -> i32 {
    let vm = make_vm();
    vm.run_expr::<i32>("top", text)
        .unwrap_or_else(|err| panic!("{}", err))
        .0
}

// ice!("Expected record as last expression of recursive binding") compiler.rs:743
#[test]
fn rec_lambda() {
    let text = r#"
rec let f = \x -> if x #Int== 0 then 0 else f (x #Int- 1)
f 3
"#;
    assert_eq!(run_int(text), 0);
}

// Not even self referential
#[test]
fn rec_lambda_non_recursive() {
    let text = r#"
rec let f = \x -> x
f 1
"#;
    assert_eq!(run_int(text), 1);
}

// Only the ConstructRecord of the last branch is rewritten to CloseData: "Cannot call 0"
#[test]
fn rec_record_if_first_branch() {
    let text = r#"
type T = { a : Int, f : () -> Int }
let c = 1 #Int< 2
rec let x : T = if c then { a = 1, f = \_ -> x.a } else { a = 2, f = \_ -> x.a }
10 #Int+ x.f ()
"#;
    assert_eq!(run_int(text), 11);
}

// Same program, but reading a plain field of the (still uninitialized) record
#[test]
fn rec_record_if_first_branch_field() {
    let text = r#"
type T = { a : Int, f : () -> Int }
let c = 1 #Int< 2
rec let x : T = if c then { a = 1, f = \_ -> x.a } else { a = 2, f = \_ -> x.a }
x.a #Int+ 10
"#;
    assert_eq!(run_int(text), 11);
}

// Control: the last branch works
#[test]
fn rec_record_if_last_branch() {
    let text = r#"
type T = { a : Int, f : () -> Int }
let c = 2 #Int< 1
rec let x : T = if c then { a = 1, f = \_ -> x.a } else { a = 2, f = \_ -> x.a }
10 #Int+ x.f ()
"#;
    assert_eq!(run_int(text), 12);
}
