// Shared helpers for the h15_* audit tests (property C15: modules evaluated once, cycles
// rejected, reloads never stale).
#![allow(dead_code)]

use std::sync::mpsc;
use std::time::Duration;

use gluon::{RootedThread, Thread, ThreadExt};

/// A VM without the implicit prelude (keeps the tests fast, nothing here depends on it).
pub fn new_vm() -> RootedThread {
    let vm = gluon::VmBuilder::new().build();
    vm.get_database_mut().set_implicit_prelude(false);
    vm
}

/// Runs `f` on another OS thread and gives up after `secs` seconds.
pub fn with_timeout<T: Send + 'static>(
    secs: u64,
    f: impl FnOnce() -> T + Send + 'static,
) -> Result<T, &'static str> {
    let (tx, rx) = mpsc::channel();
    std::thread::Builder::new()
        .stack_size(32 * 1024 * 1024)
        .spawn(move || {
            let _ = tx.send(f());
        })
        .unwrap();
    rx.recv_timeout(Duration::from_secs(secs))
        .map_err(|_| "timeout or panic")
}

pub fn eval_int(vm: &Thread, src: &str) -> Result<i64, String> {
    vm.run_expr::<i64>("top", src)
        .map(|x| x.0)
        .map_err(|e| e.to_string())
}

pub fn load(vm: &Thread, name: &str, src: &str) -> Result<(), String> {
    vm.load_script(name, src).map_err(|e| e.to_string())
}

/// Defines a counter, a primitive `tick` bumping it and an extern module exporting `tick`.
#[macro_export]
macro_rules! counter {
    ($ticks:ident, $tick:ident, $module:ident) => {
        static $ticks: std::sync::atomic::AtomicUsize = std::sync::atomic::AtomicUsize::new(0);
        fn $tick(_: ()) -> i64 {
            $ticks.fetch_add(1, std::sync::atomic::Ordering::SeqCst) as i64
        }
        fn $module(thread: &gluon::Thread) -> gluon::vm::Result<gluon::vm::ExternModule> {
            gluon::vm::ExternModule::new(
                thread,
                gluon::record! { tick => gluon::primitive!(1, $tick) },
            )
        }
    };
}

/// A module which bumps the counter once when its body is evaluated
pub const A_TICK: &str = r#"let c = import! counter
let _ = c.tick ()
{ x = 1 }"#;
