// C15 finding 1: "a module's body is evaluated at most once as long as no module source is
// changed" does not hold. Every new salsa revision (caused by anything: registering an unrelated
// extern module, setting a compiler setting to the value it already has, reloading an unrelated
// module) makes the next import evaluate the body of every imported module again.
#[macro_use]
mod h15_common;
use h15_common::*;

use std::sync::atomic::Ordering;

use gluon::{ThreadExt, import::add_extern_module};

counter!(T0, tick0, counter0);
/// Control: several importers, several evaluations, a reload with the identical source. One
/// evaluation of the body.
#[test]
fn control_evaluated_once_without_any_change() {
    let r = with_timeout(120, || {
        let vm = new_vm();
        add_extern_module(&vm, "counter", counter0);
        load(&vm, "a", A_TICK).unwrap();
        let t0 = T0.load(Ordering::SeqCst);
        let v = eval_int(&vm, "(import! a).x");
        load(&vm, "b", "let a = import! a\n{ y = a.x }").unwrap();
        load(&vm, "c", "let a = import! a\nlet b = import! b\n{ y = a.x }").unwrap();
        let v2 = eval_int(&vm, "(import! c).y");
        load(&vm, "a", A_TICK).unwrap();
        let t1 = T0.load(Ordering::SeqCst);
        (t0, v, v2, t1)
    })
    .unwrap();
    assert_eq!(r, (1, Ok(1), Ok(1), 1));
}

counter!(T1, tick1, counter1);
/// FAILS: registering an extern module nobody imports makes `a` run again (counter is 2).
#[test]
fn evaluated_again_after_unrelated_extern_module_is_registered() {
    let r = with_timeout(120, || {
        let vm = new_vm();
        add_extern_module(&vm, "counter", counter1);
        load(&vm, "a", A_TICK).unwrap();
        let t0 = T1.load(Ordering::SeqCst);
        add_extern_module(&vm, "unrelated", counter1);
        let v = eval_int(&vm, "(import! a).x");
        let t1 = T1.load(Ordering::SeqCst);
        (t0, v, t1)
    })
    .unwrap();
    assert_eq!(r.0, 1);
    assert_eq!(r.1, Ok(1));
    assert_eq!(r.2, 1, "the body of `a` was evaluated {} times", r.2);
}

counter!(T2, tick2, counter2);
/// FAILS: `run_io(false)` and `set_implicit_prelude(false)` set the settings to the values they
/// already have, yet each makes `a` run again (counter is 2, then 3).
#[test]
fn evaluated_again_after_noop_settings_change() {
    let r = with_timeout(120, || {
        let vm = new_vm();
        add_extern_module(&vm, "counter", counter2);
        load(&vm, "a", A_TICK).unwrap();
        let t0 = T2.load(Ordering::SeqCst);
        vm.run_io(false);
        let v1 = eval_int(&vm, "(import! a).x");
        let t1 = T2.load(Ordering::SeqCst);
        vm.get_database_mut().set_implicit_prelude(false);
        let v2 = eval_int(&vm, "(import! a).x");
        let t2 = T2.load(Ordering::SeqCst);
        (t0, v1, t1, v2, t2)
    })
    .unwrap();
    println!("{:?}", r);
    assert_eq!(r.0, 1);
    assert_eq!(r.2, 1, "after run_io(false)");
    assert_eq!(r.4, 1, "after set_implicit_prelude(false)");
}

counter!(T3, tick3, counter3);
/// FAILS: the source of `a` (and of everything `a` imports) is unchanged, an unrelated module `z`
/// is reloaded with a new source. `a` runs again.
#[test]
fn evaluated_again_after_unrelated_module_is_reloaded() {
    let r = with_timeout(120, || {
        let vm = new_vm();
        add_extern_module(&vm, "counter", counter3);
        load(&vm, "a", A_TICK).unwrap();
        load(&vm, "z", "{ z = 1 }").unwrap();
        let t0 = T3.load(Ordering::SeqCst);
        load(&vm, "z", "{ z = 2 }").unwrap();
        let v = eval_int(&vm, "(import! a).x");
        let t1 = T3.load(Ordering::SeqCst);
        (t0, v, t1)
    })
    .unwrap();
    assert_eq!(r.0, 1);
    assert_eq!(r.1, Ok(1));
    assert_eq!(r.2, 1, "the body of `a` was evaluated {} times", r.2);
}
