//! C02: the refinement `a ~ Int` learned from a GADT constructor pattern leaks into the following
//! alternatives of the same `match` when that `match` is nested inside an alternative of another
//! `match` whose scrutinee type also mentions `a`.
use gluon::{
    ThreadExt,
    vm::api::{Hole, OpaqueValue, ValueRef},
    vm::thread::RootedThread,
};

const SRC: &str = r#"
type T a = | I : Int -> T Int | S : String -> T String
type U a = | U1 : U a
let f u t x : forall a . U a -> T a -> a -> Int =
    match u with
    | U1 ->
        match t with
        | I _ -> 0
        | _ -> x
f U1 (S "") "hello"
"#;

// The same inner `match` on its own is (correctly) rejected: `x : a` is not an `Int` in `| _ ->`
const SRC_NOT_NESTED: &str = r#"
type T a = | I : Int -> T Int | S : String -> T String
let f t x : forall a . T a -> a -> Int =
    match t with
    | I _ -> 0
    | _ -> x
f (S "") "hello"
"#;

#[test]
fn not_nested_is_rejected() {
    let vm = gluon::VmBuilder::new().build();
    vm.get_database_mut().implicit_prelude(false);
    assert!(
        vm.run_expr::<OpaqueValue<RootedThread, Hole>>("test", SRC_NOT_NESTED)
            .is_err()
    );
}

#[test]
fn nested_gadt_match_refinement_leak() {
    for &(prelude, optimize) in &[(false, false), (false, true), (true, true)] {
        let vm = gluon::VmBuilder::new().build();
        vm.get_database_mut()
            .implicit_prelude(prelude)
            .optimize(optimize)
            .run_io(false);
        match vm.run_expr::<OpaqueValue<RootedThread, Hole>>("test", SRC) {
            // Rejecting the program is the expected behaviour
            Err(err) => println!("rejected: {}", err),
            Ok((value, typ)) => {
                println!(
                    "prelude={} optimize={}: value = {:?} : {}",
                    prelude, optimize, value, typ
                );
                match value.get_ref() {
                    ValueRef::Int(_) => (),
                    other => panic!(
                        "accepted program of type `{}` evaluated to {:?}",
                        typ, other
                    ),
                }
            }
        }
    }
}

#[test]
fn nested_gadt_match_refinement_leak_typed_result() {
    // Asking for the reported type (`Int`) makes the host panic inside the marshalling layer
    let vm = gluon::VmBuilder::new().build();
    vm.get_database_mut().implicit_prelude(false);
    let result = vm.run_expr::<i32>("test", SRC);
    println!("{:?}", result.as_ref().map(|t| t.0).map_err(|e| e.to_string()));
}
