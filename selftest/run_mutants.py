#!/usr/bin/env python3
"""Mutation canaries (self-test of the checkers, NOT a property check).
Each mutant is a one-site textual edit of /repo that still compiles; the named check must exit 1 and its report must
mention `expect`. The edit is applied to /repo's working tree and reverted with `git checkout` straight afterwards.
usage: run_mutants.py [id-substring ...]"""
import json, os, subprocess, sys, time
HERE = os.path.dirname(os.path.abspath(__file__))
VERIF = os.path.dirname(HERE)
REPO = os.environ.get("SA_REPO", "/repo")
muts = json.load(open(os.path.join(HERE, "mutants.json")))
sel = sys.argv[1:]
results = []
for m in muts:
    if sel and not any(s in m["id"] for s in sel):
        continue
    path = os.path.join(REPO, m["file"])
    src = open(path).read()
    if src.count(m["old"]) < 1:
        print("SKIP %s: pattern not found" % m["id"]); results.append((m["id"], "skip")); continue
    new = src.replace(m["old"], m["new"], 1)
    t0 = time.time()
    try:
        open(path, "w").write(new)
        r = subprocess.run([os.path.join(VERIF, "check"), m["property"]], stdout=subprocess.PIPE, stderr=subprocess.STDOUT, text=True)
    finally:
        subprocess.run(["git", "-C", REPO, "checkout", "--", m["file"]], check=True)
    out = r.stdout
    compiled = "cargo check of /repo failed" not in out
    hit = r.returncode == 1 and m["expect"] in out
    status = "DETECTED" if hit else ("NOCOMPILE" if not compiled else "MISSED")
    print("%-10s %-40s %s (%.0fs)" % (status, m["id"], m["property"], time.time() - t0))
    if status != "DETECTED":
        print(out[-1500:])
    results.append((m["id"], status))
json.dump(results, open(os.path.join(HERE, "last_results.json"), "w"), indent=1)
bad = [r for r in results if r[1] not in ("DETECTED",)]
sys.exit(1 if bad else 0)
