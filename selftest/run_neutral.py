#!/usr/bin/env python3
"""Negative canaries (self-test, NOT a property check): behaviour-preserving edits of /repo (renamed locals, extra log lines,
statements split in two, a match instead of a combinator chain, a correct flattening of the infix decision) on which every
check must stay quiet. usage: run_neutral.py [id-substring ...]"""
import json, os, subprocess, sys, time
HERE = os.path.dirname(os.path.abspath(__file__)); VERIF = os.path.dirname(HERE); REPO = os.environ.get("SA_REPO", "/repo")
IDS = ["C01", "C02", "C04", "C05", "C06", "C07", "C08", "C11", "C12", "C13", "C14", "C15", "C16", "C17"]
muts = json.load(open(os.path.join(HERE, "neutral.json")))
sel = sys.argv[1:]
bad = []
for m in muts:
    if sel and not any(s in m["id"] for s in sel):
        continue
    path = os.path.join(REPO, m["file"])
    t0 = time.time()
    try:
        if "patch" in m:
            subprocess.run(["git", "-C", REPO, "apply", os.path.join(VERIF, m["patch"])], check=True)
            src = open(path).read()
            assert m["post_old"] in src
            open(path, "w").write(src.replace(m["post_old"], m["post_new"], 1))
        else:
            src = open(path).read()
            if src.count(m["old"]) < 1:
                print("SKIP %s: pattern not found" % m["id"]); bad.append((m["id"], "skip")); continue
            src = src.replace(m["old"], m["new"], 1)
            for extra in m.get("also", []):
                assert extra["old"] in src, "also-pattern not found"
                src = src.replace(extra["old"], extra["new"], 1)
            open(path, "w").write(src)
        alarms = []
        for pid in IDS:
            r = subprocess.run([os.path.join(VERIF, "check"), pid], stdout=subprocess.PIPE, stderr=subprocess.STDOUT, text=True)
            if "cargo check of /repo failed" in r.stdout:
                alarms = [("NOCOMPILE", r.stdout[-800:])]; break
            if r.returncode != 0:
                alarms.append((pid, "\n".join(l for l in r.stdout.splitlines() if "violation" in l or l.startswith("    "))[:900]))
    finally:
        subprocess.run(["git", "-C", REPO, "checkout", "--", "."], check=True)
    print("%-8s %-44s (%.0fs)" % ("QUIET" if not alarms else "ALARM", m["id"], time.time() - t0))
    for a in alarms:
        print("   ", a[0]); print(a[1])
    if alarms:
        bad.append((m["id"], [a[0] for a in alarms]))
json.dump(bad, open(os.path.join(HERE, "last_neutral.json"), "w"), indent=1)
sys.exit(1 if bad else 0)
