#!/usr/bin/env python3
"""Compare a `cargo test --workspace --no-fail-fast` log with BASELINE.json's stable_pass list (by test-name suffix)."""
import json, re, sys
log = open(sys.argv[1], errors="replace").read()
log = re.sub(r"\x1b\[[0-9;]*m", "", log)
base = json.load(open("/root/.vp/BASELINE.json"))
stable = base["stable_pass"]
failed = set(re.findall(r"^test (\S.*?) \.\.\. FAILED", log, re.M))
failed |= set(m.strip() for m in re.findall(r"^\s*(\S.*?) \.\.\. FAILED", log, re.M))
passed = set(re.findall(r"^test (\S.*?) \.\.\. ok", log, re.M))
print("passed(libtest) %d failed %d" % (len(passed), len(failed)))
bad = []
for f in failed:
    for s in stable:
        tail = s.split("::", 1)[1] if "::" in s else s
        if tail == f or s.endswith("::" + f) or s == f:
            bad.append((f, s))
print("failed tests:", sorted(failed))
print("failed tests that are in stable_pass:", bad)
sys.exit(1 if bad else 0)
