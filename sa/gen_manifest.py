#!/usr/bin/env python3
"""Regenerates MANIFEST.json from the per-property registry below (keeps it valid at all times)."""
import json, os
VERIF = os.path.dirname(os.path.dirname(os.path.abspath(__file__)))
REG = json.load(open(os.path.join(VERIF, "sa", "registry.json")))
checks = []
for pid, e in sorted(REG["claimed"].items()):
    checks.append({
        "property_id": pid,
        "quick_cmd": "./check %s --tier quick" % pid,
        "thorough_cmd": "./check %s --tier thorough" % pid,
        "evidence_file": "/verif/evidence/%s.json" % pid,
        "replay_cmd_template": "cat {path}",
        "engine": e["engine"],
        "level_claimed": {"category": "other", "text": e["level_text"], "design_ref": e["design_ref"]},
        "level_note": e["level_note"],
        "technique": e["technique"],
    })
m = {
    "version": 1,
    "setup_cmd": "./setup.sh",
    "hooks": {
        "guard": "gluon_lang_gluon_verif",
        "enable": "none needed: the checks analyse /repo's sources as rustc sees them (cargo +nightly check through the sa-driver wrapper); nothing is instrumented",
        "baseline_off_cmd": "cd /repo && cargo test --workspace --no-fail-fast --offline",
        "source_commits": [],
        "add_only": True,
    },
    "engines": REG["engines"],
    "checks": checks,
    "notes": REG["notes"],
    "not_applicable": [{"property_id": k, "reason": v} for k, v in sorted(REG["not_applicable"].items())],
}
json.dump(m, open(os.path.join(VERIF, "MANIFEST.json"), "w"), indent=1)
print("MANIFEST.json: %d checks, %d not applicable" % (len(checks), len(m["not_applicable"])))
