"""C14 — parallel execution: lock-order graph (E5) and module bodies evaluated once (E6/R6a)."""
from . import e5, c15, c05

CRATES = {"gluon_vm", "gluon"}


def run(fb, rep, tier, cfg):
    rep.explanation = (
        "Static analysis of gluon_vm + gluon MIR. E5 builds the lock-order graph over lock classes (owner type, field) — "
        "every Mutex::lock / RwLock::read|write / parking_lot and futures mutex acquisition with its receiver sliced back to a "
        "field, held sets from a forward may-dataflow over guard-owning locals (variant-sensitive for Result/Option/Poll, kill on "
        "drop / StorageDead / move, `&mut` guard owners count as entered-holding, release-then-reacquire functions are recognised "
        "structurally), transitive may-acquire summaries over resolved calls — and requires it to be acyclic; try_* acquisitions "
        "do not block and add no edge; edges whose instances are always taken in one order are listed with their reason and "
        "restricted to the functions they occur in. R6a (shared with C15): module evaluation is a memoised query keyed by the "
        "module name and compiled module closures are evaluated nowhere else. Not decided: data-race freedom beyond rustc's "
        "Send/Sync checking, equivalence of results to running alone, livelock, lock acquisitions behind unresolved virtual calls.")
    rep.assumptions += ["virtual / fn-pointer calls (dyn VmEnv, dyn Macro, user closures stored in hooks) are not followed",
                        "drop glue is not followed (a guard dropped inside a callee's Drop impl is not an acquisition site)",
                        "tables/lock_instance_order.json: four reasoned instance orders of the thread tree"]
    e5.run(fb, rep)
    c15.r6a(fb, rep, R="R6a")
    # the collector's walk over the thread tree is where parallel threads meet the GC (seed C14-3): while a parent collects it locks every
    # descendant, marks from its roots and must sweep the heaps it marked in (or the mark bits go stale); shared with C05
    c05.e1b(fb, rep)
