"""C01 — evaluation matches the reference semantics: decided clause = primitive-operator table agreement (R11a)."""
from . import e11

CRATES = {"gluon_vm", "gluon_check", "gluon_base", "gluon_parser"}
THOROUGH_CONFIGS = ["default", "nodefault"]  # thorough also analyses the default-feature and the no-default-features builds


def run(fb, rep, tier, cfg):
    rep.explanation = (
        "Whole-property verdict is out of reach of static analysis (all programs x reference semantics). Decided clause R11a: "
        "the three sibling tables for built-in operators agree row by row — the string literal matched in "
        "Compiler::compile_primitive selects the Instruction whose arm in ExecuteContext::execute_ applies the checked Rust "
        "operation on the type the name denotes (i64/u8 checked_{add,sub,mul,div} with None -> Error::Message, f64 IEEE ops, "
        "Lt/Eq on the named operand type), and `&&`/`||` compile their right operand behind a conditional jump. Everything else "
        "in C01 (closures, patterns, records, implicits) is not decided. R11c: the two sibling branches that close a pre-allocated member of a "
        "recursive value group both address stack_start + the member's position. E13b (shared with C08; parser/src/infix.rs is an anchor of C01): the "
        "built-in fixity table used for `#Type op`, `&&` and `||` agrees with std's #[infix] declarations of the same operators and "
        "orders || below && below the comparisons, so unparenthesised source denotes the documented tree.")
    rep.assumptions += ["the lowering of `match str` to sequential `str == literal` tests is read from MIR",
                        "Char values are represented as Int in the VM (Char comparisons map to the Int instructions)"]
    e11.r11a(fb, rep)
    e11.r11c(fb, rep)
    e11.r11d(fb, rep)
    e11.r11e(fb, rep)
    e11.r11g(fb, rep)
    from . import c08
    c08.e13b(fb, rep)
    # strict `let`: the always-on dead-code pass must keep every binding whose evaluation contains a call (shared with C04)
    from . import c04
    c04.r10a(fb, rep)
    c04.r10b(fb, rep)
    c04.r10d(fb, rep)
