"""E3f — the hand-written tokenizer cannot panic on its input (C06).

The tokenizer (`parser/src/token.rs`, `parser/src/str_suffix.rs`) is the first code that sees program text, before any error
recovery of the grammar; a panic there unwinds out of `run_expr` into the host.  Rule: census of the unconditional panic
sites in those two files — `unwrap`/`expect` on Option/Result, `panic!`-family calls without a normal successor (which
includes `assert!`), range/index operations on `str` / slices / arrays (`Index::index`), and compiler-inserted `BoundsCheck` / `Overflow` asserts — grouped by (function, kind).  Each group
must be in `tables/lexer_panic_reviewed.json` with the reason why the input cannot reach it; a new group, or a reviewed group
whose function no longer exists, is reported.  (Found by this census + an audit: `restore_char` expected its bytes to be
UTF-8 although the tokenizer had already moved past part of the character, `unescape_string_literal` panicked on the
escapes the tokenizer had merely *reported*.)  The layout engine (`layout.rs`) and the generated LALRPOP grammar are not
covered."""
from .common import table

FILES = ("parser/src/token.rs", "parser/src/str_suffix.rs")


def run(fb, rep):
    R = "E3f"
    rep.rule(R, "every unconditional panic site of the hand-written tokenizer is reviewed")
    reviewed = {e["site"]: e["reason"] for e in table("lexer_panic_reviewed.json")["reviewed"]}
    sites = {}
    n_bodies = 0
    for b in fb.bodies.values():
        if b.crate.name != "gluon_parser" or not b.file.endswith(FILES) or b.kind == "promoted":
            continue
        if "::tests::" in b.id or b.id.endswith("::tests") or "::test::" in b.id:
            continue
        n_bodies += 1
        root = b.get("root") or b.id.split("::{closure")[0]
        for c in b.calls():
            nm = c.res
            kind = None
            if nm.endswith("Option::<T>::unwrap") or nm.endswith("Result::<T, E>::unwrap"):
                kind = "unwrap"
            elif nm.endswith("::expect") and ("Option::<T>" in nm or "Result::<T, E>" in nm):
                kind = "expect"
            elif nm.startswith("core::panicking::") and c.target is None:
                kind = "panic"
            elif (nm.endswith("::index") or nm.endswith("::index_mut")) and "core::ops::index::Index" in nm:
                kind = "slice"
            if kind:
                sites.setdefault("%s|%s" % (root, kind), c.where())
        for blk in b.blocks:
            t = blk["t"]
            if t[0] == "assert" and not blk.get("cl"):
                k = t[3][0]
                kind = "index" if k == "BoundsCheck" else ("arith" if k in ("Overflow", "OverflowNeg", "DivisionByZero", "RemainderByZero") else k)
                sites.setdefault("%s|%s" % (root, kind), "%s:%s" % (b.file, t[6]))
    for key, where in sorted(sites.items()):
        if key in reviewed:
            rep.exception(R, key, reviewed[key])
            rep.ok(R, "%s: reviewed" % key)
        else:
            rep.violation(R, "lexer-panic-site|%s" % key, "unreviewed panic site (%s) in the tokenizer function %s: program text may reach it and panic the host instead of "
                          "producing a parse error" % (key.rsplit("|", 1)[1], key.rsplit("|", 1)[0]), where)
    for key in sorted(set(reviewed) - set(sites)):
        rep.ok(R, "%s: reviewed site no longer present" % key)
    rep.floor(R, "tokenizer bodies examined", n_bodies, 40)
    rep.extra["lexer_panic_sites"] = len(sites)
