def cells(fb, rep):
    pass
