"""E4 — cross-heap transfer sites (shared by C13 and C05).

E4a  every store of a value into a place another heap owns (mutable cells, channel queue, host root list of another
     thread, the stack of another thread, the global heap) stores the *result of the deep clone into the owner's
     heap*; who-may-write those places.
E4b  wherever a Cloner is built for a non-global destination, the share-or-copy decision (can_share_values_with)
     precedes the clone and its negative edge forces a full clone.
E4c  the cloner is closed under the value representation: an arm of its own for every ValueRepr / Repr variant, and
     every pointer-carrying arm allocates a copy (or fails)."""
from . import flow
from .common import enum_switches_any, variant_names
from .facts import op_place, op_local

REF = "gluon_vm::reference::Reference"
LAZY = "gluon_vm::lazy::Lazy"
SENDER = "gluon_vm::channel::Sender"
RECEIVER = "gluon_vm::channel::Receiver"
DCV = "deep_clone_value"
CELLS = [(REF, "value", "thread"), (LAZY, "value", "thread")]


CELL_DCV = "thread::Thread::deep_clone_value_for_cell"


def _is_dcv(name):
    return name.endswith("::deep_clone_value") or name.endswith(CELL_DCV)


def _is_clone(name):
    return name.endswith("::deep_clone_value") or name.endswith("Cloner::<'t>::deep_clone")


def _dcv_calls(body):
    return [c for c in body.calls() if any(_is_dcv(n) for n in c.names())]


def _value_free_agg(body, rv):
    """an enum variant aggregate that carries no VM value (Lazy_::Blackhole)"""
    if rv[0] == "agg" and rv[1][0] == "adt":
        for o in rv[2]:
            p = op_place(o)
            if p is not None:
                row = body.local_ty(p[0])
                if body.ty_has(row, "gluon_vm::value::Value", own=False) or body.ty_has(row, "gluon_vm::gc::GcPtr", own=False):
                    return False
        return True
    return False


def cells(fb, rep, rule="E4a"):
    """stores into Reference.value / Lazy.value"""
    R = rule
    rep.rule(R, "cross-heap sinks store the result of the deep clone into the owner's heap; who-may-write")
    n_sites = 0
    for b in list(fb.bodies.values()) + list(fb.pre.values()):
        if b.kind == "coroutine_post":
            continue  # the pre-transform body of the same coroutine is analysed instead
        for i, j, place, rv, line in b.assigns():
            if place[1] != ["*"]:
                continue
            dsrc = flow.sources(b, place[0])
            for adt, vfield, tfield in CELLS:
                if ("field", adt, vfield) not in dsrc:
                    continue
                n_sites += 1
                if rv[0] != "use":
                    rep.violation(R, "cell-store-shape|%s|%s" % (b.id, adt), "unrecognised store into %s.%s" % (adt, vfield), "%s:%s" % (b.file, line))
                    continue
                vs = flow.sources(b, rv[1])
                # the stored operand may be a local assigned an aggregate (Lazy_::Value(v) / Lazy_::Blackhole(..))
                aggs = [s for s in vs if s[0] == "agg"]
                if not (flow.has_call(vs, _is_dcv)):
                    # value-free state (Blackhole) is fine
                    p = op_place(rv[1])
                    defs = b.defs_of(p[0]) if p is not None and not p[1] else []
                    if defs and all(d[0] == "assign" and _value_free_agg(b, d[3]) for d in defs):
                        rep.ok(R, "%s: stores a value-free state into %s.%s" % (b.id, adt.rsplit("::", 1)[1], vfield))
                        continue
                    rep.violation(R, "cell-store-unclone|%s|%s" % (b.id, adt),
                                  "%s stores into %s.%s a value that is not the result of deep_clone_value" % (b.id, adt, vfield),
                                  "%s:%s" % (b.file, line))
                    continue
                # the clone's destination (receiver) is the cell's own thread; a cell that may live in the global heap passes
                # its own heap flag so that the value follows the cell (see E4e)
                good = False
                flagged = None
                for c in _dcv_calls(b):
                    rs = flow.sources(b, c.args[0])
                    if ("field", adt, tfield) in rs:
                        good = True
                        if c.res.endswith(CELL_DCV):
                            flagged = ("field", adt, "in_global_heap") in flow.sources(b, c.args[1])
                if good and flagged is False:
                    rep.violation(R, "cell-store-wrong-flag|%s|%s" % (b.id, adt),
                                  "%s clones for a cell with a heap flag that is not the cell's own in_global_heap" % b.id, "%s:%s" % (b.file, line))
                elif good:
                    rep.ok(R, "%s: %s.%s <- deep_clone_value(receiver = cell.%s)" % (b.id, adt.rsplit("::", 1)[1], vfield, tfield))
                else:
                    rep.violation(R, "cell-store-wrong-heap|%s|%s" % (b.id, adt),
                                  "%s clones into a heap that is not the cell owner's (%s.%s) before storing" % (b.id, adt, tfield),
                                  "%s:%s" % (b.file, line))
    rep.floor(R, "stores into Reference.value / Lazy.value", n_sites, 4)


def queue(fb, rep):
    R = "E4a"
    allowed = {"push_back": "send", "pop_front": "recv", "lock": None, "clone": None, "deref": None, "deref_mut": None,
               "unwrap": None, "new": None, "fmt": None, "trace": None, "ok_or": None}
    pushes = []
    for b in fb.bodies.values():
        for c in b.calls():
            if "VecDeque" not in c.res or not c.args:
                continue
            rs = flow.sources(b, c.args[0])
            on_sender = ("field", SENDER, "queue") in rs
            on_recv = ("field", RECEIVER, "queue") in rs
            if not (on_sender or on_recv):
                continue
            meth = c.res.rsplit("::", 1)[1]
            if meth == "push_back":
                pushes.append((b, c))
                if on_recv and not on_sender:
                    rep.violation(R, "queue-push-from-receiver|%s" % b.id, "Receiver side pushes into the channel queue", c.where())
            elif meth in ("pop_front",):
                if on_sender and not on_recv:
                    rep.violation(R, "queue-pop-from-sender|%s" % b.id, "Sender side pops from the channel queue", c.where())
                else:
                    rep.ok(R, "%s: Receiver.queue.pop_front()" % b.id)
            elif meth in ("iter", "len", "is_empty", "fmt", "as_slices", "front", "back"):
                pass
            else:
                rep.violation(R, "queue-mutator|%s|%s" % (b.id, meth), "unexpected VecDeque method on the channel queue: %s" % c.res, c.where())
    if not pushes:
        rep.anchor_lost(R, "push into Sender.queue")
    for b, c in pushes:
        vs = flow.sources(b, c.args[1])
        args = [s[1] for s in vs if s[0] == "arg"]
        if flow.has_call(vs, _is_dcv):
            _check_sender_clone(rep, R, b, c)
        elif args:
            # forwarding function (Sender::send): check every caller's argument
            callers = fb.calls_of(b.id)
            if not callers:
                rep.violation(R, "queue-push-unclone|%s" % b.id, "pushes its parameter into the queue and has no analysable caller", c.where())
            for cc in callers:
                ok = False
                for an in args:
                    if an - 1 < len(cc.args):
                        cvs = flow.sources(cc.body, cc.args[an - 1])
                        if flow.has_call(cvs, _is_dcv):
                            ok = True
                if ok:
                    _check_sender_clone(rep, R, cc.body, cc)
                else:
                    rep.violation(R, "queue-push-unclone|%s" % cc.body.id,
                                  "%s sends a value that is not the result of deep_clone_value" % cc.body.id, cc.where())
        else:
            rep.violation(R, "queue-push-unclone|%s" % b.id, "value pushed into the channel queue is not a deep clone", c.where())


def _check_sender_clone(rep, R, b, c):
    good = any(("field", SENDER, "thread") in flow.sources(b, d.args[0]) for d in _dcv_calls(b))
    if good:
        rep.ok(R, "%s: queue.push_back(deep_clone_value(receiver = sender.thread))" % b.id)
    else:
        rep.violation(R, "queue-push-wrong-heap|%s" % b.id, "value sent is cloned into a heap other than the channel owner's", c.where())


def host_moves(fb, rep):
    R = "E4a"
    # re_root: the new handle's value is cloned into the *target* vm
    b = fb.body("gluon_vm::thread::RootedValue::<T>::re_root")
    if b is None:
        rep.anchor_lost(R, "RootedValue::re_root")
    else:
        news = [c for c in b.calls() if c.res.endswith("RootedValue::<T>::new")]
        dcv = _dcv_calls(b)
        if news and dcv:
            vs = flow.sources(b, news[0].args[1])
            vm_new = flow.sources(b, news[0].args[0])
            vm_dcv = flow.sources(b, dcv[0].args[0])
            same_vm = ("arg", 2) in vm_new and ("arg", 2) in vm_dcv
            if flow.has_call(vs, _is_dcv) and same_vm:
                rep.ok(R, "re_root: RootedValue::new(vm, deep_clone_value(receiver = vm))")
            else:
                rep.violation(R, "re-root-unclone", "re_root roots a value in `vm` that was not cloned into `vm`", news[0].where())
        else:
            rep.violation(R, "re-root-shape", "re_root no longer clones and re-roots", b.where())
    # who may create a RootedValue
    ok_callers = {"gluon_vm::thread::RootedValue::<T>::re_root": "cloned into the target first",
                  "<gluon_vm::thread::RootedValue<T> as core::clone::Clone>::clone": "same vm, same value",
                  "gluon_vm::thread::VmRootInternal::root_value_with_self": "unsafe: caller promises the value is owned by self"}
    for c in fb.calls_of("gluon_vm::thread::RootedValue::<T>::new"):
        if c.body.id in ok_callers:
            rep.ok(R, "%s -> RootedValue::new (%s)" % (c.body.id, ok_callers[c.body.id]))
        else:
            rep.violation(R, "rooted-value-new|%s" % c.body.id, "unexpected caller of the unsafe RootedValue::new", c.where())
    # pushing a handle onto another thread's stack
    b = fb.body("<gluon_vm::thread::RootedValue<T> as gluon_vm::api::Pushable<'vm>>::vm_push")
    if b is None:
        rep.anchor_lost(R, "<RootedValue as Pushable>::vm_push")
    else:
        pushes = [c for c in b.calls() if c.res.endswith("::push") and "stack" in c.res.lower()]
        if not pushes:
            pushes = [c for c in b.calls() if c.res.endswith("::push")]
        good = any(flow.has_call(flow.sources(b, a), lambda n: n.endswith("Cloner::<'t>::deep_clone")) for c in pushes for a in c.args[1:])
        if good:
            rep.ok(R, "<RootedValue as Pushable>::vm_push pushes Cloner::deep_clone's result")
        else:
            rep.violation(R, "vm-push-unclone", "a RootedValue is pushed to a stack without passing the cloner", b.where())


def globals_(fb, rep):
    """promotion to the global heap: the cloner is built on GlobalVmState.gc"""
    R = "E4a"
    n = 0
    for b in list(fb.bodies.values()) + list(fb.pre.values()):
        if b.kind == "coroutine_post" or not b.id.startswith("gluon::query::"):
            continue
        for c in b.calls():
            if c.res.endswith("Cloner::<'t>::new"):
                n += 1
                gs = flow.sources(b, c.args[1])
                if ("field", "gluon_vm::vm::GlobalVmState", "gc") in gs:
                    rep.ok(R, "%s: module/global value is cloned with a Cloner on GlobalVmState.gc (generation 0)" % b.id)
                else:
                    rep.violation(R, "global-clone-heap|%s" % b.id, "value promoted to a global is cloned into a heap other than the global one", c.where())
    rep.floor(R, "global promotion sites (gluon::query)", n, 2)
    # the promoted value (not the original) is what gets stored
    gi = fb.pre.get("gluon::query::global_inner::{closure#0}")
    if gi is None:
        rep.anchor_lost(R, "gluon::query::global_inner")
    else:
        roots = [c for c in gi.calls() if c.res.endswith("::root_value")]
        good = any(flow.has_call(flow.sources(gi, a), lambda n: n.endswith("Cloner::<'t>::deep_clone")) for c in roots for a in c.args[1:])
        if good:
            rep.ok(R, "global_inner roots the cloner's result as the module value")
        else:
            rep.violation(R, "global-inner-unclone", "global_inner stores a module value that did not pass the cloner", gi.where())


def share_or_copy(fb, rep):
    R = "E4b"
    rep.rule(R, "share-or-copy decision precedes every non-global clone; its negative edge forces a full clone")
    n = 0
    for b in list(fb.bodies.values()) + list(fb.pre.values()):
        if b.kind == "coroutine_post":
            continue
        news = [c for c in b.calls() if c.res.endswith("Cloner::<'t>::new")]
        for nw in news:
            gs = flow.sources(b, nw.args[1])
            if ("field", "gluon_vm::vm::GlobalVmState", "gc") in gs:
                continue  # generation 0 shares only generation-0 values
            n += 1
            dcs = [c for c in b.calls() if c.res.endswith("Cloner::<'t>::deep_clone")]
            cs = [c for c in b.calls() if any(x.endswith("::can_share_values_with") for x in c.names())]
            ff = [c for c in b.calls() if c.res.endswith("Cloner::<'t>::force_full_clone")]
            if not dcs:
                continue
            if not cs or not ff:
                rep.violation(R, "no-share-decision|%s" % b.id, "%s clones into a non-global heap without can_share_values_with/force_full_clone" % b.id, nw.where())
                continue
            ok = False
            why = "no switch on the share decision"
            for bb, srcs, true_t, false_t in flow.bool_switches(b):
                if not flow.has_call(srcs, lambda x: x.endswith("::can_share_values_with")):
                    continue
                negated = ("op", "Not") in srcs
                cannot_edge = true_t if negated else false_t
                can_edge = false_t if negated else true_t
                f_ok = all(flow.only_via_edge(b, f.bb, (bb, cannot_edge)) for f in ff)
                reach_cannot = b.reachable(cannot_edge)
                f_reached = any(f.bb in reach_cannot for f in ff)
                d_ok = all(b.dominates(cs[0].bb, d.bb) and b.dominates(bb, d.bb) for d in dcs) and all(d.bb in b.reachable(can_edge) and d.bb in reach_cannot for d in dcs)
                # on the cannot-share edge the clone must not be reachable without forcing
                bypass = any(d.bb in b.reachable(cannot_edge, avoid_blocks=[f.bb for f in ff]) for d in dcs)
                if f_ok and f_reached and d_ok and not bypass:
                    ok = True
                else:
                    why = "force_only_on_cannot_share=%s reached=%s clone_after_decision=%s bypass=%s" % (f_ok, f_reached, d_ok, bypass)
            if ok:
                rep.ok(R, "%s: can_share_values_with dominates deep_clone; the cannot-share edge always passes force_full_clone" % b.id)
            else:
                rep.violation(R, "share-decision-shape|%s" % b.id, "share-or-copy decision does not guard the clone (%s)" % why, nw.where())
    rep.floor(R, "non-global Cloner constructions", n, 2)
    # the decision itself: identity short-cut, different global state => false, otherwise ancestor walk
    cs = fb.body("<gluon_vm::thread::Thread as gluon_vm::thread::ThreadInternal>::can_share_values_with")
    if cs is None:
        rep.anchor_lost(R, "Thread::can_share_values_with")
        return
    T = "gluon_vm::thread::Thread"
    group = [cs] + [x for i_, x in fb.bodies.items() if i_.startswith(cs.id + "::") and "{closure" not in i_]

    def _reads_parent(x):
        return any(("field", T, "parent") in flow.sources(x, rv[1] if rv[0] in ("disc", "rawptr") else (rv[2] if rv[0] == "ref" else [0, []]))
                   for i, j, pl, rv, ln in x.assigns() if rv[0] in ("disc", "ref", "rawptr"))
    reads_parent = any(_reads_parent(x) for x in group)
    reads_gs = any(("field", T, "global_state") in flow.sources(cs, c.args[0]) for c in cs.calls() if c.args)
    loops = any(x.sccs() for x in group)
    consts = set()
    for i, j, pl, rv, ln in cs.assigns():
        if pl == [0, []] and rv[0] == "use" and rv[1][0] == "k" and "int" in rv[1][1]:
            consts.add(rv[1][1]["int"])
    # no blocking lock may be taken on the *other* thread inside the decision (it runs with our own context held)
    locks_other = [c for x in group for c in x.calls() if c.res.endswith("Mutex::<T>::lock") and ("field", T, "context") in flow.sources(x, c.args[0])]
    if locks_other:
        rep.violation(R, "share-decision-locks-other-context", "can_share_values_with locks another thread's context while the caller holds its own (two threads pushing each other's values deadlock)", locks_other[0].where())
    if reads_parent and reads_gs and loops and consts >= {0, 1}:
        rep.ok(R, "can_share_values_with: compares global states, walks Thread.parent, returns both true and false")
    else:
        rep.violation(R, "share-decision-degenerate", "can_share_values_with lost the global-state comparison / parent walk / one of its results (parent=%s gs=%s loop=%s results=%s)" % (
            reads_parent, reads_gs, bool(loops), sorted(consts)), cs.where())
    # Generation::can_contain_values_from is `other <= self`
    g = fb.body("gluon_vm::gc::Generation::can_contain_values_from")
    if g is None:
        rep.anchor_lost(R, "Generation::can_contain_values_from")
    else:
        ok = False
        for i, j, pl, rv, ln in g.assigns():
            if rv[0] == "bin" and rv[1] in ("Le", "Ge", "Lt", "Gt"):
                a = op_local(rv[2])
                c = op_local(rv[3])
                sa = flow.sources(g, rv[2])
                sc = flow.sources(g, rv[3])
                # other.0 <= self.0  (self = arg1, other = arg2)
                pure = not any(s[0] in ("op", "const", "call") for s in sa | sc)
                if rv[1] == "Le" and ("arg", 2) in sa and ("arg", 1) in sc and pure:
                    ok = True
                if rv[1] == "Ge" and ("arg", 1) in sa and ("arg", 2) in sc and pure:
                    ok = True
        # ... and nothing else: no call, no branch (an extra `|| other.is_root()` shares generation-0 values of an unrelated VM)
        extra = [c.res for c in g.calls()] + ["branch" for i in range(len(g.blocks)) if g.term(i)[0] == "switch"]
        if ok and extra:
            rep.violation(R, "generation-order-extra-clause", "Generation::can_contain_values_from is no longer exactly `other.0 <= self.0` (additional %s): "
                          "a forced full clone (disjoint receiver generation) would skip values it must copy" % sorted(set(extra)), g.where())
        elif ok:
            rep.ok(R, "Generation::can_contain_values_from(self, other) is other <= self")
        else:
            rep.violation(R, "generation-order", "Generation::can_contain_values_from is no longer `other.0 <= self.0`", g.where())
    # force_full_clone sets the disjoint generation
    f = fb.body("gluon_vm::value::Cloner::<'t>::force_full_clone")
    if f is not None:
        w = [1 for bb, j, rv, ln, kind in flow.field_writes(f, "gluon_vm::value::Cloner", "receiver_generation")]
        d = [c for c in f.calls() if c.res.endswith("Generation::disjoint")]
        if w and d:
            rep.ok(R, "force_full_clone sets receiver_generation = Generation::disjoint()")
        else:
            rep.violation(R, "force-full-clone", "force_full_clone no longer sets the disjoint generation", f.where())
    # (after seed C13-4) every share-instead-of-copy decision *inside* the cloner asks `receiver_generation` — the field that
    # force_full_clone overrides when the two threads cannot share — never the destination heap's own generation
    CL = "gluon_vm::value::Cloner"
    n_dec = 0
    for bid, b in fb.bodies.items():
        if not bid.startswith("gluon_vm::value::Cloner::<'t>::"):
            continue
        for c in b.calls():
            if not c.res.endswith("Generation::can_contain_values_from") or not c.args:
                continue
            n_dec += 1
            src = flow.sources(b, c.args[0], depth=10)
            # closures see the cloner through an upvar: the field read still shows as a field of Cloner
            from_field = ("field", CL, "receiver_generation") in src
            from_gc = flow.has_call(src, lambda x: x.endswith("Gc::generation"))
            if from_field and not from_gc:
                rep.ok(R, "%s: share-or-copy asks Cloner.receiver_generation" % bid)
            else:
                rep.violation(R, "share-decision-ignores-forced-clone|%s" % bid.split("::{closure")[0].rsplit("::", 1)[-1], "%s decides to share a value instead of copying it from %s, not from "
                              "Cloner.receiver_generation: the decision ignores force_full_clone, so values are shared between threads that cannot share (siblings, unrelated VMs)"
                              % (bid, "the destination heap's own generation (Gc::generation)" if from_gc else "another source"), c.where())
    rep.floor(R, "share-or-copy decisions inside the cloner", n_dec, 1)


_REPR_ELEM = {}


def _repr_element_carries_pointer(fb, variant):
    """does an array of this representation hold GC pointers?  Read from the sibling that already has to know: the arm of
    `<ValueArray as Trace>::trace` (the on_array! dispatch) for that Repr casts the storage with `unsafe_array::<T>()`; T's type
    facts say whether it owns a GcPtr / Value (String arrays hold `GcStr` pointers, not inline text)."""
    if not _REPR_ELEM:
        tb = None
        for bid, b in fb.bodies.items():
            if bid.startswith("<gluon_vm::value::ValueArray as gluon_vm::gc::Trace>::trace") and b.kind == "fn":
                tb = b
        if tb is None:
            return None
        names = variant_names(fb, "gluon_vm::value::Repr")
        best = None
        for bb, place, m, other in enum_switches_any(tb):
            if len(m) >= len(names) - 1 and (best is None or len(m) > len(best[1])):
                best = (bb, m, other)
        if best is None:
            return None
        bb, m, other = best
        for idx, vn in enumerate(names):
            t = m.get(idx, other)
            if t is None:
                continue
            others = [x for i2, x in m.items() if x != t] + ([other] if other is not None and other != t else [])
            region = tb.reachable(t, avoid_blocks=[bb]) - tb.reachable(others, avoid_blocks=[bb])
            for c in tb.calls():
                if c.bb in region and "ValueArray::unsafe_array" in c.res and c.desc.get("ga"):
                    row = tb.ty(c.desc["ga"][0])
                    _REPR_ELEM[vn] = bool(tb.ty_has(row, "gluon_vm::gc::GcPtr", own=True) or tb.ty_has(row, "gluon_vm::value::Value", own=True)
                                          or tb.ty_has(row, "gluon_vm::value::ValueRepr", own=True) or "GcStr" in row["s"] or "GcPtr<" in row["s"])
    return _REPR_ELEM.get(variant)


def cloner_closed(fb, rep):
    R = "E4c"
    rep.rule(R, "the cloner has an arm for every value representation; pointer-carrying arms allocate a copy or fail")
    for fid, adt in (("gluon_vm::value::Cloner::<'t>::deep_clone_inner", "gluon_vm::value::ValueRepr"),
                     ("gluon_vm::value::Cloner::<'t>::deep_clone_array", "gluon_vm::value::Repr")):
        b = fb.body(fid)
        if b is None:
            rep.anchor_lost(R, fid)
            continue
        names = variant_names(fb, adt)
        a = fb.adts.get(adt)
        best = None
        for bb, place, m, other in enum_switches_any(b):
            if len(m) >= max(3, len(names) - 2) and (best is None or len(m) > len(best[2])):
                best = (bb, place, m, other)
        if best is None:
            rep.anchor_lost(R, "match on %s in %s" % (adt, fid))
            continue
        bb, place, m, other = best
        targets = dict(m)
        other_is_unreachable = b.term(other)[0] == "unreachable"
        for idx, vn in enumerate(names):
            t = targets.get(idx)
            if t is None and other_is_unreachable:
                rep.violation(R, "cloner-arm-missing|%s|%s" % (adt, vn), "%s has no arm for %s::%s" % (fid, adt, vn), b.where())
                continue
            if t is None:
                rep.violation(R, "cloner-wildcard|%s|%s" % (adt, vn), "%s handles %s::%s through a wildcard arm" % (fid, adt, vn), b.where())
                continue
            # does this variant carry a pointer?
            carries = False
            if a is not None and adt.endswith("ValueRepr"):
                crate = a["_crate"]
                for f in a["variants"][idx]["fields"]:
                    row = crate.types[f["ty"]]
                    mk = crate.markers
                    if mk.index("gluon_vm::gc::GcPtr") in row.get("mo", []):
                        carries = True
            elif adt.endswith("Repr"):
                carries = _repr_element_carries_pointer(fb, vn)
                if carries is None:
                    rep.anchor_lost(R, "element type of Repr::%s (read from the unsafe_array::<T> casts of <ValueArray as Trace>::trace)" % vn)
                    continue
            if not carries:
                rep.ok(R, "%s: %s::%s (no heap pointer) has its own arm" % (fid.rsplit("::", 1)[1], adt.rsplit("::", 1)[1], vn))
                continue
            others = [x for i2, x in targets.items() if i2 != idx and x != t]
            excl = b.reachable(t, avoid_blocks=[bb]) - b.reachable(others, avoid_blocks=[bb])
            callees = {c.res for c in b.calls() if c.bb in excl}
            closures = set()
            for i, j, pl, rv, ln in b.assigns():
                if i in excl and rv[0] == "agg" and rv[1][0] == "closure":
                    closures.add(rv[1][1])
            for cid in closures:
                cb = fb.body(cid)
                if cb is not None:
                    callees |= {c.res for c in cb.calls()}
            copies = any("deep_clone" in n or n.endswith("Gc::alloc") for n in callees)
            errs = any(i in excl for i in flow.blocks_constructing(b, "core::result::Result", "Err"))
            if copies or errs:
                rep.ok(R, "%s: %s::%s arm copies (%s)" % (fid.rsplit("::", 1)[1], adt.rsplit("::", 1)[1], vn, "alloc/deep_clone" if copies else "Err"))
            else:
                rep.violation(R, "cloner-arm-shares|%s|%s" % (adt, vn),
                              "%s: the arm for pointer-carrying %s::%s neither allocates a copy nor fails" % (fid, adt, vn), b.where())


def userdata_clones(fb, rep):
    """E4d: a userdata that overrides deep_clone rebuilds itself in the destination heap"""
    R = "E4d"
    rep.rule(R, "Userdata::deep_clone overrides copy their values with the cloner, allocate in its heap and re-own the cell")
    n = 0
    for b in fb.bodies.values():
        if b.get("impl_trait") != "gluon_vm::value::Userdata" or b.get("name") != "deep_clone":
            continue
        n += 1
        self_adt = b.strip_refs(b.ty(b.get("impl_self"))).get("adt")
        allocs = [c for c in b.calls() if c.res.endswith("Gc::alloc")]
        good_alloc = any(flow.has_call(flow.sources(b, c.args[0]), lambda x: x.endswith("Cloner::<'t>::gc")) for c in allocs)
        aggs = [(i, rv, ln) for i, j, pl, rv, ln in b.assigns() if rv[0] == "agg" and rv[1][0] == "adt" and rv[1][1] == self_adt]
        a = fb.adts.get(self_adt)
        ok_fields = True
        detail = []
        if a is None:
            ok_fields = False
        elif not aggs:
            # `Box::new(self.clone())` (derive(Userdata) with clone): only sound for data without GC pointers
            srow = b.strip_refs(b.ty(b.get("impl_self")))
            mk = b.crate.markers
            gcm = [mk.index(x) for x in ("gluon_vm::gc::GcPtr", "gluon_vm::value::Value", "gluon_vm::value::ValueRepr") if x in mk]
            if any(i in srow.get("ma", []) for i in gcm):
                ok_fields = False
                detail.append("clones itself with Clone although it holds GC pointers")
        for i, rv, ln in aggs:
            names = [f["name"] for f in a["variants"][0]["fields"]]
            types = a["_crate"].types
            for fi, o in enumerate(rv[2]):
                fname = names[fi] if fi < len(names) else str(fi)
                frow = types[a["variants"][0]["fields"][fi]["ty"]]
                srcs = flow.sources(b, o)
                holds_value = a["_crate"].markers.index("gluon_vm::value::Value") in frow.get("ma", []) if "gluon_vm::value::Value" in a["_crate"].markers else False
                is_thread = "GcPtr<gluon_vm::thread::Thread>" in frow["s"]
                if is_thread:
                    if not flow.has_call(srcs, lambda x: x.endswith("Cloner::<'t>::thread")):
                        ok_fields = False
                        detail.append("%s is not the cloner's thread" % fname)
                elif holds_value:
                    if not flow.has_call(srcs, lambda x: x.endswith("Cloner::<'t>::deep_clone")):
                        ok_fields = False
                        detail.append("%s is not cloned with the cloner" % fname)
        # every VM value placed into any aggregate built here comes out of the cloner (enum payloads are
        # merged by the per-local value flow, so look at each construction separately)
        for i, j, pl, rv, ln in b.assigns():
            if rv[0] != "agg" or rv[1][0] != "adt" or rv[1][1].startswith("core::") or rv[1][1].startswith("alloc::"):
                continue
            for o in rv[2]:
                p_ = op_place(o)
                if p_ is None or p_[1]:
                    continue
                if b.local_tstr(p_[0]) in ("gluon_vm::value::Value", "gluon_vm::value::ValueRepr"):
                    if not flow.has_call(flow.sources(b, o), lambda x: x.endswith("Cloner::<'t>::deep_clone")):
                        ok_fields = False
                        detail.append("%s::%s is built from a value that did not pass the cloner" % (rv[1][1].rsplit("::", 1)[1], rv[1][2]))
        if good_alloc and ok_fields:
            rep.ok(R, "%s: values via Cloner::deep_clone, owner = Cloner::thread, allocated in Cloner::gc" % b.id)
        else:
            rep.violation(R, "userdata-clone|%s" % self_adt, "%s does not rebuild the userdata in the destination heap (alloc_in_cloner_gc=%s %s)" % (b.id, good_alloc, "; ".join(detail)), b.where())
    rep.floor(R, "Userdata::deep_clone overrides", n, 2)


def foreign_thread_roots(fb, rep):
    """E4f: a primitive that is handed *another* thread (a RootedThread argument) and roots a value of the calling thread in it
    (`Getable::from_value(&that_thread, value)` registers the value in that thread's rooted_values) must first move the value into
    that thread's heap with `that_thread.deep_clone_value(caller, value)`: the two threads may be siblings, whose collectors mark
    and sweep independently (a sibling's mark phase even leaves stale mark bits on the foreign objects it reaches, so the owner's
    next collection skips them and frees what they point to)."""
    R = "E4f"
    rep.rule(R, "a value rooted in a thread that was passed in as an argument has been deep-cloned into that thread first")
    n = 0
    for b in fb.bodies.values():
        if b.crate.name != "gluon_vm" or b.kind != "fn":
            continue
        argc = b.get("argc") or 0
        tparams = [i for i in range(1, argc + 1) if "RootedThread" in b.local_tstr(i) and "Function" not in b.local_tstr(i) and "WithVM" not in b.local_tstr(i)]
        if not tparams:
            continue
        for c in b.calls():
            if not (c.res.endswith("::from_value") or c.res.endswith("::root_value")) or len(c.args) < 2:
                continue
            t_src = flow.sources(b, c.args[0], depth=10)
            if not any(("arg", p) in t_src for p in tparams):
                continue
            n += 1
            v_src = flow.sources(b, c.args[1], depth=12)
            cloned = False
            for d in _dcv_calls(b):
                if any(("arg", p) in flow.sources(b, d.args[0], depth=10) for p in tparams) and d.dest is not None and flow.has_call(v_src, _is_dcv):
                    cloned = True
            if cloned:
                rep.ok(R, "%s: the value rooted in the thread argument comes from <that thread>.deep_clone_value(..)" % b.id)
            else:
                rep.violation(R, "foreign-root-unclone|%s" % b.id, "%s roots a value of the calling thread in the thread it was handed without deep-cloning it into that thread's heap" % b.id, c.where())
    rep.floor(R, "values rooted in a thread argument", n, 1)


def cloner_heap_pairing(fb, rep):
    """E4e: a mutable cell lives in the heap its stores go to.

    `Userdata::deep_clone` of the mutable cells (`Reference`, `Lazy`) allocates the copy in `cloner.gc()` and makes
    `cloner.thread()` its owner; every later store into the cell clones the new value into the owner's heap (E4a).  That is
    only sound when the cell lives in its owner's heap or a younger one.  A cloner that pairs a thread with *another* heap (the
    global, generation-0 heap: module promotion, set_global) produces cells that live in the old heap but own a younger one;
    the first store would put a young pointer into an old object, which the young heap's collector never traces (`Gc::mark`
    skips ancestor generations).  Discipline (after the repair of finding 10): (1) a Cloner is built either with the thread's
    own context heap or with the global heap; (2) every cell built by a `Userdata::deep_clone` override records whether the
    destination heap is the root generation (`in_global_heap = cloner.gc().generation().is_root()`), fresh cells are `false`;
    (3) the function that clones for a cell sends the value to the global heap exactly on the `in_global_heap` edge and to the
    owner's heap otherwise (E4a checks that each store passes the cell's own flag)."""
    R = "E4e"
    rep.rule(R, "a mutable cell records whether it lives in the global heap and its stores follow it there")
    own = {("field", "gluon_vm::thread::Context", "gc"), ("field", "gluon_vm::thread::ExecuteContext", "gc")}
    pool = [b for b in fb.bodies.values() if b.kind != "coroutine_post"] + list(fb.pre.values())
    seen = set()
    n = 0
    foreign = []
    for b in pool:
        for c in b.calls():
            if not c.res.endswith("value::Cloner::<'t>::new") or len(c.args) < 2:
                continue
            root = b.get("root") or b.id.split("::{closure")[0]
            if (root, c.line) in seen:
                continue
            seen.add((root, c.line))
            n += 1
            srcs = flow.sources(b, c.args[1], depth=14)
            if srcs & own:
                rep.ok(R, "%s: Cloner::new(thread, &mut <that thread's context>.gc)" % root)
            elif flow.has_call(srcs, lambda x: x.endswith("Thread::global_env")):
                foreign.append((root, b, c))
            else:
                rep.violation(R, "cloner-unknown-heap|%s" % root, "%s builds a Cloner with a heap that is neither the thread's context heap nor the global heap" % root, c.where())
    rep.floor(R, "Cloner constructions", n, 4)
    # (2) cells know where they live
    cells_ok = True
    n_cells = 0
    for adt, vfield, tfield in CELLS:
        a = fb.adts.get(adt)
        names = [f["name"] for f in a["variants"][0]["fields"]] if a else []
        if "in_global_heap" not in names:
            cells_ok = False
            rep.violation(R, "cell-has-no-heap-flag|%s" % adt, "%s does not record whether it lives in the global heap" % adt, "%s:%s" % (a["file"], a["line"]) if a else "")
            continue
        fi = names.index("in_global_heap")
        for b in fb.bodies.values():
            if b.crate.name != "gluon_vm":
                continue
            for i, j, pl, rv, ln in b.assigns():
                if rv[0] == "agg" and rv[1][0] == "adt" and rv[1][1] == adt:
                    n_cells += 1
                    fs = flow.sources(b, rv[2][fi])
                    in_clone = b.get("impl_trait") == "gluon_vm::value::Userdata" and b.get("name") == "deep_clone"
                    if in_clone:
                        if flow.has_call(fs, lambda x: x.endswith("Generation::is_root")) and flow.has_call(fs, lambda x: x.endswith("Cloner::<'t>::gc")):
                            rep.ok(R, "%s: in_global_heap = cloner.gc().generation().is_root()" % b.id)
                        else:
                            cells_ok = False
                            rep.violation(R, "cell-flag-not-from-cloner|%s" % adt, "%s builds the copied cell with a heap flag that is not `cloner.gc().generation().is_root()`" % b.id, "%s:%s" % (b.file, ln))
                    else:
                        if ("const", 0) in fs and not any(x[0] == "call" for x in fs):
                            rep.ok(R, "%s: a fresh %s starts in its creator's heap (in_global_heap = false)" % (b.id, adt.rsplit("::", 1)[1]))
                        else:
                            cells_ok = False
                            rep.violation(R, "fresh-cell-flag|%s|%s" % (adt, b.id), "%s creates a %s whose in_global_heap is not the constant false" % (b.id, adt), "%s:%s" % (b.file, ln))
    rep.floor(R, "constructions of Reference / Lazy", n_cells, 5)
    # (3) the cell clone function routes on the flag
    f = fb.body("gluon_vm::" + CELL_DCV)
    routed = False
    if f is None:
        rep.violation(R, "no-cell-clone-function", "there is no function that sends a cell's new value to the heap the cell lives in (Thread::deep_clone_value_for_cell)", "")
    else:
        news = [c for c in f.calls() if c.res.endswith("value::Cloner::<'t>::new")]
        plain = [c for c in f.calls() if c.res.endswith("::deep_clone_value")]
        for bb, srcs, true_t, false_t in flow.bool_switches(f):
            if ("arg", 2) in srcs and not any(x[0] == "call" for x in srcs):
                g_ok = news and all(flow.only_via_edge(f, c.bb, (bb, true_t)) and flow.has_call(flow.sources(f, c.args[1], depth=14), lambda x: x.endswith("Thread::global_env")) for c in news)
                p_ok = plain and all(flow.only_via_edge(f, c.bb, (bb, false_t)) for c in plain)
                routed = bool(g_ok and p_ok)
        # (added after seed C05-4) no way round the copy: every return is preceded by one of the two clones.  A shortcut such as
        # "the value's owner is the cell's thread, nothing to copy" trusts a parameter the callers fill with the *cell's* thread
        # even when a descendant thread allocated the value.
        clone_blocks = [c.bb for c in f.calls() if c.res.endswith("Cloner::<'t>::deep_clone") or c.res.endswith("::deep_clone_value")]
        rets = {i for i, blk in enumerate(f.blocks) if blk["t"][0] == "ret"}
        bypass = rets & f.reachable(0, avoid_blocks=clone_blocks)
        if bypass:
            rep.violation(R, "cell-clone-bypassed", "Thread::deep_clone_value_for_cell can return without cloning the value (a path from entry to a return passes neither "
                          "Cloner::deep_clone nor deep_clone_value): the stored value stays in the heap of whichever thread allocated it", f.where())
        if routed:
            rep.ok(R, "deep_clone_value_for_cell: in_global_heap -> Cloner::new(self, global heap); otherwise -> deep_clone_value (owner's heap)")
        else:
            rep.violation(R, "cell-clone-not-routed", "Thread::deep_clone_value_for_cell does not send the value to the global heap exactly when in_global_heap is set", f.where())
        routed = routed and not bypass
    for root, b, c in foreign:
        if root.endswith(CELL_DCV.split("::", 1)[1]) or root == "gluon_vm::" + CELL_DCV:
            continue
        if cells_ok and routed:
            rep.ok(R, "%s: promotion into the global heap; the cells it copies record in_global_heap and their stores follow them" % root)
        else:
            rep.violation(R, "cloner-foreign-heap|%s" % root,
                          "%s builds a Cloner that allocates in the global heap (GlobalVmState.gc) but re-owns copied Reference/Lazy cells to the thread: a later store or force puts a pointer "
                          "to the thread's (younger) heap into the older heap, which the thread's collector never traces" % root, c.where())


def cloner_helpers(fb, rep):
    """E4c (continued): the per-representation helpers copy *every* slot through the cloner and go through the
    visited map (which is what preserves sharing and terminates on cycles)"""
    R = "E4c"
    CL = "gluon_vm::value::Cloner::<'t>::"
    VALS = ("gluon_vm::value::Value", "gluon_vm::value::ValueRepr")
    helpers = ["deep_clone_data", "deep_clone_closure", "deep_clone_app", "deep_clone_array"]
    # sibling agreement: *every* per-representation helper (role: a Cloner method that receives a pointer to a heap object and returns
    # the copy) goes through the visited map, not only the ones listed above
    for bid, x in sorted(fb.bodies.items()):
        if rep.pid != "C13":
            break  # duplicated copies lose sharing (C13); they do not free a reachable value (C05)
        if bid.startswith(CL + "deep_clone_") and x.kind == "fn" and bid.count("::") == CL.count("::") and bid[len(CL):] not in helpers + ["deep_clone_ptr", "deep_clone_inner"]:
            argc = x.get("argc") or 0
            if argc >= 2 and ("GcPtr<" in x.local_tstr(2) or "GcStr" in x.local_tstr(2)):
                if any(c.res == CL + "deep_clone_ptr" for c in x.calls()):
                    rep.ok(R, "%s allocates through deep_clone_ptr (visited map)" % bid[len(CL):])
                else:
                    rep.violation(R, "helper-bypasses-visited|%s" % bid[len(CL):], "%s does not go through deep_clone_ptr while its siblings do: an object of this representation that is "
                                  "reachable twice is copied twice (sharing lost) and one that reaches itself is cloned without end" % bid[len(CL):], x.where())
    for h in helpers:
        b = fb.body(CL + h)
        if b is None:
            rep.anchor_lost(R, CL + h)
            continue
        group = [b] + fb.closures_of(b.id) + [x for i, x in fb.bodies.items() if i.startswith(b.id + "::") and "{closure" not in i and "{promoted" not in i]
        via_visited = any(c.res == CL + "deep_clone_ptr" for c in b.calls())
        if via_visited:
            rep.ok(R, "%s allocates through deep_clone_ptr (visited map)" % h)
        else:
            rep.violation(R, "helper-bypasses-visited|%s" % h, "%s no longer goes through deep_clone_ptr: shared or cyclic structure is duplicated or loops forever" % h, b.where())
        # every slot store of a VM value comes from a recursive clone
        n_store = 0
        bad = []
        for x in group:
            for i, j, pl, rv, ln in x.assigns():
                if pl[1] != ["*"] or rv[0] != "use":
                    continue
                p_ = op_place(rv[1])
                if p_ is None:
                    continue
                ts = x.local_tstr(p_[0]) if not p_[1] else ""
                row = x.local_ty(pl[0])
                inner = x.strip_refs(row).get("s", "")
                if ts in VALS or inner in VALS or "GcPtr<" in inner or inner == "T":
                    n_store += 1
                    srcs = flow.sources(x, rv[1])
                    if not flow.has_call(srcs, lambda n: "deep_clone" in n or n.endswith("FnMut::call_mut") or n.endswith("Fn::call")):
                        bad.append("%s:%s" % (x.file, ln))
        if bad:
            rep.violation(R, "slot-not-cloned|%s" % h, "%s fills a slot of the copy with a value that did not pass the cloner (the copy points into the source heap)" % h, bad[0])
        elif n_store:
            rep.ok(R, "%s: every slot of the copy is filled from a recursive clone (%d store sites)" % (h, n_store))
        else:
            rep.violation(R, "no-slot-fill|%s" % h, "%s no longer fills the slots of the fresh copy" % h, b.where())
    # the visited map: occupied -> reuse, vacant -> allocate and remember
    p_ = fb.body(CL + "deep_clone_ptr")
    if p_ is None:
        rep.anchor_lost(R, CL + "deep_clone_ptr")
        return
    ent = [c for c in p_.calls() if c.res.endswith("::entry") and ("field", "gluon_vm::value::Cloner", "visited") in flow.sources(p_, c.args[0])]
    ins = [c for c in p_.calls() if c.res.endswith("VacantEntry::<'a, K, V>::insert") or c.res.endswith("::insert")]
    get = [c for c in p_.calls() if c.res.endswith("OccupiedEntry::<'a, K, V>::get") or c.res.endswith("::get")]
    if ent and ins and get:
        rep.ok(R, "deep_clone_ptr: visited.entry(ptr): occupied -> the earlier copy, vacant -> allocate and record")
    else:
        rep.violation(R, "visited-map-shape", "deep_clone_ptr no longer consults and updates the visited map (entry=%s insert=%s get=%s)" % (bool(ent), bool(ins), bool(get)), p_.where())
