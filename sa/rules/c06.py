"""C06 — scripts cannot crash the host; the VM stays usable (E3a panic containment, E3b stack reset)."""
from . import e3a, e3b, e3c, e3d, e3e, e3f, e3g, e3h

CRATES = {"gluon_vm", "gluon", "gluon_c_api", "gluon_base", "gluon_repl", "gluon_parser"}


def run(fb, rep, tier, cfg):
    rep.explanation = (
        "Static analysis of the MIR of every extern \"C\" primitive entry. E3a is a barrier rule: in each "
        "VmFunction::unpack_and_call instance the indirect call of the primitive's target happens only inside the closure handed "
        "to std::panic::catch_unwind and the caught payload is turned into Status::Error; every extern \"C\" fn(&Thread) -> Status of "
        "the library crates reaches its target only through unpack_and_call (or is one of two reviewed hand-written primitives); "
        "the code that runs outside the barrier has no unreviewed unwrap/expect/panic/arithmetic/index site. E3b: every host "
        "entry that starts the interpreter passes reset_stack on each error exit. E3c: the extern-frame lock (stack::Lock, a Copy token) obtained from into_lock is released, forwarded to a Lock-taking call or captured by the poll closure on every path to a return of every function that handles one. E3d: no assert-lowered (panicking) arithmetic on i64/u8 script values in the interpreter bodies. E3f: every unconditional panic site of the hand-written tokenizer (token.rs, str_suffix.rs) is reviewed. Not decided: panics of the layout engine and the generated grammar; panics while an asynchronous "
        "primitive's future is polled (outside the extern frame; they unwind to the host as ordinary Rust panics), allocation "
        "failure, that every failure becomes an error value with the right content.")
    rep.assumptions += ["a panic inside the barrier leaves the VM in a state later evaluations can use (AssertUnwindSafe); a primitive that panics while holding the context lock poisons it",
                        "allocation failure / OutOfMemory inside marshalling code is outside the property",
                        "tables/primitive_boundary_reviewed.json and tables/stack_reset_exempt.json"]
    e3b.run(fb, rep)
    e3c.run(fb, rep)
    e3d.run(fb, rep)
    e3e.run(fb, rep)
    e3f.run(fb, rep)
    e3g.run(fb, rep)
    e3g.script_sized_allocations(fb, rep)
    e3h.run(fb, rep)
    e3a.run(fb, rep, tier)
