"""C06 — scripts cannot crash the host; the VM stays usable (E3a panic containment, E3b stack reset)."""
from . import e3b

CRATES = {"gluon_vm", "gluon", "gluon_c_api", "gluon_base"}


def run(fb, rep, tier, cfg):
    rep.explanation = ("E3b: every host entry that starts the interpreter unwinds the VM stack on its error exits. "
                       "E3a: panic containment at the extern \"C\" primitive boundary.")
    e3b.run(fb, rep)
    try:
        from . import e3a
        e3a.run(fb, rep, tier)
    except ImportError:
        pass
