"""R12h / R12i — the serde bridge (`api::ser::Ser`, `api::de::De`) agrees with direct marshalling (C11).

C11 asks that a Rust value passed "through the serde bridge" comes back equal *and* that Gluon code observes the corresponding
Gluon value.  The direct path (`Pushable` / `Getable`) fixes what "the corresponding Gluon value" is; the bridge is a sibling
implementation of the same interface and must build the same representations:

R12h-prim  for every primitive of serde's data model that has a `Pushable` impl (bool, i16..i64, u8..u64, f32, f64, char):
           the `ValueRepr` variant that `Serializer::serialize_<p>` ends up pushing (following its delegations to other
           `serialize_*` methods down to `Serializer::to_value::<T>` and T's `Pushable::vm_push`) is the variant that
           `<p as Pushable>::vm_push` pushes.  (`u8` is Gluon's `Byte`, `char` is an `Int`-represented `Char`.)
R12h-opt   `serialize_none` / `serialize_some` write the tags that `<Option<T> as Pushable>::vm_push` writes for None / Some
           (read with the walker of R12f), `Some` as a one-field data value.  (`De::deserialize_option` and
           `<Option<T> as Getable>` read exactly that, R12f.)
R12h-seq   what `SerializeSeq::end` allocates (the `*Def` aggregate built by it or by the `api::ser` helpers it calls) is
           what the direct sibling for sequences, `<Collect<T> as Pushable>::vm_push` (used by `Vec<T>`), allocates.
R12h-tup   `SerializeTuple::end` / `SerializeTupleStruct::end` allocate what the `Pushable` impl of tuples allocates (a record
           with the fields `_0`, `_1`, ...).
R12i       the deserializer cannot recurse without progress: in the graph whose nodes are the `deserialize_*` methods of
           `&mut Deserializer` and whose edges are calls of one such method on the *same* value (receiver not built from a
           child accessor), evaluated separately for every pair (representation of the value, kind of its resolved type)
           by walking each method's CFG with the switches on `ValueRef` / `Type` discriminants resolved, there is no
           cycle.  A cycle is an unbounded recursion: the host aborts on stack overflow instead of refusing the value.
Not decided: maps (`std.map` is a Gluon-level tree, the bridge writes records), the tag order of serde's own `Result`
impl, payload losslessness."""
from . import flow
from .common import place_type_row
from .facts import op_place, op_const, Call
from . import r12f

VR = "gluon_vm::value::ValueRepr"
PRIMS = ["bool", "i8", "i16", "i32", "i64", "u8", "u16", "u32", "u64", "f32", "f64", "char"]


def _ser_method(fb, name):
    for bid, b in fb.bodies.items():
        if b.kind == "fn" and bid.endswith("Serializer>::" + name) and "gluon_vm::api::ser::Serializer" in bid:
            return b
    return None


def _repr_aggs(b):
    return {rv[1][2] for i, j, pl, rv, ln in b.assigns() if rv[0] == "agg" and rv[1][0] == "adt" and rv[1][1] == VR}


def _pushable_body(fb, tstr):
    return fb.body("<%s as gluon_vm::api::Pushable<'vm>>::vm_push" % tstr)


def _pushable_repr(fb, tstr, depth=0):
    """ValueRepr variants pushed by <tstr as Pushable>::vm_push (following delegation to another vm_push)"""
    b = _pushable_body(fb, tstr)
    if b is None:
        return None
    r = _repr_aggs(b)
    if r or depth > 3:
        return r
    for c in b.calls():
        if c.res.endswith("::vm_push") and c.res.startswith("<") and " as gluon_vm::api::Pushable" in c.res:
            t = c.res[1:c.res.index(" as gluon_vm::api::Pushable")]
            rr = _pushable_repr(fb, t, depth + 1)
            if rr:
                r |= rr
    return r


def _ser_repr(fb, b, seen=()):
    """(set of ValueRepr variants, description of the chain) pushed by a serialize_<prim> method"""
    if b is None or b.id in seen:
        return set(), "?"
    r = _repr_aggs(b)
    chain = [b.id.rsplit("::", 1)[-1]]
    for c in b.calls():
        last = c.res.rsplit("::", 1)[-1]
        if last.startswith("serialize_") and "gluon_vm::api::ser::Serializer" in c.res:
            rr, ch = _ser_repr(fb, fb.body(c.res), tuple(seen) + (b.id,))
            r |= rr
            chain.append(ch)
        elif c.res.endswith("Serializer::<'a, 't>::to_value") and len(c.args) >= 2:
            p = op_place(c.args[1])
            t = b.local_tstr(p[0]) if p is not None and not p[1] else None
            if t is None:
                k = op_const(c.args[1])
                t = b.tstr(k["ty"]) if k and "ty" in k else None
            chain.append("to_value::<%s>" % t)
            if t is not None:
                t = t.replace("&'_ ", "&'s ").replace("&str", "&'s str")
                rr = _pushable_repr(fb, t)
                if rr is None and t.startswith("&"):
                    rr = _pushable_repr(fb, "&'s " + t.lstrip("&'_s ").strip())
                if rr is None:
                    r.add("?%s" % t)
                else:
                    r |= rr
    return r, " -> ".join(chain)


def r12h(fb, rep):
    R = "R12h"
    rep.rule(R, "the serde serializer builds the representations that direct marshalling (Pushable) builds")
    if _ser_method(fb, "serialize_u8") is None:
        rep.anchor_lost(R, "impl serde::Serializer for &mut api::ser::Serializer")
        return
    n = 0
    for p in PRIMS:
        want = _pushable_repr(fb, p)
        b = _ser_method(fb, "serialize_" + p)
        if b is None:
            rep.anchor_lost(R, "Serializer::serialize_%s" % p)
            continue
        if want is None:
            rep.ok(R, "serialize_%s: %s has no Pushable impl (no direct sibling to compare with)" % (p, p))
            continue
        n += 1
        got, chain = _ser_repr(fb, b)
        if got == want and got:
            rep.ok(R, "serialize_%s pushes ValueRepr::%s like <%s as Pushable> (%s)" % (p, "/".join(sorted(got)), p, chain))
        else:
            rep.violation(R, "prim-repr-differs|%s" % p, "Serializer::serialize_%s pushes %s (%s) but <%s as Pushable>::vm_push pushes %s: Gluon code typed at the "
                          "corresponding Gluon type reads a value of another representation" % (p, sorted(got), chain, p, sorted(want)), b.where())
    rep.floor(R, "serde primitives compared with their Pushable impl", n, 11)
    # Option
    pb = _pushable_body(fb, "core::option::Option<T>")
    some, none = _ser_method(fb, "serialize_some"), _ser_method(fb, "serialize_none")
    if pb is None or some is None or none is None:
        rep.anchor_lost(R, "Pushable for Option / serialize_some / serialize_none")
    else:
        pt = r12f.push_table(pb, "core::option::Option", ["None", "Some"])
        # Some
        allocs = [c for c in some.calls() if c.res.endswith("Serializer::<'a, 't>::alloc")]
        tags = set()
        for c in allocs:
            k1, k2 = op_const(c.args[1]), op_const(c.args[2])
            tags.add((k1.get("int") if k1 else None, k2.get("int") if k2 else None))
        want_some = {(t, 1) for t in pt.get("Some", set())}
        if tags == want_some and tags:
            rep.ok(R, "serialize_some wraps the value in a one-field data value with tag %s like <Option<T> as Pushable>" % sorted(t for t, _ in tags))
        else:
            rep.violation(R, "some-not-wrapped", "Serializer::serialize_some builds %s (tag, fields) but <Option<T> as Pushable>::vm_push builds %s: `Some x` arrives as the "
                          "bare x, Gluon code matching on the Option reads the payload's bits as a constructor tag" % (sorted(map(str, tags)) or "no data value", sorted(map(str, want_some))), some.where())
        got_none, chain = _tag_consts(fb, none)
        if got_none == pt.get("None", set()) and got_none:
            rep.ok(R, "serialize_none pushes Tag(%s) like <Option<T> as Pushable> (%s)" % (sorted(got_none), chain))
        else:
            rep.violation(R, "none-tag-differs", "Serializer::serialize_none pushes tags %s but <Option<T> as Pushable>::vm_push pushes %s" % (sorted(map(str, got_none)), sorted(map(str, pt.get("None", set())))), none.where())
    # sequences
    end = None
    for bid, b in fb.bodies.items():
        if b.kind == "fn" and bid.endswith("SerializeSeq>::end") and "gluon_vm::api::ser::" in bid:
            end = b
    col = None
    for bid, b in fb.bodies.items():
        if b.kind == "fn" and bid.startswith("<gluon_vm::api::Collect<T> as gluon_vm::api::Pushable<'vm>>::vm_push"):
            col = b
    if end is None or col is None:
        rep.anchor_lost(R, "SerializeSeq::end of the bridge / <Collect<T> as Pushable>::vm_push")
    else:
        got = _defs_built(fb, end)
        want = _defs_built(fb, col)
        if not want:
            rep.anchor_lost(R, "the allocation definition built by <Collect<T> as Pushable>::vm_push")
        elif got == want:
            rep.ok(R, "SerializeSeq::end allocates %s like <Collect<T> as Pushable> (Vec<T>)" % sorted(got))
        else:
            rep.violation(R, "seq-alloc-differs", "the bridge's SerializeSeq::end allocates %s but sequences pushed directly (<Collect<T> as Pushable>, used by Vec<T>) allocate %s: "
                          "a Vec arrives as a data value, not an Array" % (sorted(got), sorted(want)), end.where())
    # tuples (and tuple structs with more than one field, which derive(VmType) types as tuples)
    tups = sorted((bid for bid, b in fb.bodies.items() if b.kind == "fn" and bid.startswith("<(") and ", " in bid.split(" as ")[0] and bid.endswith(" as gluon_vm::api::Pushable<'vm>>::vm_push")), key=len)
    tup = fb.bodies[tups[0]] if tups else None
    ends = [b for bid, b in sorted(fb.bodies.items()) if b.kind == "fn" and "gluon_vm::api::ser::" in bid and (bid.endswith("SerializeTuple>::end") or bid.endswith("SerializeTupleStruct>::end"))]
    if tup is None or len(ends) != 2:
        rep.anchor_lost(R, "Pushable for tuples / SerializeTuple::end and SerializeTupleStruct::end of the bridge")
    else:
        want = _defs_built(fb, tup)
        if not want:
            rep.anchor_lost(R, "the allocation definition built by the Pushable impl of tuples")
        for e in ends:
            got = _defs_built(fb, e)
            nm = e.id.split(" as ")[1].split(">::")[0].rsplit("::", 1)[-1]
            if got == want:
                rep.ok(R, "%s::end allocates %s like the Pushable impl of tuples" % (nm, sorted(got)))
            elif want:
                rep.violation(R, "tuple-alloc-differs|%s" % nm, "the bridge's %s::end allocates %s but tuples pushed directly allocate %s (a record with the fields _0, _1, ...): field access "
                              "by name on the received tuple (any row-polymorphic accessor) fails with `Field _0 does not exist`" % (nm, sorted(got), sorted(want)), e.where())


def _tag_consts(fb, b, seen=()):
    out, chain = set(), [b.id.rsplit("::", 1)[-1]]
    for i, j, pl, rv, ln in b.assigns():
        if rv[0] == "agg" and rv[1][0] == "adt" and rv[1][1] == VR and rv[1][2] == "Tag":
            k = op_const(rv[2][0])
            out.add(k.get("int") if k else None)
    for c in b.calls():
        last = c.res.rsplit("::", 1)[-1]
        if last.startswith("serialize_") and "gluon_vm::api::ser::Serializer" in c.res and c.res not in seen:
            nb = fb.body(c.res)
            if nb is not None:
                o, ch = _tag_consts(fb, nb, tuple(seen) + (b.id,))
                out |= o
                chain.append(ch)
    return out, " -> ".join(chain)


def _defs_built(fb, b, depth=0, seen=None):
    """names of the gluon_vm::value::*Def aggregates built by b or by the api::ser helpers it calls"""
    seen = seen if seen is not None else set()
    if b is None or b.id in seen or depth > 3:
        return set()
    seen.add(b.id)
    out = set()
    for i, j, pl, rv, ln in b.assigns():
        if rv[0] == "agg" and rv[1][0] == "adt" and rv[1][1].startswith("gluon_vm::value::") and rv[1][1].endswith("Def"):
            out.add(rv[1][1].rsplit("::", 1)[-1])
    for c in b.calls():
        last = c.res.rsplit("::", 1)[-1]
        if "gluon_vm::api::ser::" in c.res or (c.res.startswith("gluon_vm::thread::") and last.startswith("push_new_")):
            out |= _defs_built(fb, fb.body(c.res), depth + 1, seen)
    return out


# ---------------------------------------------------------------------------------------------------------------------------
VREF = "gluon_vm::api::ValueRef"
TYPE = "gluon_base::types::Type"
CHILD = ("get_variant", "next", "take", "get", "nth", "lookup_field")


def _place_row(body, place):
    row = body.local_ty(place[0])
    for p in place[1]:
        if row is None:
            return None
        if p == "*":
            if row.get("c"):
                row = body.types[row["c"][0]]
            else:
                return None
        elif isinstance(p, list) and p[0] == "f" and row.get("k") == "tuple" and row.get("c") and p[1] < len(row["c"]):
            row = body.types[row["c"][p[1]]]
        elif isinstance(p, list) and p[0] == "d":
            continue
        else:
            return None
    return row


def _switch_kinds(fb, b):
    """{bb: ('v'|'t', {discr value: target}, otherwise)} for switches on the discriminant of a ValueRef / a resolved Type"""
    out = {}
    for i, blk in enumerate(b.blocks):
        t = blk["t"]
        if t[0] != "switch":
            continue
        p = op_place(t[1])
        if p is None or p[1]:
            continue
        for d in b.defs_of(p[0]):
            if d[0] == "assign" and d[3][0] == "disc":
                row = _place_row(b, d[3][1])
                if row is None:
                    continue
                row = b.strip_refs(row)
                adt = row.get("adt")
                if adt == VREF:
                    out[i] = ("v", {val: bb for val, bb in t[2]}, t[3])
                elif adt == TYPE:
                    # only the fully resolved type (remove_aliases_cow of self.typ) is comparable between methods
                    src = flow.sources(b, ["c", [d[3][1][0], []]], depth=12)
                    if any(s[0] == "call" and s[1].endswith("remove_aliases_cow") for s in src):
                        out[i] = ("t", {val: bb for val, bb in t[2]}, t[3])
    return out


def _reach_state(b, kinds, v, t):
    seen, q = {0}, [0]
    while q:
        bb = q.pop()
        k = kinds.get(bb)
        if k is not None:
            val = v if k[0] == "v" else t
            nxt = [k[1].get(val, k[2])]
        else:
            nxt = b.succ(bb)
        for s in nxt:
            if s is not None and s not in seen:
                seen.add(s)
                q.append(s)
    return seen


def r12i(fb, rep):
    R = "R12i"
    rep.rule(R, "the serde deserializer never calls its own methods in a cycle on the same value (no unbounded recursion)")
    meths = {}
    for bid, b in fb.bodies.items():
        if b.kind == "fn" and bid.startswith("<&'a mut gluon_vm::api::de::Deserializer<'de, 't> as ") and "Deserializer<'de>>::deserialize_" in bid:
            meths[bid] = b
    if len(meths) < 25:
        rep.anchor_lost(R, "impl serde::Deserializer for &mut api::de::Deserializer (%d methods found)" % len(meths))
        return
    nv, nt = len(fb.adts.get(VREF, {}).get("variants", [])), len(fb.adts.get(TYPE, {}).get("variants", []))
    if not nv or not nt:
        rep.anchor_lost(R, "variants of ValueRef / Type")
        return
    vnames = [x["name"] for x in fb.adts[VREF]["variants"]]
    tnames = [x["name"] for x in fb.adts[TYPE]["variants"]]
    # self-calls on the same value
    edges = {}  # bid -> [(bb, callee)]
    n_edges = 0
    for bid, b in meths.items():
        es = []
        for c in b.calls():
            if c.res in meths and c.args:
                src = flow.sources(b, c.args[0], depth=12)
                if any(s[0] == "call" and s[1].rsplit("::", 1)[-1] in CHILD for s in src):
                    continue
                es.append((c.bb, c.res))
        edges[bid] = es
        n_edges += len(es)
    kinds = {bid: _switch_kinds(fb, b) for bid, b in meths.items()}
    n_sw = sum(len(k) for k in kinds.values())
    cycles = {}
    for v in range(nv):
        for t in range(nt):
            g = {}
            for bid, b in meths.items():
                if not edges[bid]:
                    continue
                r = _reach_state(b, kinds[bid], v, t)
                g[bid] = {callee for bb, callee in edges[bid] if bb in r}
            # find cycles: DFS
            color = {}

            def dfs(n, path):
                color[n] = 1
                for m in g.get(n, ()):
                    if color.get(m) == 1:
                        cyc = path[path.index(m):] if m in path else [m]
                        key = ">".join(sorted(x.rsplit("::", 1)[-1] for x in cyc))
                        cycles.setdefault((key, vnames[v]), set()).add(tnames[t])
                    elif m not in color:
                        dfs(m, path + [m])
                color[n] = 2
            for n in list(g):
                if n not in color:
                    dfs(n, [n])
    if cycles:
        for (key, vn), ts in sorted(cycles.items()):
            b = next(b for bid, b in meths.items() if bid.endswith("::" + key.split(">")[0]))
            rep.violation(R, "no-progress-cycle|%s|%s" % (key, vn), "for a value represented as ValueRef::%s whose resolved type is %s the methods %s of api::de::Deserializer call each "
                          "other on the same value and type without consuming anything: unbounded recursion, the host aborts on stack overflow instead of receiving an error"
                          % (vn, "/".join(sorted(ts)[:6]) + ("/…" if len(ts) > 6 else ""), key.replace(">", " -> ")), b.where())
    else:
        rep.ok(R, "%d methods, %d same-value calls between them, %d discriminant switches resolved: no cycle for any of the %d x %d (representation, type kind) states" % (len(meths), n_edges, n_sw, nv, nt))
    rep.floor(R, "same-value calls between deserializer methods", n_edges, 25)
    rep.floor(R, "ValueRef / Type discriminant switches in the deserializer", n_sw, 16)


# ---------------------------------------------------------------------------------------------------------------------------
def _forward(body, local, depth=10):
    """locals derived from `local` by copies/borrows *and* by being the result of a call that takes a derived local
    (expect / unwrap / clone of the child handle)"""
    out = set(flow.derived_locals(body, local))
    for _ in range(depth):
        more = set()
        for c in body.calls():
            if c.dest is None or c.dest[1] or c.dest[0] in out:
                continue
            last = c.res.rsplit("::", 1)[-1]
            if last in ("expect", "unwrap", "clone", "unwrap_or_else", "into") and any(op_place(a) is not None and op_place(a)[0] in out for a in c.args):
                more.add(c.dest[0])
        if not more:
            break
        for m in more:
            out |= flow.derived_locals(body, m)
    return out


def r12j(fb, rep):
    """R12j — the conversion of a Gluon `std.map` (a binary tree `Bin key value left right | Tip`) to a Rust map visits the whole
    tree: the walker reads all four fields of a `Bin` node, hands *both* children on (to a recursive call of itself or to its work
    list), and — when it is a loop over a work list — leaves the loop only when the list is empty (no exit on a `Tip`, which would
    drop every pending subtree).  A necessary condition for `BTreeMap` / `HashMap` values to come back equal (C11)."""
    R = "R12j"
    rep.rule(R, "the std.map -> Rust map conversion visits both subtrees of every node and only stops when nothing is pending")
    entry = [b for bid, b in fb.bodies.items() if b.kind == "fn" and bid.startswith("<alloc::collections::") and "BTreeMap<K, V> as gluon_vm::api::Getable<" in bid
             and bid.endswith("::from_value")]
    if not entry:
        rep.anchor_lost(R, "<BTreeMap<K, V> as Getable>::from_value")
        return
    walkers = []
    for c in entry[0].calls():
        wb = fb.body(c.res) or fb.body(c.fn)
        if wb is not None and wb.crate.name == "gluon_vm" and any(x.res.endswith("::get_variant") for x in wb.calls()):
            walkers.append(wb)
    if not walkers:
        # the impl walks the tree itself
        if any(x.res.endswith("::get_variant") for x in entry[0].calls()):
            walkers = [entry[0]]
        else:
            rep.anchor_lost(R, "the function that walks the std.map tree (reads Data::get_variant) below BTreeMap::from_value")
            return
    n = 0
    for w in walkers:
        gv = {}
        for c in w.calls():
            if c.res.endswith("::get_variant") and len(c.args) >= 2:
                k = op_const(c.args[1])
                if k is not None and k.get("int") is not None and c.dest is not None and not c.dest[1]:
                    gv.setdefault(k["int"], []).append(c)
        missing = [i for i in (0, 1, 2, 3) if i not in gv]
        if missing:
            rep.violation(R, "node-field-not-read|%s" % ",".join(map(str, missing)), "%s does not read field(s) %s of a Bin node (key, value, left, right)" % (w.id, missing), w.where())
            continue
        for idx, name in ((2, "left"), (3, "right")):
            n += 1
            handed = False
            for c in gv[idx]:
                der = _forward(w, c.dest[0])
                for u in w.calls():
                    if u is c:
                        continue
                    last = u.res.rsplit("::", 1)[-1]
                    is_self = u.res == w.id or u.fn == w.id or u.res.split("::<")[0] == w.id.split("::<")[0]
                    is_push = last in ("push", "push_back", "push_front", "extend", "extend_from_slice")
                    if (is_self or is_push) and any(op_place(a) is not None and op_place(a)[0] in der for a in u.args):
                        handed = True
            if handed:
                rep.ok(R, "%s: the %s child (field %d) is handed on to the walk" % (w.id.rsplit("::", 1)[-1], name, idx))
            else:
                rep.violation(R, "subtree-dropped|%s" % name, "%s reads the %s child of a Bin node but never walks it (neither a recursive call nor a push on a work list receives it)" % (w.id, name), w.where())
        # loop form: the only way out of the loop is the empty work list
        pops = [c for c in w.calls() if c.res.rsplit("::", 1)[-1] in ("pop", "pop_front", "pop_back") and c.dest is not None]
        for pc in pops:
            n += 1
            scc = next((s for s in w.sccs() if pc.bb in s and len(s) > 1), None)
            if scc is None:
                continue
            # exits of the loop: edges from a block of the SCC to a block outside that can reach a return
            rets = {i for i, blk in enumerate(w.blocks) if blk["t"][0] == "ret"}
            # the "empty" exit: the switch on the discriminant of the pop result
            none_edges = set()
            for bb, place, targets, otherwise in _disc_switches(w):
                if bb in scc and place[0] in flow.derived_locals(w, pc.dest[0]):
                    for val, tgt in targets.items():
                        if val == 0:
                            none_edges.add((bb, tgt))
                    if 0 not in targets and otherwise is not None:
                        none_edges.add((bb, otherwise))
            bad = []
            for a in scc:
                for s in w.succ(a):
                    if s in scc or (a, s) in none_edges:
                        continue
                    if rets & w.reachable(s):
                        bad.append((a, s))
            if bad:
                rep.violation(R, "walk-stops-early", "%s leaves its work-list loop while nodes may still be pending (an exit other than the empty-list edge of %s reaches a return): "
                              "the subtrees still on the list are dropped" % (w.id, pc.res.rsplit("::", 1)[-1]), w.where())
            else:
                rep.ok(R, "%s: the work-list loop ends only when %s yields nothing" % (w.id.rsplit("::", 1)[-1], pc.res.rsplit("::", 1)[-1]))
    rep.floor(R, "children / work-list loops of the std.map walker examined", n, 2)


def _disc_switches(b):
    from .common import enum_switches_any
    return list(enum_switches_any(b))


def r12k(fb, rep):
    """R12k — a host call of a Gluon function is stack-neutral on success: `Function::call_first` reads the callee's result with
    `Stack::last()` and must pop that slot on every path to its return.  Marshalling allocates compound values from "the top N
    stack slots" (`Collect`, tuples, records, `push_new_data`, the argument window of the next call) and `BTreeMap: Pushable`
    calls a Gluon function per entry, so a slot left behind by one call shifts the window of the enclosing value: later elements
    of a `Vec<BTreeMap<..>>`, a tuple with a trailing map, nested maps come back as other values (C11, "through a Gluon
    function ... comes back equal")."""
    R = "R12k"
    rep.rule(R, "Function::call_first pops the result slot it read before it returns")
    n = 0
    for bid, b in sorted(fb.bodies.items()):
        if b.kind != "fn" or not bid.endswith("::call_first") or not bid.startswith("gluon_vm::api::function::Function::<"):
            continue
        lasts = [c for c in b.calls() if c.res.endswith("stack::Stack::last") or c.res.endswith("::last") and "stack::" in c.res]
        pops = [c.bb for c in b.calls() if "stack::" in c.res and c.res.rsplit("::", 1)[-1] in ("pop", "pop_many", "pop_value")]
        if not lasts:
            rep.anchor_lost(R, "%s no longer reads its result with Stack::last" % bid)
            continue
        n += 1
        rets = {i for i, blk in enumerate(b.blocks) if blk["t"][0] == "ret"}
        bad = [c for c in lasts if rets & b.reachable(c.target, avoid_blocks=pops)] if all(c.target is not None for c in lasts) else lasts
        sig = bid[bid.index("fn("):bid.rindex(">::call_first")]
        if bad:
            rep.violation(R, "result-left-on-stack|%s" % sig, "%s reads the callee's result with Stack::last() and can return without popping it: every completed host call leaves one slot "
                          "on the thread's stack and compound values marshalled around such calls (maps inside vectors / tuples / maps) take the wrong slots" % bid, bad[0].where())
        else:
            rep.ok(R, "call_first %s: result read with last() and popped on every path to the return" % sig)
    rep.floor(R, "Function::call_first instances", n, 8)


def r12l(fb, rep):
    """R12l — an empty array has no representation of its own.  `ArrayDef` takes the representation of an array from its first
    element, so `Vec::<f64>::new()` pushed from Rust and the Gluon literal `[]` are stored as `Repr::Unknown`;
    `ValueArray::as_slice::<T>` therefore accepts `T::matches(repr) || is_empty()`.  Any other test of `ArrayRepr::matches`
    against an array's representation refuses (or panics on) the empty array of every element type.  Rule (who-may-call): the
    only caller of `ArrayRepr::matches` in the workspace is `ValueArray::as_slice*`, and that caller also asks `is_empty`."""
    R = "R12l"
    rep.rule(R, "the element representation of an array is only tested together with the empty-array exception (ValueArray::as_slice)")
    callers = {}
    for b in fb.bodies.values():
        if b.crate.name not in ("gluon_vm", "gluon", "gluon_c_api"):
            continue
        for c in b.calls():
            if c.res.endswith("ArrayRepr::matches") or ("ArrayRepr" in c.res and c.res.rsplit("::", 1)[-1] == "matches"):
                callers.setdefault(b.id.split("::{closure")[0], []).append(c)
    if not callers:
        rep.anchor_lost(R, "a caller of ArrayRepr::matches (ValueArray::as_slice)")
        return
    for bid, cs in sorted(callers.items()):
        b = fb.body(bid)
        if bid.startswith("gluon_vm::value::ValueArray::as_slice"):
            if b is not None and any(x.res.endswith("ValueArray::is_empty") or x.res.endswith("ValueArray::len") for x in b.calls()):
                rep.ok(R, "%s: matches(repr) || is_empty()" % bid)
            else:
                rep.violation(R, "as-slice-without-empty-exception", "%s tests the representation without the empty-array exception: the empty array of every typed element kind is refused" % bid, cs[0].where())
        else:
            rep.violation(R, "repr-tested-outside-as-slice|%s" % bid, "%s tests an array's representation with ArrayRepr::matches itself: an empty array is stored as Repr::Unknown whatever its element "
                          "type, so the test refuses (or panics on) `[]` / an empty Vec; only ValueArray::as_slice pairs the test with the emptiness exception" % bid, cs[0].where())
