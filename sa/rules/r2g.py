"""R2g — GADT refinement bookkeeping in the type checker (C02).

Matching on a GADT constructor lets the checker *bind rigid (skolem) type variables* for the duration of one match
alternative (`unify_type::State::with_refinement(.., true)`).  Soundness needs the binding to be undone when the
alternative ends: every skolem that the refining unification may bind has to be recorded in
`Typecheck.refined_variables` beforehand, and the alternative's exit has to `reset` each recorded variable.  A binding
that survives makes later code type-check under a stale equation (`a ~ Int`) and the compiled program confuses value
shapes at run time.  Decided structurally:
  (a) who-may-refine: `with_refinement` receives a non-false flag only in `Typecheck::refines`;
  (b) in `refines`, the recorder (the closure that inserts into `refined_variables`) is handed to a *deep* type traversal
      (`types::walk_type*`) of the same type that is then passed as `actual` to the refining `subsumes`, and that traversal
      dominates the unification; a recorder that runs outside such a traversal (e.g. a loop over the top-level arguments)
      misses skolems nested inside type arguments;
  (c) in the match case of `typecheck_`, `refined_variables.enter_scope()` is followed on every path by `exit_scope()`
      before the next alternative / the return, and the variables it yields are fed to `Substitution::reset` in a loop."""
from . import flow
from .facts import op_place, op_const
from .common import enum_switches_any

TC = "gluon_check::typecheck::Typecheck"
DEEP = ("gluon_base::types::walk_type", "gluon_base::types::walk_type_")


def _is_refined_recv(b, op, fb=None):
    if ("field", TC, "refined_variables") in flow.sources(b, op, depth=12):
        return True
    if fb is None or b.kind != "closure":
        return False
    # a captured `&mut self.refined_variables`: which upvar is it, and what did the parent put there
    idxs = _upvars(b, op)
    parent = fb.body(b.id.rsplit("::{closure", 1)[0])
    if parent is None or not idxs:
        return False
    for i, j, pl, rv, ln in parent.assigns():
        if rv[0] == "agg" and rv[1][0] == "closure" and rv[1][1] == b.id:
            for k in idxs:
                if k < len(rv[2]) and ("field", TC, "refined_variables") in flow.sources(parent, rv[2][k], depth=12):
                    return True
    return False


def _upvars(b, op, depth=8):
    """indices of the closure-environment fields an operand is derived from"""
    out = set()
    seen = set()
    work = [op_place(op)]
    while work and depth > 0:
        depth -= 1
        nxt = []
        for p in work:
            if p is None:
                continue
            if p[0] == 1:
                for pr in p[1]:
                    if isinstance(pr, list) and pr[0] == "f":
                        out.add(pr[1])
                        break
                continue
            if p[0] in seen:
                continue
            seen.add(p[0])
            for d in b.defs_of(p[0]):
                if d[0] == "assign":
                    rv = d[3]
                    if rv[0] == "ref":
                        nxt.append(rv[2])
                    elif rv[0] == "use":
                        nxt.append(op_place(rv[1]))
                    elif rv[0] == "cast":
                        nxt.append(op_place(rv[2]))
        work = nxt
    return out


def run(fb, rep):
    R = "R2g"
    rep.rule(R, "GADT refinement: every skolem that may be refined is recorded by a deep traversal and reset when the alternative ends")
    # (a) who may enable refinement
    enabled = []
    n_sites = 0
    for b in fb.bodies.values():
        if b.crate.name != "gluon_check":
            continue
        for c in b.calls():
            if c.res.endswith("unify_type::State::<'a>::with_refinement") and len(c.args) >= 3:
                n_sites += 1
                k = op_const(c.args[2])
                if k is not None and k.get("int") == 0:
                    continue
                enabled.append((b, c))
    rep.floor(R, "with_refinement call sites", n_sites, 2)
    # the refining function is found by role: the one body that enables refinement (today Typecheck::refines)
    if len({b.id for b, c in enabled}) != 1:
        for b, c in enabled[1:]:
            rep.violation(R, "refinement-enabled-elsewhere|%s" % b.id, "%s also enables skolem refinement (only one function may: the recording/reset discipline is checked there)" % b.id, c.where())
        if not enabled:
            rep.anchor_lost(R, "no function enables refinement (with_refinement(.., true))")
            return
    rf = enabled[0][0]
    rep.ok(R, "refinement enabled in one function only: %s (%s)" % (rf.id, enabled[0][1].where()))
    # (b) recorder inside a deep traversal of `actual`
    subs = [c for c in rf.calls() if c.res.endswith("unify_type::subsumes")]
    if not subs:
        rep.anchor_lost(R, "refines -> unify_type::subsumes")
        return
    recorders = set()
    for cl in [rf] + list(fb.closures_of(rf.id)):
        for c in cl.calls():
            if ("scoped_map::ScopedMap" in c.res and c.res.rsplit("::", 1)[1] in ("entry", "insert")) and c.args and _is_refined_recv(cl, c.args[0], fb):
                recorders.add(cl.id)
    if not recorders:
        rep.violation(R, "no-recorder", "Typecheck::refines no longer records the skolems it may refine in refined_variables", rf.where())
        return
    # the registration must land in the scope of the *current* alternative: ScopedMap::entry(..).or_insert(..) is a no-op when an
    # enclosing alternative already registered the variable, ScopedMap::insert always pushes into the current scope
    for cl in [rf] + list(fb.closures_of(rf.id)):
        for c in cl.calls():
            if "scoped_map::ScopedMap" in c.res and c.res.rsplit("::", 1)[1] == "entry" and c.args and _is_refined_recv(cl, c.args[0], fb):
                rep.violation(R, "recorded-in-outer-scope-only", "refines registers a refinable skolem with ScopedMap::entry(..).or_insert(..): when an enclosing match alternative already "
                              "registered it the inner alternative does not, its refinement is not reset at the end of that alternative and leaks into the following alternatives "
                              "of the nested match", c.where())
            elif "scoped_map::ScopedMap" in c.res and c.res.rsplit("::", 1)[1] == "insert" and c.args and _is_refined_recv(cl, c.args[0], fb):
                rep.ok(R, "refines registers the skolem in the current alternative's scope (ScopedMap::insert)")
    actual_srcs = flow.sources(rf, subs[0].args[-1], depth=12)
    actual_args = {s for s in actual_srcs if s[0] == "arg"}
    ok_deep = False
    for c in rf.calls():
        if c.res in DEEP and len(c.args) >= 2:
            s0 = flow.sources(rf, c.args[0], depth=12)
            s1 = flow.sources(rf, c.args[1], depth=12)
            closures = {s[1] for s in s1 if s[0] == "closure"}
            if (closures & recorders) and ({s for s in s0 if s[0] == "arg"} & actual_args) and all(rf.dominates(c.bb, u.bb) for u in subs):
                ok_deep = True
    shallow = rf.id in recorders or not ok_deep
    if ok_deep and rf.id not in recorders:
        rep.ok(R, "refines: the recorder closure runs under walk_type(actual, ..) which dominates the refining subsumes(.., actual)")
    else:
        rep.violation(R, "shallow-recording", "Typecheck::refines records refinable skolems %s: skolems nested inside the scrutinee type's arguments "
                      "are refined by the unifier but never reset" % ("outside a deep traversal of `actual`" if shallow else "?"), rf.where())
    # (c) enter/exit/reset pairing in the match case
    # the match case is found by role: the function that opens a scope of refined_variables
    tcs = [b for b in fb.bodies.values() if b.crate.name == "gluon_check" and b.kind == "fn" and any(
        c.res.endswith("ScopedMap::<K, V>::enter_scope") and c.args and _is_refined_recv(b, c.args[0]) for c in b.calls())]
    if len(tcs) != 1:
        rep.anchor_lost(R, "the function that opens a refined_variables scope per match alternative (%d found)" % len(tcs))
        return
    t = tcs[0]
    enters = [c for c in t.calls() if c.res.endswith("ScopedMap::<K, V>::enter_scope") and c.args and _is_refined_recv(t, c.args[0])]
    exits = [c for c in t.calls() if c.res.endswith("ScopedMap::<K, V>::exit_scope") and c.args and _is_refined_recv(t, c.args[0])]
    resets = [c for c in t.calls() if c.res.endswith("Substitution::<T>::reset")]
    if not enters or not exits or not resets:
        rep.violation(R, "scope-pairing-missing", "typecheck_ no longer has refined_variables.enter_scope / exit_scope / subs.reset (enter=%d exit=%d reset=%d)"
                      % (len(enters), len(exits), len(resets)), t.where())
        return
    xbbs = {c.bb for c in exits}
    for e in enters:
        reach = t.reachable(e.target, avoid_blocks=xbbs)
        if (reach & set(t.return_blocks())) or e.bb in reach:
            rep.violation(R, "alternative-exit-without-reset", "a match alternative can end (next alternative or return) without refined_variables.exit_scope(): "
                          "its refinements stay bound", e.where())
        else:
            rep.ok(R, "match alternative: refined_variables.enter_scope() is always followed by exit_scope() before the next alternative")
    good = False
    for z in resets:
        in_loop = any(z.bb in comp for comp in t.sccs())
        fed = len(z.args) > 1 and flow.has_call(flow.sources(t, z.args[1], depth=14), lambda n: n.endswith("ScopedMap::<K, V>::exit_scope"))
        if in_loop and fed and any(t.dominates(x.bb, z.bb) for x in exits):
            good = True
    if good:
        rep.ok(R, "every variable yielded by refined_variables.exit_scope() is handed to Substitution::reset (loop)")
    else:
        rep.violation(R, "reset-not-fed", "the variables recorded for an alternative are not all reset (Substitution::reset is not called in a loop over exit_scope()'s result)", t.where())


def r2h(fb, rep):
    """R2h — one source of truth for an imported module's type (C02).

    The type checker types `import! m` with the *typechecked* type of m (the `module_type` query behind the environment),
    while the code generator loads whatever value the module store (`gluon_vm::vm::Global` built by a query function) holds.
    `compiler_pipeline::run_io` replaces an `IO a` action by the result of running it and rewrites the type to `a`; that is
    sound for a top-level `run_expr`, whose caller receives type and value together, but not for the module store: with IO
    execution enabled an importer sees `IO a` and finds an `a` ("Cannot call 41").  Rule: run_io is called only by the
    top-level executables, never by a function that builds the stored `Global` of a module."""
    R = "R2h"
    rep.rule(R, "the module store keeps the evaluated module as typed by the checker: run_io only in top-level executables")
    G = "gluon_vm::vm::Global"
    pool = [b for b in fb.bodies.values() if b.kind != "coroutine_post" and b.crate.name == "gluon"] + [b for b in fb.pre.values() if b.crate.name == "gluon"]
    stores = {}
    runs = {}
    for b in pool:
        root = b.get("root") or b.id.split("::{closure")[0]
        if any(rv[0] == "agg" and rv[1][0] == "adt" and rv[1][1] == G for i, j, pl, rv, ln in b.assigns()):
            stores[root] = b
        for c in b.calls():
            if c.res.endswith("compiler_pipeline::run_io"):
                runs.setdefault(root, c)
    rep.floor(R, "functions building a stored module Global", len(stores), 3)
    rep.floor(R, "callers of run_io", len(runs), 1)
    for root, c in sorted(runs.items()):
        if root in stores:
            rep.violation(R, "module-store-runs-io|%s" % root, "%s stores a module after compiler_pipeline::run_io replaced its IO action by the action's result: importers are "
                          "type-checked against `IO a` (module_type) but load an `a`" % root, c.where())
        else:
            rep.ok(R, "%s: run_io at the top level (type and value returned together)" % root)


def r2i(fb, rep):
    """R2i — a visitor that collects the names a *pattern* binds must listen on every hook through which `ast::walk_pattern`
    delivers a binder (C02: the recursion check marks pattern-bound aliases of a not-yet-initialised `rec` value; a binder it does
    not see may be called while it still holds the placeholder: "Cannot call 0").

    The hooks are read from the MIR of `walk_pattern`: the `Visitor` methods it calls with an identifier (`visit_ident` for
    `x` and constructor names, `visit_spanned_ident` for `x@p` and record fields `{ x }`).  Every impl of `ast::Visitor` /
    `MutVisitor` that overrides one of them and leaves the traversal (`visit_pattern`) to the default must override all of them."""
    R = "R2i"
    rep.rule(R, "pattern-binder visitors override every identifier hook that walk_pattern calls")
    hooks = set()
    for bid, b in fb.bodies.items():
        if bid.startswith("gluon_base::ast::") and bid.endswith("::walk_pattern"):
            for c in b.calls():
                fn = c.fn or ""
                if "Visitor::visit_" in fn:
                    m = fn.rsplit("::", 1)[1]
                    if m in ("visit_ident", "visit_spanned_ident", "visit_spanned_typed_ident"):
                        hooks.add(m)
    if len(hooks) < 2:
        rep.anchor_lost(R, "identifier hooks called by ast::walk_pattern (%s)" % sorted(hooks))
        return
    n = 0
    for im in fb.impls:
        tr = im.get("trait") or ""
        if not (tr.startswith("gluon_base::ast::") and tr.endswith("Visitor")):
            continue
        items = {it["name"] for it in im["items"]}
        mine = items & hooks
        if not mine or "visit_pattern" in items or "visit_expr" in items:
            continue  # not a pure binder collector (it drives its own traversal)
        n += 1
        name = im["_crate"].types[im["self"]]["s"]
        missing = hooks - items
        if missing:
            rep.violation(R, "binder-hook-missing|%s|%s" % (name.split("<")[0], ",".join(sorted(missing))),
                          "%s collects pattern binders through %s but not through %s, which ast::walk_pattern also uses for names a pattern introduces "
                          "(as-patterns, record shorthand fields): those names escape the collector" % (name, sorted(mine), sorted(missing)),
                          "%s:%s" % (im.get("file"), im.get("line")))
        else:
            rep.ok(R, "%s overrides %s" % (name, sorted(hooks)))
    rep.floor(R, "pure pattern-binder visitors", n, 1)


def r2j(fb, rep):
    """R2j — record literals: the shortcut that skips the check against the expected record type compares the value fields
    *in order* (C02/C01: value fields are ordered; their order is the run-time layout.  `let r : { x : Int, y : String } =
    { y = "a", x = 2 } in r.x` was accepted because the shortcut compared the names as a set, and read the String as an Int).

    In the record case of the checker's expression function the expected type is dropped (`Option::take`) when the literal
    names exactly the expected fields; the general path (unification of the two row types) is order sensitive, so the shortcut
    must be too: the `take` has to be dominated by an ordered comparison (`Iterator::eq` / `eq_by` / `zip`) of the literal's
    field names with `row_iter()` of the expected type."""
    R = "R2j"
    rep.rule(R, "the record-literal shortcut compares value-field names with the expected row in order before it drops the expected type")
    tcs = [b for b in fb.bodies.values() if b.crate.name == "gluon_check" and b.kind == "fn" and b.id.endswith("::typecheck_")]
    if len(tcs) != 1:
        rep.anchor_lost(R, "Typecheck::typecheck_")
        return
    b = tcs[0]
    rows = [c for c in b.calls() if (c.fn or c.res).endswith("TypeExt::row_iter") or (c.fn or c.res).endswith("TypeExt::type_field_iter")]
    takes = [c for c in b.calls() if c.res.endswith("Option::<T>::take") and c.args and "ModType" in b.local_tstr(op_place(c.args[0])[0])]
    rec_takes = [t for t in takes if any(b.dominates(r.bb, t.bb) for r in rows if (r.fn or r.res).endswith("type_field_iter"))]
    if not rec_takes:
        rep.ok(R, "the record case has no shortcut that drops the expected type")
        return
    ordered = [c for c in b.calls() if (c.fn or "").endswith("Iterator::eq") or (c.fn or "").endswith("Iterator::eq_by") or (c.fn or "").endswith("Iterator::zip")]
    for t in rec_takes:
        good = False
        for c in ordered:
            if not b.dominates(c.bb, t.bb):
                continue
            srcs = set()
            for a in c.args:
                srcs |= flow.sources(b, a, depth=12)
            if flow.has_call(srcs, lambda n: n.endswith("TypeExt::row_iter")):
                good = True
        # a record *update* (`{ x = 1, .. base }`) also has the base's fields, which are not among the written ones: no shortcut then.
        # The test is one conjunct of the condition that guards the take (read from the value flow of that switch: `&&` chains merge
        # through a temporary, so plain dominance does not see the later conjuncts)
        base_tested = False
        for bb, srcs, true_t, false_t in flow.bool_switches(b):
            if flow.has_call(srcs, lambda n: n.startswith("core::option::Option") and n.rsplit("::", 1)[-1] == "is_none") and flow.only_via_edge_threaded(b, t.bb, (bb, true_t)):
                base_tested = True
            if flow.has_call(srcs, lambda n: n.startswith("core::option::Option") and n.rsplit("::", 1)[-1] == "is_some") and flow.only_via_edge_threaded(b, t.bb, (bb, false_t)):
                base_tested = True
        if good and not base_tested:
            rep.violation(R, "record-shortcut-ignores-base", "the record case drops the expected type without first requiring that there is no base record (`.. base`): "
                          "`{ x = 1, .. r } : { x : Int }` is accepted although the value also has r's fields", t.where())
        elif good:
            rep.ok(R, "record literal: expected type dropped only after an ordered comparison of the field names with row_iter() (%s)" % t.where())
        else:
            rep.violation(R, "record-shortcut-unordered", "the record case drops the expected type after comparing field names without regard to their order: "
                          "a literal with the expected fields in another order is accepted although its run-time layout differs from the annotated type", t.where())


def r2k(fb, rep):
    """R2k — the occurs check follows a unified variable to its representative (C02; also what keeps let-generalisation sound).

    `substitution::occurs` walks the type being bound to variable v: it reports v's own occurrence and lowers the
    generalisation level of every unbound variable it meets to v's.  A variable met on the way is resolved with
    `find_type_for_var`; the answer may be a proper type *or the root variable of a union of unbound variables*.  The walker must
    apply itself to that answer (so that a root variable is compared with v and has its level lowered), not only descend into its
    children: a bare variable has no children, the step is silently skipped, an inner `let` is generalised over a variable that is
    still shared with an enclosing lambda parameter, and `f (Box "hello") "world"` is accepted at type Int."""
    R = "R2k"
    rep.rule(R, "the occurs/level walker re-applies itself to the type a variable resolves to")
    ws = [b for b in fb.bodies.values() if b.crate.name == "gluon_check" and "substitution::occurs::Occurs" in b.id and b.id.endswith("::walk")]
    if len(ws) != 1:
        rep.anchor_lost(R, "<substitution::occurs::Occurs as Walker>::walk")
        return
    b = ws[0]
    finds = [c for c in b.calls() if c.res.endswith("Substitution::<T>::find_type_for_var")]
    if not finds:
        rep.anchor_lost(R, "find_type_for_var in the occurs walker")
        return
    rec = [c for c in b.calls() if c.res == b.id or (c.fn or "").endswith("types::Walker::walk")]
    ok = False
    for bb, place, m, other in enum_switches_any(b):
        if not place[1] and place[0] == finds[0].dest[0] and 1 in m:
            some_region = b.reachable(m[1], avoid_blocks=[bb]) - b.reachable([t for v, t in m.items() if v != 1] + ([other] if other is not None else []), avoid_blocks=[bb])
            walked = [c for c in rec if c.bb in some_region]
            # the recursive application receives the resolved type
            if any(flow.has_call(flow.sources(b, c.args[1], depth=10), lambda n: n.endswith("find_type_for_var")) for c in walked if len(c.args) > 1):
                ok = True
    if ok:
        rep.ok(R, "occurs walker: Some(real_type) -> self.walk(real_type)")
    else:
        rep.violation(R, "resolved-variable-not-rewalked", "the occurs walker only descends into the children of the type a variable resolves to: when that type is itself a (root) "
                      "variable neither the occurs test nor the level adjustment is applied to it", finds[0].where())


def r2m(fb, rep):
    """R2m — one notion of record-field order in the unifier (contradiction rule).

    The compiler reads the fields of a closed record by position (`GetOffset` with the index of the field *in the type*), so the
    order of the fields in a type must be the layout of the value.  In the unifier's case for two value rows one branch enforces
    this (`TypeError::FieldMismatch` when the i-th names differ: "HACK For non polymorphic records we need to care about field
    order") while the branch taken as soon as one side has a row variable (`unify_rows`) matches the fields by name.  Both cannot
    be right: a row that was matched by name can later be closed and is then read by position."""
    R = "R2m"
    rep.rule(R, "row unification treats field order the same way whether or not a row variable is involved")
    bs = [b for bid, b in fb.bodies.items() if b.crate.name == "gluon_check" and bid.endswith("unify_type::do_zip_match")]
    if len(bs) != 1:
        rep.anchor_lost(R, "unify_type::do_zip_match")
        return
    b = bs[0]
    pool = [b] + list(fb.closures_of(b.id))
    ordered = [x for x in pool if flow.blocks_constructing(x, "gluon_check::unify_type::TypeError", "FieldMismatch")]
    by_name = [c for x in pool for c in x.calls() if c.res.endswith("unify_type::unify_rows")]
    if ordered and by_name:
        rep.violation(R, "row-order-contradiction", "do_zip_match enforces field order for closed rows (FieldMismatch) but unifies rows by field name as soon as one side has a row "
                      "variable (unify_rows): `id_x { y = 'a', x = 1 }` at `{ x : Int | r } -> { x : Int | r }` yields a value laid out [y, x] typed { x, y | r }, which "
                      "can then be closed and read by position", by_name[0].where())
    elif ordered or by_name:
        rep.ok(R, "do_zip_match: a single treatment of field order (%s)" % ("positional" if ordered else "by name"))
    else:
        rep.anchor_lost(R, "row cases of do_zip_match")


def r2n(fb, rep):
    """R2n — a skolem (rigid type variable) is identified by its id, never by its name.  Two signatures may both say `forall a`;
    the skolems they introduce share the name and nothing else.  A unifier that also accepts `l.name == r.name` lets a value
    typed by the outer `a` flow into a position typed by an inner, shadowing `a` (`let g y : forall a . a -> a = x`): the
    program is accepted at a type its value does not have.  Rule: in the type unifier (`check/src/unify_type.rs`) the
    Skolem-Skolem case compares the `id` fields, and no equality test anywhere in that file has a `Skolem.name` on both sides."""
    R = "R2n"
    rep.rule(R, "the unifier identifies skolems by id, never by name")
    SK = "gluon_base::types::Skolem"
    n_id = 0
    bad = []
    for b in fb.bodies.values():
        if b.crate.name != "gluon_check" or not b.file.endswith("check/src/unify_type.rs"):
            continue
        for i, j, pl, rv, ln in b.assigns():
            if rv[0] == "bin" and rv[1] in ("Eq", "Ne"):
                l, r_ = flow.sources(b, rv[2], depth=8), flow.sources(b, rv[3], depth=8)
                if ("field", SK, "id") in l and ("field", SK, "id") in r_:
                    n_id += 1
        for c in b.calls():
            last = c.res.rsplit("::", 1)[-1]
            if last in ("eq", "ne") and "PartialEq" in c.res and len(c.args) >= 2:
                l, r_ = flow.sources(b, c.args[0], depth=8), flow.sources(b, c.args[1], depth=8)
                if ("field", SK, "name") in l and ("field", SK, "name") in r_:
                    bad.append((b, c))
    for b, c in bad:
        rep.violation(R, "skolems-unified-by-name|%s" % b.id.split("::{closure")[0].rsplit("::", 1)[-1], "%s compares the names of two skolems: rigid variables of different "
                      "signatures that merely share a name (`forall a` twice) unify, so a program is accepted at a type its value does not have" % b.id, c.where())
    if not bad and n_id:
        rep.ok(R, "unify_type.rs: skolems are compared by id (%d comparison(s)); no name-to-name comparison" % n_id)
    rep.floor(R, "skolem id comparisons in the unifier", n_id, 1)
