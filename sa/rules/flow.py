"""Intra-procedural value-flow helpers over the MIR facts (flow-insensitive on locals: MIR
temporaries are single-assignment in practice; user variables assigned several times simply
contribute the union of their definitions, which is the conservative direction for every rule
that uses these helpers)."""
from .facts import op_place, op_const, rvalue_operands, Call


def _place_sources(body, place, acc, seen, depth, through_calls):
    local, projs = place
    for p in projs:
        if isinstance(p, list) and p[0] == "f" and len(p) == 4:
            acc.add(("field", p[1], p[3]))
            acc.add(("vfield", p[1], p[2], p[3]))
        if isinstance(p, list) and p[0] == "i":
            _local_sources(body, p[1], acc, seen, depth, through_calls)
    _local_sources(body, local, acc, seen, depth, through_calls)


def _operand_sources(body, op, acc, seen, depth, through_calls):
    p = op_place(op)
    if p is not None:
        _place_sources(body, p, acc, seen, depth, through_calls)
        return
    k = op_const(op)
    if k is None:
        return
    if "int" in k:
        acc.add(("const", k["int"]))
    elif "str" in k:
        acc.add(("str", k["str"]))
    elif "fn" in k:
        acc.add(("fnref", k.get("res") or k["fn"]))
    elif "promoted" in k:
        acc.add(("promoted", k["promoted"]))
    elif "item" in k:
        acc.add(("item", k["item"]))
    elif "closure" in k:
        acc.add(("closure", k["closure"]))
    else:
        acc.add(("const", None))


def _local_sources(body, local, acc, seen, depth, through_calls):
    if local in seen or depth <= 0:
        return
    seen.add(local)
    argc = body.get("argc", 0)
    if 1 <= local <= argc:
        acc.add(("arg", local))
    for i, blk in enumerate(body.blocks):
        for st in blk["s"]:
            if st[0] == "=" and st[1][0] == local and "*" not in st[1][1]:
                rv = st[2]
                k = rv[0]
                if k == "bin":
                    acc.add(("op", rv[1]))
                elif k == "un":
                    acc.add(("op", rv[1]))
                elif k == "agg":
                    kd = rv[1]
                    if kd[0] == "adt":
                        acc.add(("agg", kd[1], kd[2]))
                    elif kd[0] in ("closure", "coroutine"):
                        acc.add((kd[0], kd[1]))
                elif k == "disc":
                    acc.add(("op", "discriminant"))
                if k in ("ref",):
                    _place_sources(body, rv[2], acc, seen, depth - 1, through_calls)
                elif k in ("rawptr", "disc"):
                    _place_sources(body, rv[1], acc, seen, depth - 1, through_calls)
                else:
                    for o in rvalue_operands(rv):
                        _operand_sources(body, o, acc, seen, depth - 1, through_calls)
        t = blk["t"]
        if t[0] == "call" and t[3][0] == local and "*" not in t[3][1]:
            c = Call(body, i, t)
            for n in c.names():
                acc.add(("call", n))
            if c.is_ptr():
                acc.add(("call", "<fnptr>"))
            if through_calls:
                for a in c.args:
                    _operand_sources(body, a, acc, seen, depth - 1, through_calls)
        if t[0] == "yield" and False:
            pass


def sources(body, x, depth=16, through_calls=True):
    """Set of value sources of an operand (['c'|'m'|'k', ..]) or a place ([local, projs]).
    Elements: ('field', adt, field) ('call', name) ('arg', n) ('const', v) ('str', s) ('op', BinOp)
    ('agg', adt, variant) ('fnref', path) ('closure', path) ..."""
    acc = set()
    seen = set()
    if isinstance(x, list) and x and x[0] in ("c", "m", "k"):
        _operand_sources(body, x, acc, seen, depth, through_calls)
    elif isinstance(x, int):
        _local_sources(body, x, acc, seen, depth, through_calls)
    else:
        _place_sources(body, x, acc, seen, depth, through_calls)
    return acc


def has_field(srcs, adt, field):
    return ("field", adt, field) in srcs


def has_call(srcs, pred):
    return any(s[0] == "call" and pred(s[1]) for s in srcs)


def comparison_switches(body):
    """yield (bb, op, lhs_operand, rhs_operand, true_target, false_target) for every switch on a local bool
    defined by a comparison BinOp"""
    for i, blk in enumerate(body.blocks):
        t = blk["t"]
        if t[0] != "switch":
            continue
        p = op_place(t[1])
        if p is None or p[1]:
            continue
        local = p[0]
        for d in body.defs_of(local):
            if d[0] == "assign" and d[3][0] == "bin" and d[3][1] in ("Ge", "Gt", "Le", "Lt", "Eq", "Ne"):
                rv = d[3]
                false_t = None
                true_t = None
                for val, bb in t[2]:
                    if val == 0:
                        false_t = bb
                    elif val == 1:
                        true_t = bb
                if false_t is None:
                    false_t = t[3]
                if true_t is None:
                    true_t = t[3]
                yield i, rv[1], rv[2], rv[3], true_t, false_t


def bool_switches(body):
    """yield (bb, source_set, true_target, false_target) for every switch on a bool-typed local"""
    for i, blk in enumerate(body.blocks):
        t = blk["t"]
        if t[0] != "switch":
            continue
        p = op_place(t[1])
        if p is None:
            continue
        if body.local_tstr(p[0]) != "bool" or p[1]:
            continue
        false_t = true_t = None
        for val, bb in t[2]:
            if val == 0:
                false_t = bb
            elif val == 1:
                true_t = bb
        if false_t is None:
            false_t = t[3]
        if true_t is None:
            true_t = t[3]
        yield i, sources(body, p), true_t, false_t


def only_via_edge(body, target_bb, edge):
    """True iff every normal-flow path from entry to target_bb uses `edge` (a, b)"""
    return target_bb not in body.reachable(0, avoid_edges=[edge])


def only_via_edge_threaded(body, target_bb, edge):
    """like only_via_edge, but following constant-assigned bool flags (a decision taken on `edge` and acted upon later
    through `if flag`)"""
    return target_bb not in body.reachable_threaded(0, avoid_edges=[edge])


def blocks_constructing(body, adt, variant=None):
    """blocks containing an aggregate construction of adt[::variant]"""
    out = []
    for i, j, place, rv, line in body.assigns():
        if rv[0] == "agg" and rv[1][0] == "adt" and rv[1][1] == adt and (variant is None or rv[1][2] == variant):
            out.append(i)
    return out


def field_writes(body, adt, field):
    """Direct writes: yield (bb, stmt_idx, rvalue, line, kind) for assignments whose destination place ends in
    adt.field (kind='assign'), and mutable borrows of a place through the field (kind='refmut')."""
    for i, j, place, rv, line in body.assigns():
        projs = place[1]
        if projs:
            last = projs[-1]
            if isinstance(last, list) and last[0] == "f" and len(last) == 4 and last[1] == adt and last[3] == field:
                yield i, j, rv, line, "assign"
        if rv[0] == "ref" and rv[1]:
            for p in rv[2][1]:
                if isinstance(p, list) and p[0] == "f" and len(p) == 4 and p[1] == adt and p[3] == field:
                    yield i, j, rv, line, "refmut"
        if rv[0] == "rawptr":
            for p in rv[1][1]:
                if isinstance(p, list) and p[0] == "f" and len(p) == 4 and p[1] == adt and p[3] == field:
                    yield i, j, rv, line, "rawptr"
    for i, blk in enumerate(body.blocks):
        t = blk["t"]
        if t[0] == "call":
            projs = t[3][1]
            if projs:
                last = projs[-1]
                if isinstance(last, list) and last[0] == "f" and len(last) == 4 and last[1] == adt and last[3] == field:
                    yield i, -1, ["callresult", Call(body, i, t)], t[6], "assign"


def uses_of_local(body, local):
    """calls that take `local` (moved/copied, no projections) as an argument: yield (Call, arg_index)"""
    for c in body.calls():
        for ai, a in enumerate(c.args):
            p = op_place(a)
            if p is not None and p[0] == local:
                yield c, ai


def derived_locals(body, local, depth=8):
    """locals that are (re)borrows / copies / casts of `local` (forward closure)"""
    out = {local}
    changed = True
    while changed and depth > 0:
        changed = False
        depth -= 1
        for i, j, place, rv, line in body.assigns():
            if place[1] or place[0] in out:
                continue
            srcs = []
            if rv[0] == "use" or rv[0] == "cast":
                o = rv[1] if rv[0] == "use" else rv[2]
                p = op_place(o)
                if p is not None:
                    srcs.append(p[0])
            elif rv[0] == "ref":
                srcs.append(rv[2][0])
            elif rv[0] == "rawptr":
                srcs.append(rv[1][0])
            if any(s in out for s in srcs):
                out.add(place[0])
                changed = True
    return out
