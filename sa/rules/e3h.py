"""E3h — no fallible VM operation is unwrapped while the thread's context is locked (C06).

`Thread.context` is a poisoning `std::sync::Mutex`; every access is `lock().unwrap()`.  A panic while a guard is alive makes the
thread permanently unusable, and inside a primitive the barrier of E3a catches the panic only to abort on its own re-lock.  The
operations that scripts can make fail are the allocating ones (`OutOfMemory` under a memory limit, `StackOverflow`).  Rule: in
every function of `gluon_vm` / `gluon` that owns a context guard (a local of type `ActiveThread`, `OwnedContext` or
`MutexGuard<Context>`), an `unwrap`/`expect` of a `Result<_, gluon_vm::Error>` is accepted only if the call that produced the
Result resolves to a body that cannot return `Err` (no `Err` construction and no `?` in it or, two levels deep, in its
callees); the others must be in `tables/context_unwrap_reviewed.json` (function | producing callee, with the reason)."""
from . import flow
from .common import table
from .facts import op_place

GUARDS = ("gluon_vm::thread::ActiveThread<", "gluon_vm::thread::OwnedContext<", "std::sync::MutexGuard<'_, gluon_vm::thread::Context>")


def _can_fail(fb, name, depth=0, seen=None):
    seen = seen if seen is not None else set()
    if name in seen:
        return False
    seen.add(name)
    b = fb.body(name) or fb.body(name.split("#")[0])
    if b is None:
        return True  # unresolved / foreign: assume fallible
    for i, j, pl, rv, ln in b.assigns():
        if rv[0] == "agg" and rv[1][0] == "adt" and rv[1][1] == "core::result::Result" and rv[1][2] == "Err":
            return True
    for c in b.calls():
        if c.res.endswith("FromResidual<core::result::Result<core::convert::Infallible, E>>>::from_residual") or c.res.endswith("::from_residual"):
            return True
    if depth >= 2:
        return any(_ret_result(b, c) for c in b.calls())
    for c in b.calls():
        if _ret_result(b, c) and _can_fail(fb, c.res, depth + 1, seen):
            return True
    return False


def _producers(b, local, depth=4):
    """the calls whose result is (moved into) `local`"""
    out, work, seen = [], [local], set()
    while work and depth > 0:
        depth -= 1
        nxt = []
        for l in work:
            if l in seen:
                continue
            seen.add(l)
            for d in b.defs_of(l):
                if d[0] == "call":
                    out.append(d[2].res)
                elif d[0] == "assign" and d[3][0] in ("use", "cast"):
                    o = d[3][1] if d[3][0] == "use" else d[3][2]
                    q = op_place(o)
                    if q is not None and not q[1]:
                        nxt.append(q[0])
        work = nxt
    return out


def _ret_result(b, c):
    if c.dest is None:
        return False
    t = b.local_tstr(c.dest[0]) if not c.dest[1] else ""
    return t.startswith("core::result::Result<") and "gluon_vm::Error>" in t


def run(fb, rep):
    R = "E3h"
    rep.rule(R, "no fallible VM operation is unwrapped while the thread context is locked")
    reviewed = {e["site"]: e["reason"] for e in table("context_unwrap_reviewed.json")["reviewed"]}
    n = n_inf = 0
    seen_keys = set()
    for b in fb.bodies.values():
        if b.crate.name not in ("gluon_vm", "gluon") or b.kind == "promoted" or "::tests::" in b.id or b.kind == "coroutine_post":
            continue
        holds = any(b.local_tstr(i).startswith(GUARDS) or b.local_tstr(i).startswith(tuple("&mut " + g for g in GUARDS)) or b.local_tstr(i).startswith(tuple("&'_ mut " + g for g in GUARDS)) for i in range(len(b.d["locals"])))
        if not holds:
            continue
        for c in b.calls():
            if not (c.res.endswith("Result::<T, E>::unwrap") or c.res.endswith("Result::<T, E>::expect")) or not c.args:
                continue
            p = op_place(c.args[0])
            if p is None or "gluon_vm::Error>" not in b.local_tstr(p[0]):
                continue
            n += 1
            prods = _producers(b, p[0])
            fallible = [x for x in prods if _can_fail(fb, x)] if prods else ["?"]
            if not fallible:
                n_inf += 1
                continue
            root = _norm(b.get("root") or b.id.split("::{closure")[0])
            key = "%s|%s" % (root, _norm(fallible[0]).rsplit("::", 2)[-2] + "::" + fallible[0].rsplit("::", 1)[-1].split("#")[0] if "::" in fallible[0] else fallible[0])
            if key in seen_keys:
                continue
            seen_keys.add(key)
            if key in reviewed:
                rep.exception(R, key, reviewed[key])
                rep.ok(R, "%s: reviewed" % key)
            else:
                rep.violation(R, "context-held-unwrap|%s" % key, "%s unwraps the result of %s, which can fail (out of memory / stack overflow), while it holds the thread's context: the panic "
                              "poisons the context mutex (inside a primitive the barrier's re-lock then aborts the process)" % (b.id, fallible[0]), c.where())
    rep.ok(R, "%d unwraps of vm results in context-holding functions; %d of them on operations that cannot fail" % (n, n_inf))
    rep.floor(R, "unwraps of vm results in context-holding functions", n, 20)


def _norm(s):
    import re
    s = re.sub(r"fn\([A-Z, ]*\) -> (R|gluon_vm::api::IO<R>)", "fn(..) -> R", s)
    s = re.sub(r"<\(dyn core::ops::function::Fn\([A-Z, ]*\) -> R \+ 'static\) as ", "<fn(..) -> R as ", s)
    return s
