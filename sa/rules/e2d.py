"""E2d — the compiler's static stack accounting agrees with the interpreter (C07).

`Instruction::adjust` is what `FunctionEnv::emit` uses to maintain `stack_size` and hence `max_stack_size`, the bound
that the frame-entry check reserves. For every instruction whose run-time effect on the value stack is a fixed linear
function of its operands, the net effect of its arm in `ExecuteContext::execute_` (push +1, pop -1, pop_many(n) -n,
slide(n) -n, binop_* -1; summed along every path from the arm to the next fetch; all paths must agree) must equal the
arm of `adjust`. An `adjust` that is too small silently under-reserves: the value stack is a growable Vec, so no test
fails — only the limit stops being a bound. Data-dependent instructions are compared against a reasoned table."""
from . import flow
from .common import table, enum_switches, variant_names
from .facts import op_place, op_const

INSTR = "gluon_vm::types::Instruction"
EFFECT = {"push": 1, "pop": -1, "top": 0}


def _lin_add(a, b):
    out = dict(a)
    for k, v in b.items():
        out[k] = out.get(k, 0) + v
    return {k: v for k, v in out.items() if v != 0}


def _lin_scale(a, s):
    return {k: v * s for k, v in a.items() if v * s != 0}


def _amount(body, op, variant):
    """linear form of an operand: {1: const} / {field: coeff}; None if not understood"""
    k = op_const(op)
    if k is not None:
        return {1: k["int"]} if "int" in k else None
    srcs = flow.sources(body, op, depth=8)
    fields = {s[3] for s in srcs if s[0] == "vfield" and s[1] == INSTR and s[2] == variant}
    tuple_fields = {s[3] for s in srcs if s[0] == "vfield" and s[1] == INSTR}
    ops = {s[1] for s in srcs if s[0] == "op"}
    consts = {s[1] for s in srcs if s[0] == "const"}
    if len(fields) == 1 and not (ops - set()) and not flow.has_call(srcs, lambda n: True):
        return {next(iter(fields)): 1}
    if len(fields) == 1 and not ops:
        return {next(iter(fields)): 1}
    return None


def interpreter_effects(fb):
    b = fb.body("gluon_vm::thread::ExecuteContext::<'b, 'gc>::execute_")
    if b is None:
        return None, None
    names = variant_names(fb, INSTR)
    main = [(i, m, o) for i, m, o in enum_switches(b, INSTR) if len(m) >= 20]
    if not main:
        return b, None
    sw, m, other = main[0]
    fetch = {c.bb for c in b.calls() if c.res.endswith("ProgramCounter::<'a>::instruction")}
    out = {}
    for idx, t in m.items():
        vn = names[idx]
        others = [x for x in m.values() if x != t] + [other]
        excl = b.reachable(t, avoid_blocks=[sw]) - b.reachable(others, avoid_blocks=[sw])
        # per-block effect
        eff = {}
        special = None
        for bb in excl:
            e = {}
            term = b.term(bb)
            if term[0] == "call":
                from .facts import Call
                c = Call(b, bb, term)
                nm = c.res
                short = nm.rsplit("::", 1)[1]
                recv_is_stack = c.args and ("stack" in nm.lower() or "StackFrame" in nm or nm.startswith("gluon_vm::thread::binop"))
                if nm.startswith("gluon_vm::thread::binop_"):
                    e = {1: -1}
                elif "stack::" in nm and short in EFFECT:
                    e = {1: EFFECT[short]} if EFFECT[short] else {}
                elif "stack::" in nm and short in ("pop_many", "slide"):
                    a = _amount(b, c.args[1], vn) if len(c.args) > 1 else None
                    if a is None:
                        special = special or "%s(<expr>)" % short
                    else:
                        e = _lin_scale(a, -1)
                elif "stack::" in nm and short in ("extend", "insert_slice", "remove_range", "truncate", "clear", "drain"):
                    special = special or short
                elif short in ("do_call", "exit_scope", "enter_scope", "call_function_with_upvars"):
                    special = special or short
            eff[bb] = e
        # path enumeration from t to a fetch block / back to the dispatch switch (bounded)
        results = set()
        count = [0]

        def dfs(bb, acc, seen):
            count[0] += 1
            if count[0] > 20000:
                results.add("explosion")
                return
            acc2 = _lin_add(acc, eff.get(bb, {}))
            succ = [s for s in b.succ(bb)]
            if not succ:
                return  # error return / diverging: not a completed instruction
            for s in succ:
                if s in fetch or s == sw or s not in excl:
                    if s in fetch or s == sw or (b.reachable(s, avoid_blocks=[sw]) & fetch):
                        # leaves the arm towards the next fetch: completed
                        if s in excl:
                            continue
                        # only count edges that really go on to the loop (not to an error return)
                        if _reaches_loop(b, s, fetch, sw):
                            results.add(tuple(sorted(acc2.items(), key=str)))
                    continue
                if s in seen:
                    continue
                dfs(s, acc2, seen | {s})
        dfs(t, {}, {t})
        out[vn] = {"special": special, "effects": results}
    return b, out


_loop_cache = {}


def _reaches_loop(b, s, fetch, sw):
    key = (b.id, s)
    if key not in _loop_cache:
        r = b.reachable(s)
        _loop_cache[key] = bool(r & fetch) and True
    return _loop_cache[key]


def adjust_table(fb):
    b = fb.body("gluon_vm::types::Instruction::adjust")
    if b is None:
        return None, None
    names = variant_names(fb, INSTR)
    main = [(i, m, o) for i, m, o in enum_switches(b, INSTR) if len(m) >= 20]
    if not main:
        return b, None
    sw, m, other = main[0]
    out = {}
    for idx, t in m.items():
        vn = names[idx]
        # evaluate _0 along the (straight-line) arm
        env = {}
        cur = t
        val = None
        for _ in range(12):
            for st in b.stmts(cur):
                if st[0] != "=":
                    continue
                place, rv = st[1], st[2]
                v = _eval(b, rv, env, vn)
                if not place[1]:
                    env[place[0]] = v
                    if place[0] == 0:
                        val = v
            term = b.term(cur)
            if term[0] in ("assert", "goto"):
                cur = term[4] if term[0] == "assert" else term[1]
                continue
            break
        out[vn] = val
    return b, out


def _eval(b, rv, env, variant):
    k = rv[0]

    def ev_op(o):
        c = op_const(o)
        if c is not None:
            return {1: c["int"]} if "int" in c else None
        p = op_place(o)
        if p is None:
            return None
        if not p[1]:
            return env.get(p[0])
        # tuple field .0 of a checked-arithmetic result
        if len(p[1]) == 1 and p[1][0] == ["f", 0]:
            return env.get(p[0])
        fs = [x for x in p[1] if isinstance(x, list) and x[0] == "f" and len(x) == 4 and x[1] == INSTR]
        if fs:
            return {fs[-1][3]: 1}
        return None
    if k == "use":
        return ev_op(rv[1])
    if k == "cast":
        return ev_op(rv[2])
    if k == "un" and rv[1] == "Neg":
        v = ev_op(rv[2])
        return _lin_scale(v, -1) if v is not None else None
    if k == "bin":
        a, c = ev_op(rv[2]), ev_op(rv[3])
        if a is None or c is None:
            return None
        if rv[1].startswith("Sub"):
            return _lin_add(a, _lin_scale(c, -1))
        if rv[1].startswith("Add"):
            return _lin_add(a, c)
    return None


def _fmt(lin):
    if lin is None:
        return "?"
    if not lin:
        return "0"
    parts = []
    for k, v in sorted(lin.items(), key=str):
        parts.append(("%+d" % v) if k == 1 else ("%+d*%s" % (v, k)))
    return " ".join(parts)


def run(fb, rep):
    R = "E2d"
    rep.rule(R, "Instruction::adjust equals the interpreter's net stack effect for every fixed-effect instruction")
    special = {e["instr"]: e["reason"] for e in table("stack_effect_special.json")["special"]}
    ib, eff = interpreter_effects(fb)
    ab, adj = adjust_table(fb)
    if eff is None or adj is None:
        rep.anchor_lost(R, "execute_ dispatch / Instruction::adjust")
        return
    rep.floor(R, "instruction arms examined", len(eff), 40)
    compared = 0
    for vn in sorted(eff):
        a = adj.get(vn)
        e = eff[vn]
        if vn in special:
            rep.exception(R, vn, special[vn])
            continue
        if e["special"] or "explosion" in e["effects"] or not e["effects"]:
            rep.violation(R, "effect-not-fixed|%s" % vn, "the interpreter arm of %s has a data-dependent stack effect (%s) and is not in tables/stack_effect_special.json" % (vn, e["special"] or "no completed path"), ib.where())
            continue
        effs = {tuple(x) for x in e["effects"]}
        if len(effs) != 1:
            rep.violation(R, "paths-disagree|%s" % vn, "paths through the %s arm leave different stack heights: %s" % (vn, [_fmt(dict(x)) for x in effs]), ib.where())
            continue
        got = dict(next(iter(effs)))
        if a is None:
            rep.violation(R, "adjust-not-understood|%s" % vn, "Instruction::adjust for %s is not a linear expression of its operands" % vn, ab.where())
            continue
        compared += 1
        # the static account must never be below the real effect (operands are unsigned): adjust - interpreter >= 0
        diff = _lin_add(a, _lin_scale(got, -1))
        if got == a:
            rep.ok(R, "%s: interpreter %s == adjust %s" % (vn, _fmt(got), _fmt(a)))
        elif all(v >= 0 for v in diff.values()):
            rep.ok(R, "%s: interpreter %s <= adjust %s (over-reserves by %s)" % (vn, _fmt(got), _fmt(a), _fmt(diff)))
        else:
            rep.violation(R, "adjust-too-small|%s" % vn, "%s: the interpreter changes the stack by %s but Instruction::adjust says %s: max_stack_size under-reserves and the stack limit stops being a bound" % (vn, _fmt(got), _fmt(a)), ab.where())
    rep.floor(R, "instructions compared", compared, 30)
    emit_discipline(fb, rep)


def emit_discipline(fb, rep):
    """every instruction enters a function's code through FunctionEnv::emit, which feeds adjust() into the account"""
    R = "E2d"
    CF = "gluon_vm::compiler::CompiledFunction"
    emit = fb.body("gluon_vm::compiler::FunctionEnv::emit")
    if emit is None:
        rep.anchor_lost(R, "FunctionEnv::emit")
        return
    adj = [c for c in emit.calls() if c.res == "gluon_vm::types::Instruction::adjust"]
    inc = [c for c in emit.calls() if c.res.endswith("FunctionEnv::increase_stack")]
    ok = bool(adj) and bool(inc) and any(flow.has_call(flow.sources(emit, c.args[1]), lambda n: n.endswith("Instruction::adjust")) for c in inc)
    # the negative branch subtracts from stack_size
    subs = [1 for bb, j, rv, ln, kind in flow.field_writes(emit, "gluon_vm::compiler::FunctionEnv", "stack_size")
            if kind == "assign" and rv[0] == "use" and any(s[0] == "op" and s[1].startswith("Sub") for s in flow.sources(emit, rv[1]))]
    if ok and subs:
        rep.ok(R, "FunctionEnv::emit: adjust() > 0 -> increase_stack(adjust) else stack_size -= -adjust")
    else:
        rep.violation(R, "emit-ignores-adjust", "FunctionEnv::emit no longer feeds Instruction::adjust into the stack account", emit.where())
    pushers = set()
    for b in fb.bodies.values():
        if b.crate.name != "gluon_vm":
            continue
        for bb, j, rv, line, kind in flow.field_writes(b, CF, "instructions"):
            if kind != "refmut":
                continue
            dest = b.stmts(bb)[j][1][0]
            locs = flow.derived_locals(b, dest)
            for c in b.calls():
                if c.args and op_place(c.args[0]) is not None and op_place(c.args[0])[0] in locs:
                    if c.res.endswith("::push") or "::extend" in c.res or "::insert" in c.res or "::append" in c.res:
                        # appending the final `Return` (adjust 0, leaves the frame) is not a stack effect
                        vs = flow.sources(b, c.args[1]) if len(c.args) > 1 else set()
                        aggs = {s[2] for s in vs if s[0] == "agg" and s[1] == INSTR}
                        if c.res.endswith("::push") and aggs == {"Return"}:
                            continue
                        pushers.add(b.id)
    for p_ in sorted(pushers):
        if p_ == emit.id or "Deserialize" in p_ or "deserialize" in p_:
            rep.ok(R, "%s appends to CompiledFunction.instructions" % p_)
        else:
            rep.violation(R, "instruction-pushed-outside-emit|%s" % p_, "%s appends instructions without going through FunctionEnv::emit (the stack account misses them)" % p_, "")
    rep.floor(R, "functions appending instructions", len(pushers), 1)
