"""R12f — the two marshalling directions and the Gluon declaration agree on constructor tags (C11).

For the Rust sum types that cross the boundary as Gluon variants (`bool`, `Ordering`, `Option<T>`, `Result<T, E>`):
  push(V)  = the tag `Pushable::vm_push` writes for Rust variant V (operand of `ValueRepr::Tag`, or the tag argument of
             `push_new_data`), read by walking the CFG under the assumption "self is V" with constant propagation;
  get(t)   = the Rust variant `Getable::from_value` builds when `Data::tag()` returns t (same walk, the tag local bound to t,
             comparisons with constants evaluated);
  decl(C)  = the index of constructor C in the declaration of the type in std/types.glu (the tag the Gluon compiler assigns).
Required: get(push(V)) = V and push(V) = decl(name of V) for every V. A value that comes back as another variant, or
that Gluon code sees as another constructor, breaks C11's round trip / "observes the corresponding Gluon value" clause.
Payload conversion is delegated to the element types and not decided here."""
import os
import re

from . import flow
from .facts import op_place, op_const, Call

TYPES = [
    # (label, self type string in impl ids, Rust ADT path or None for bool, {rust variant: gluon ctor}, gluon type name)
    ("bool", "bool", None, {"false": "False", "true": "True"}, "Bool"),
    ("Ordering", "core::cmp::Ordering", "core::cmp::Ordering", {"Less": "LT", "Equal": "EQ", "Greater": "GT"}, "Ordering"),
    ("Option", "core::option::Option<T>", "core::option::Option", {"None": "None", "Some": "Some"}, "Option"),
    ("Result", "core::result::Result<T, E>", "core::result::Result", {"Ok": "Ok", "Err": "Err"}, "Result"),
]
DISC = {"core::cmp::Ordering": {"Less": 255, "Equal": 0, "Greater": 1}, "core::option::Option": {"None": 0, "Some": 1},
        "core::result::Result": {"Ok": 0, "Err": 1}}
MAXPATHS = 400


def _eval(env, op):
    k = op_const(op)
    if k is not None:
        return k.get("int")
    p = op_place(op)
    if p is not None and not p[1]:
        return env.get(p[0])
    return None


def _walk(b, start_env, on_block, role_switch):
    """enumerate paths from block 0 with a constant environment; role_switch(bb, env) -> forced value or None.
    on_block(bb, env) may return a result, which ends the path. Paths into diverging blocks are dropped."""
    results = []
    stack = [(0, dict(start_env), frozenset())]
    n = 0
    while stack and n < MAXPATHS:
        bb, env, seen = stack.pop()
        if bb in seen:
            continue
        n += 1
        seen = seen | {bb}
        blk = b.blocks[bb]
        for st in blk["s"]:
            if st[0] != "=":
                continue
            place, rv = st[1], st[2]
            if place[1]:
                continue
            v = None
            if rv[0] == "use":
                v = _eval(env, rv[1])
            elif rv[0] == "cast":
                v = _eval(env, rv[2])
            elif rv[0] == "bin" and rv[1] in ("Eq", "Ne", "Lt", "Le", "Gt", "Ge"):
                x, y = _eval(env, rv[2]), _eval(env, rv[3])
                if x is not None and y is not None:
                    v = int({"Eq": x == y, "Ne": x != y, "Lt": x < y, "Le": x <= y, "Gt": x > y, "Ge": x >= y}[rv[1]])
            elif rv[0] == "un" and rv[1] == "Not":
                x = _eval(env, rv[2])
                v = None if x is None else int(not x)
            if v is None:
                env.pop(place[0], None)
            else:
                env[place[0]] = v
        r = on_block(bb, env)
        if r is not None:
            results.append(r)
            continue
        t = blk["t"]
        if t[0] == "switch":
            forced = role_switch(bb, env)
            if forced is None:
                forced = _eval(env, t[1])
            if forced is not None:
                tgt = dict((v, x) for v, x in t[2]).get(forced, t[3])
                stack.append((tgt, env, seen))
            else:
                for s in b.succ(bb):
                    stack.append((s, dict(env), seen))
        elif t[0] == "ret":
            results.append(("ret", dict(env)))
        else:
            for s in b.succ(bb):
                stack.append((s, dict(env) if len(b.succ(bb)) > 1 else env, seen))
    return results


def push_table(b, adt, variants):
    """{rust variant: set(tags)}"""
    out = {}
    # role: switches on discriminant(_1) (or on _1 itself for bool)
    disc_locals = set()
    for i, j, place, rv, line in b.assigns():
        if rv[0] == "disc" and rv[1][0] == 1 and not place[1]:
            disc_locals.add(place[0])

    for v in variants:
        val = {"false": 0, "true": 1}[v] if adt is None else DISC[adt][v]
        env0 = {1: val} if adt is None else {}

        def role(bb, env, val=val):
            t = b.blocks[bb]["t"]
            p = op_place(t[1])
            if p is not None and not p[1] and (p[0] in disc_locals or (adt is None and p[0] == 1)):
                return val
            return None
        tags = set()

        def on_block(bb, env):
            blk = b.blocks[bb]
            for st in blk["s"]:
                if st[0] == "=" and st[2][0] == "agg" and st[2][1][0] == "adt" and st[2][1][1] == "gluon_vm::value::ValueRepr" and st[2][1][2] == "Tag":
                    tags.add(_eval(env, st[2][2][0]))
            t = blk["t"]
            if t[0] == "call":
                c = Call(b, bb, t)
                if c.res.endswith("::push_new_data") and len(c.args) >= 2:
                    tags.add(_eval(env, c.args[1]))
            return None
        _walk(b, env0, on_block, role)
        out[v] = tags
    return out


def get_table(b, adt, tags):
    """{tag: set(rust variants)}"""
    tag_locals = set()
    for c in b.calls():
        if c.res.endswith("api::Data::<'a>::tag") and c.dest is not None and not c.dest[1]:
            tag_locals.add((c.bb, c.dest[0]))
    out = {}
    for tg in tags:
        res = set()

        def on_block(bb, env, tg=tg):
            blk = b.blocks[bb]
            for st in blk["s"]:
                if st[0] == "=" and st[1] == [0, []]:
                    rv = st[2]
                    if rv[0] == "agg" and rv[1][0] == "adt" and adt is not None and rv[1][1] == adt:
                        res.add(rv[1][2])
                    elif adt is None:
                        v = env.get(0)
                        res.add({0: "false", 1: "true"}.get(v, "?"))
            t = blk["t"]
            if t[0] == "call":
                for cbb, dl in tag_locals:
                    if cbb == bb:
                        env[dl] = tg
                c = Call(b, bb, t)
                if c.dest is not None and c.dest == [0, []] and adt is None:
                    res.add("?")
            return None

        def role(bb, env):
            return None
        _walk(b, {}, on_block, role)
        out[tg] = res
    return out, bool(tag_locals)


def declared(repo):
    """{type name: [constructor names in declaration order]} from std/types.glu"""
    p = os.path.join(repo, "std", "types.glu")
    if not os.path.exists(p):
        return {}
    src = re.sub(r"//[^\n]*", "", open(p, encoding="utf-8").read())
    out = {}
    for m in re.finditer(r"\btype\s+([A-Z]\w*)[^=\n]*=\s*((?:\s*\|\s*[A-Z]\w*[^\n|]*)+)", src):
        out[m.group(1)] = re.findall(r"\|\s*([A-Z]\w*)", m.group(2))
    return out


def run(fb, rep):
    import harness
    R = "R12f"
    rep.rule(R, "constructor tags agree between Pushable, Getable and the declaration in std/types.glu")
    decl = declared(harness.REPO)
    if len(decl) < 4:
        rep.anchor_lost(R, "std/types.glu declarations of Bool/Option/Result/Ordering (%s)" % sorted(decl))
        return
    n = 0
    for label, selfstr, adt, names, gname in TYPES:
        pb = fb.body("<%s as gluon_vm::api::Pushable<'vm>>::vm_push" % selfstr)
        gb = fb.body("<%s as gluon_vm::api::Getable<'vm, 'value>>::from_value" % selfstr)
        if pb is None or gb is None:
            rep.anchor_lost(R, "Pushable/Getable impls for %s" % label)
            continue
        pt = push_table(pb, adt, list(names))
        ctors = decl.get(gname)
        if not ctors:
            rep.anchor_lost(R, "declaration of %s in std/types.glu" % gname)
            continue
        all_tags = set(range(len(ctors)))
        for v, tags in pt.items():
            all_tags |= {t for t in tags if t is not None}
        gt, saw_tag = get_table(gb, adt, sorted(all_tags))
        if not saw_tag:
            rep.anchor_lost(R, "%s::from_value no longer reads Data::tag()" % label)
            continue
        for v in names:
            n += 1
            tags = pt.get(v, set())
            if len(tags) != 1 or None in tags:
                rep.violation(R, "push-tag-unclear|%s|%s" % (label, v), "vm_push for %s::%s does not write one constant tag (%s)" % (label, v, sorted(map(str, tags))), pb.where())
                continue
            tg = next(iter(tags))
            want = ctors.index(names[v]) if names[v] in ctors else None
            back = gt.get(tg, set())
            probs = []
            if want is None or tg != want:
                probs.append("Gluon declares %s as constructor #%s of %s but vm_push writes tag %d" % (names[v], want, gname, tg))
            if back != {v}:
                probs.append("from_value maps tag %d to %s" % (tg, sorted(back) or "nothing"))
            if probs:
                rep.violation(R, "tag-mismatch|%s|%s" % (label, v), "%s::%s: %s" % (label, v, "; ".join(probs)), pb.where())
            else:
                rep.ok(R, "%s::%s <-> tag %d <-> %s.%s" % (label, v, tg, gname, names[v]))
    rep.floor(R, "Rust variants compared", n, 9)


def r12g(fb, rep):
    """R12g — type-directed descent of the serde bridge (`api::de`): the deserializer built for a *child* of the current value
    (its `input` comes from `get_variant` / the element iterator) is given the child's type, extracted from the parent's type
    (`Option a` -> a, constructor arguments, row fields), never the parent's own `typ`.  With the parent's type the payload of
    `Some "x"` is read at `Option String`: strings, chars, records and vectors inside an Option stop round-tripping."""
    R = "R12g"
    rep.rule(R, "the serde bridge descends into a child value with the child's type, not the parent's")
    D = "gluon_vm::api::de::Deserializer"
    a = fb.adts.get(D)
    if a is None:
        rep.anchor_lost(R, D)
        return
    names = [f["name"] for f in a["variants"][0]["fields"]]
    ti, ii = names.index("typ"), names.index("input")
    CHILD = ("get_variant", "next", "take", "get", "nth")
    DESCENT = ("index", "ctor_args", "next", "take", "row_iter", "remove_forall", "get", "nth", "unwrap_or", "as_ref")
    n = 0
    for b in fb.bodies.values():
        if b.crate.name != "gluon_vm" or "api::de" not in b.id:
            continue
        for i, j, pl, rv, ln in b.assigns():
            if not (rv[0] == "agg" and rv[1][0] == "adt" and rv[1][1] == D):
                continue
            isrc = flow.sources(b, rv[2][ii], depth=10)
            child = any(s[0] == "call" and s[1].rsplit("::", 1)[-1] in CHILD for s in isrc)
            if not child:
                continue
            n += 1
            tsrc = flow.sources(b, rv[2][ti], depth=10)
            own = ("field", D, "typ") in tsrc or any(s[0] == "call" and s[1].endswith("Deserializer<'de, 't> as core::clone::Clone>::clone") for s in tsrc)
            descended = any(s[0] == "call" and s[1].rsplit("::", 1)[-1] in DESCENT and "Clone" not in s[1] for s in tsrc)
            fn = b.id.rsplit("::", 1)[-1]
            if own and not descended or not tsrc - {("arg", 1)}:
                rep.violation(R, "child-read-at-parent-type|%s" % fn, "%s builds the deserializer of a child value with the parent's own type: the payload is interpreted at the wrong "
                              "Gluon type (e.g. the String inside `Some` at `Option String`)" % b.id, "%s:%s" % (b.file, ln))
            else:
                rep.ok(R, "%s: child deserializer gets a type extracted from the parent's type" % fn)
    rep.floor(R, "child deserializers built by the serde bridge", n, 4)
