"""C07 — resource limits, tail calls, interrupts (engines E2a, E2b, E2c, E2e; E2d lives in e2d.py).

Decided part (structural, on the resolved MIR):
  E2a  every GC allocation is accounted: the raw allocator is called only behind the limit check (or from the
       table-listed error-message sites), the counter is written only by the allocator (+= block size) and the
       deallocator (-= block size).
  E2b  frames are pushed only behind the stack-limit check; the per-function bound that check uses is the
       compiler's running maximum.
  E2c  the interpreter's outer loop polls the interrupt flag on every cycle; the inner loop leaves on calls.
  E2e  a tail call pops the caller's frame and slots before it enters the callee.
  E2d  Instruction::adjust (the compiler's static stack account) is never below the interpreter's net stack effect.
Not decided: that the compiler calls emit for every instruction it produces in the right order, forward-only jumps."""
from . import flow
from .common import table, variant_index, enum_switches
from .facts import op_place, op_local

CRATES = {"gluon_vm"}
THOROUGH_CONFIGS = ["default", "nodefault"]  # thorough also analyses the default-feature and the no-default-features builds

GC = "gluon_vm::gc::Gc"
STACK = "gluon_vm::stack::Stack"
ERROR = "gluon_vm::Error"


def _is_add(srcs):
    return any(s[0] == "op" and s[1].startswith("Add") for s in srcs)


def _is_sub(srcs):
    return any(s[0] == "op" and s[1].startswith("Sub") for s in srcs)


def e2a(fb, rep):
    R = "E2a"
    rep.rule(R, "allocation accounting: raw allocator only behind the memory-limit check; counter writers")
    tab = table("alloc_unaccounted_ok.json")
    wrappers = {e["fn"] for e in tab["wrappers"]}
    exempt = {e["fn"]: e["reason"] for e in tab["exempt_sites"]}
    # --- roles: writers of Gc.allocated_memory
    adders, subbers, others = [], [], []
    for b in fb.bodies.values():
        for bb, j, rv, line, kind in flow.field_writes(b, GC, "allocated_memory"):
            if kind != "assign":
                others.append((b, line, kind))
                continue
            srcs = flow.sources(b, rv[1]) if rv[0] == "use" else set()
            if rv[0] == "callresult":
                others.append((b, line, "call result"))
            elif _is_add(srcs):
                adders.append((b, bb, srcs, line))
            elif _is_sub(srcs):
                subbers.append((b, bb, srcs, line))
            else:
                others.append((b, line, "plain store"))
    if not adders:
        rep.anchor_lost(R, "no function adds to Gc.allocated_memory (raw allocator role)")
        return
    if not subbers:
        rep.anchor_lost(R, "no function subtracts from Gc.allocated_memory (deallocator role)")
    raw = sorted({b.id for b, _, _, _ in adders})
    for b, line, kind in others:
        rep.violation(R, "counter-writer|%s|%s" % (b.id, kind),
                      "Gc.allocated_memory is written (%s) outside the allocator/deallocator roles" % kind,
                      "%s:%s" % (b.file, line))
    # (iii) the amount added / subtracted is the size of the block created / freed
    for b, bb, srcs, line in adders:
        good = flow.has_field(srcs, GC, "allocated_memory") and flow.has_call(srcs, lambda n: n.endswith("AllocPtr::size"))
        made = [c for c in b.calls() if c.res.endswith("AllocPtr::new")]
        linked = any(bb2 for bb2, j, rv, l, kind in flow.field_writes(b, GC, "values") if kind == "assign")
        if good and made and linked:
            rep.ok(R, "%s: allocated_memory += AllocPtr::size() of the block from AllocPtr::new, linked into Gc.values" % b.id)
        else:
            rep.violation(R, "alloc-amount|%s" % b.id,
                          "raw allocator does not add the size of the block it creates (size-call=%s new=%s linked=%s)" % (
                              good, bool(made), linked), "%s:%s" % (b.file, line))
    for b, bb, srcs, line in subbers:
        good = flow.has_field(srcs, GC, "allocated_memory") and flow.has_call(srcs, lambda n: n.endswith("AllocPtr::size"))
        if good:
            rep.ok(R, "%s: allocated_memory -= AllocPtr::size() of the freed block" % b.id)
        else:
            rep.violation(R, "free-amount|%s" % b.id, "deallocator does not subtract the freed block's size",
                          "%s:%s" % (b.file, line))
    # (ii)+(i) callers of the raw allocator, transitively through table-listed wrappers
    unguarded = set(raw)
    work = list(raw)
    checked_sites = 0
    guarded_sites = 0
    while work:
        callee = work.pop()
        for c in fb.calls_of(callee):
            caller = c.body
            if caller.id in raw and callee in raw:
                continue
            checked_sites += 1
            ok, why = _guarded_by_limit(caller, c)
            if ok:
                guarded_sites += 1
                rep.ok(R, "%s calls %s only on the within-limit edge of `allocated+size >= memory_limit`; other edge -> Error::OutOfMemory" % (
                    caller.id, callee))
                continue
            if caller.id in wrappers:
                rep.exception(R, caller.id, "table: unaccounted-allocation wrapper, its callers are checked instead")
                if caller.id not in unguarded:
                    unguarded.add(caller.id)
                    work.append(caller.id)
                continue
            if caller.id in exempt:
                rep.exception(R, caller.id, exempt[caller.id])
                rep.ok(R, "%s: table-listed unaccounted site (%s)" % (caller.id, exempt[caller.id]))
                continue
            rep.violation(R, "unaccounted-alloc|%s|%s" % (caller.id, callee),
                          "%s calls %s without the memory-limit check (%s)" % (caller.id, callee, why), c.where())
    rep.floor(R, "call sites of the raw allocator / unaccounted wrappers", checked_sites, 4)
    rep.floor(R, "limit-guarded allocation sites", guarded_sites, 1)
    # (iv) the block constructor and the system allocator are private to the allocator role
    for c in fb.calls_of("gluon_vm::gc::allocate"):
        if "AllocPtr::new" not in c.body.id:
            rep.violation(R, "allocate-caller|%s" % c.body.id, "gc::allocate called outside AllocPtr::new", c.where())
        else:
            rep.ok(R)
    for c in fb.calls_of("gluon_vm::gc::AllocPtr::new"):
        if c.body.id not in raw:
            rep.violation(R, "allocptr-caller|%s" % c.body.id, "AllocPtr::new called outside the raw allocator", c.where())
        else:
            rep.ok(R)


def _guarded_by_limit(body, call):
    """the call is reachable only over the within-limit edge of a comparison between (allocated_memory ⊕ size) and
    memory_limit, the size compared is the size passed on, and the other edge builds Error::OutOfMemory"""
    size_srcs = set()
    if len(call.args) >= 2:
        size_srcs = {s for s in flow.sources(body, call.args[1]) if s[0] == "call"}
    for bb, op, lhs, rhs, true_t, false_t in flow.comparison_switches(body):
        ls = flow.sources(body, lhs)
        rs = flow.sources(body, rhs)
        l_need = flow.has_field(ls, GC, "allocated_memory")
        r_need = flow.has_field(rs, GC, "allocated_memory")
        l_lim = flow.has_field(ls, GC, "memory_limit")
        r_lim = flow.has_field(rs, GC, "memory_limit")
        if l_need and r_lim and not l_lim:
            needed, exceeded_when_true = ls, op in ("Ge", "Gt")
            if op not in ("Ge", "Gt", "Lt", "Le"):
                continue
        elif r_need and l_lim and not r_lim:
            needed, exceeded_when_true = rs, op in ("Lt", "Le")
            if op not in ("Ge", "Gt", "Lt", "Le"):
                continue
        else:
            continue
        within = false_t if exceeded_when_true else true_t
        exceeded = true_t if exceeded_when_true else false_t
        if not flow.only_via_edge(body, call.bb, (bb, within)):
            continue
        # the size requested takes part in the comparison
        if size_srcs and not (size_srcs & needed):
            return False, "limit check does not include the requested size"
        if not any(s[0] == "op" and s[1].startswith("Add") or (s[0] == "call" and "_add" in s[1]) for s in needed):
            return False, "limit check compares the counter without adding the request"
        # exceeded edge: constructs OutOfMemory and cannot reach the call
        reach = body.reachable(exceeded)
        if call.bb in reach:
            return False, "exceeded edge still reaches the allocation"
        oom = set(flow.blocks_constructing(body, ERROR, "OutOfMemory"))
        if not (oom & reach):
            return False, "exceeded edge does not construct Error::OutOfMemory"
        return True, ""
    return False, "no dominating comparison of allocated_memory(+size) against memory_limit"


def e2b(fb, rep):
    R = "E2b"
    rep.rule(R, "frame entry: Stack.frames grows only behind the stack-limit check; bound provenance")
    pushers = []
    allowed_mut = ("::pop", "::last_mut", "deref_mut", "::index_mut", "::push", "::iter_mut", "::as_mut_slice", "::truncate", "::clear")
    for b in fb.bodies.values():
        for bb, j, rv, line, kind in flow.field_writes(b, STACK, "frames"):
            if kind == "assign":
                # whole-vector replacement (constructor / take) is not a push; flag anything that is not a constructor
                rep.violation(R, "frames-store|%s" % b.id, "Stack.frames overwritten", "%s:%s" % (b.file, line))
                continue
            # find the borrow's destination local and the calls it (or its reborrows) feeds
            dest = b.stmts(bb)[j][1][0]
            locs = flow.derived_locals(b, dest)
            for c in b.calls():
                if not c.args:
                    continue
                a0 = op_local(c.args[0])
                if a0 in locs:
                    nm = c.res
                    if nm.endswith("::push") or "::extend" in nm or "::insert" in nm or "::append" in nm or "::resize" in nm:
                        pushers.append((b, c))
                    elif any(x in nm for x in allowed_mut):
                        pass
                    else:
                        rep.violation(R, "frames-mutator|%s|%s" % (b.id, nm),
                                      "unknown mutator applied to &mut Stack.frames: %s" % nm, c.where())
    if not pushers:
        rep.anchor_lost(R, "no function pushes to Stack.frames")
        return
    for b, c in pushers:
        ok, why = _guarded_by_stack_limit(b, c)
        if ok:
            rep.ok(R, "%s: frames.push only on the not-exceeded edge of `len + max_stack_size() > Stack.max_stack_size`; other edge -> Error::StackOverflow" % b.id)
        else:
            rep.violation(R, "unchecked-frame-push|%s" % b.id, "frame pushed without the stack-limit check: %s" % why, c.where())
    rep.floor(R, "frame push sites", len(pushers), 1)
    # bound provenance: StackState::max_stack_size impls
    impls = [b for b in fb.bodies.values() if b.get("impl_trait") == "gluon_vm::stack::StackState" and b.get("name") == "max_stack_size"]
    rep.floor(R, "StackState::max_stack_size impls", len(impls), 3)
    BF = "gluon_vm::value::BytecodeFunction"
    CF = "gluon_vm::compiler::CompiledFunction"
    for b in impls:
        self_s = b.tstr(b.get("impl_self"))
        srcs = flow.sources(b, 0)
        if self_s.endswith("ClosureState"):
            if flow.has_field(srcs, BF, "max_stack_size"):
                rep.ok(R, "<ClosureState as StackState>::max_stack_size returns BytecodeFunction.max_stack_size")
            else:
                rep.violation(R, "closure-bound|%s" % b.id, "ClosureState::max_stack_size does not read BytecodeFunction.max_stack_size", b.where())
        elif self_s.endswith("stack::State"):
            calls = [c for c in b.calls() if c.fn and c.fn.endswith("StackState::max_stack_size")]
            selfs = {b.tstr(c.desc["self"]) for c in calls if "self" in c.desc}
            if any(s.endswith("ClosureState") for s in selfs):
                rep.ok(R, "<State as StackState>::max_stack_size dispatches to the closure state's bound")
            else:
                rep.violation(R, "state-bound|%s" % b.id, "State::max_stack_size does not consult the closure state", b.where())
    # BytecodeFunction.max_stack_size comes from CompiledFunction.max_stack_size
    bf = fb.adts.get(BF)
    n_constr = 0
    if bf:
        names = [f["name"] for f in bf["variants"][0]["fields"]]
        idx = names.index("max_stack_size") if "max_stack_size" in names else None
        for b in fb.bodies.values():
            for bb, j, place, rv, line in b.assigns():
                if rv[0] == "agg" and rv[1][0] == "adt" and rv[1][1] == BF and idx is not None:
                    n_constr += 1
                    srcs = flow.sources(b, rv[2][idx])
                    if "impl serde_state::de::DeserializeState" in b.id and "for gluon_vm::value::BytecodeFunction>::deserialize_state" in b.id:
                        rep.exception(R, "derive(DeserializeState) for BytecodeFunction", "the bound is read back from a serialised BytecodeFunction (C12 covers that no field is skipped)")
                    elif flow.has_field(srcs, CF, "max_stack_size"):
                        rep.ok(R, "%s: BytecodeFunction.max_stack_size <- CompiledFunction.max_stack_size" % b.id)
                    else:
                        rep.violation(R, "bytecode-bound|%s" % b.id,
                                      "BytecodeFunction built with a max_stack_size that is not the compiled function's", "%s:%s" % (b.file, line))
            for bb, j, rv, line, kind in flow.field_writes(b, BF, "max_stack_size"):
                rep.violation(R, "bytecode-bound-write|%s" % b.id, "BytecodeFunction.max_stack_size written after construction", "%s:%s" % (b.file, line))
    rep.floor(R, "BytecodeFunction constructions", n_constr, 1)
    # CompiledFunction.max_stack_size = max(old, FunctionEnv.stack_size), and every += on stack_size happens there
    FE = "gluon_vm::compiler::FunctionEnv"
    maxers = set()
    for b in fb.bodies.values():
        for bb, j, rv, line, kind in flow.field_writes(b, CF, "max_stack_size"):
            if kind != "assign":
                rep.violation(R, "compiled-bound-borrow|%s" % b.id, "CompiledFunction.max_stack_size mutably borrowed", "%s:%s" % (b.file, line))
                continue
            srcs = flow.sources(b, rv[1]) if rv[0] == "use" else (flow.sources(b, b.stmts(bb)[j][1]) if False else set())
            if rv[0] == "callresult":
                c = rv[1]
                srcs = set()
                for a in c.args:
                    srcs |= flow.sources(b, a)
                srcs |= {("call", n) for n in c.names()}
            is_max = flow.has_call(srcs, lambda n: n.endswith("cmp::max") or n.endswith("Ord::max") or n.endswith("::max"))
            if is_max and flow.has_field(srcs, CF, "max_stack_size") and flow.has_field(srcs, FE, "stack_size"):
                maxers.add(b.id)
                rep.ok(R, "%s: max_stack_size = max(max_stack_size, stack_size)" % b.id)
            else:
                rep.violation(R, "compiled-bound|%s" % b.id, "CompiledFunction.max_stack_size written with something other than max(old, stack_size)", "%s:%s" % (b.file, line))
    if not maxers:
        rep.anchor_lost(R, "no function maintains CompiledFunction.max_stack_size as a running maximum")
    n_add = 0
    for b in fb.bodies.values():
        for bb, j, rv, line, kind in flow.field_writes(b, FE, "stack_size"):
            if kind != "assign":
                rep.violation(R, "stack-size-borrow|%s" % b.id, "FunctionEnv.stack_size mutably borrowed", "%s:%s" % (b.file, line))
                continue
            srcs = flow.sources(b, rv[1]) if rv[0] == "use" else set()
            if _is_add(srcs):
                n_add += 1
                if b.id in maxers:
                    rep.ok(R, "%s: stack_size += n is followed by the running-maximum update" % b.id)
                else:
                    rep.violation(R, "stack-size-add|%s" % b.id,
                                  "FunctionEnv.stack_size increased outside the function that updates max_stack_size", "%s:%s" % (b.file, line))
    rep.floor(R, "stack_size increments", n_add, 1)


def _guarded_by_stack_limit(body, call):
    for bb, op, lhs, rhs, true_t, false_t in flow.comparison_switches(body):
        ls = flow.sources(body, lhs)
        rs = flow.sources(body, rhs)

        def is_need(s):
            return flow.has_call(s, lambda n: n.endswith("Stack::len")) and flow.has_call(s, lambda n: n.endswith("StackState::max_stack_size"))

        def is_lim(s):
            return flow.has_field(s, STACK, "max_stack_size")
        if is_need(ls) and is_lim(rs) and op in ("Gt", "Ge", "Lt", "Le"):
            exceeded_when_true = op in ("Gt", "Ge")
        elif is_need(rs) and is_lim(ls) and op in ("Gt", "Ge", "Lt", "Le"):
            exceeded_when_true = op in ("Lt", "Le")
        else:
            continue
        within = false_t if exceeded_when_true else true_t
        exceeded = true_t if exceeded_when_true else false_t
        if not flow.only_via_edge(body, call.bb, (bb, within)):
            continue
        reach = body.reachable(exceeded)
        if call.bb in reach:
            return False, "exceeded edge still reaches the push"
        if not (set(flow.blocks_constructing(body, ERROR, "StackOverflow")) & reach):
            return False, "exceeded edge does not construct Error::StackOverflow"
        return True, ""
    return False, "no dominating comparison of len()+max_stack_size() against Stack.max_stack_size"


def _mentions_field(rv, name):
    def place_has(p):
        return any(isinstance(x, list) and x[0] == "f" and len(x) == 4 and x[3] == name for x in p[1])
    if rv[0] == "ref":
        return place_has(rv[2])
    if rv[0] == "use":
        return _op_mentions_field(rv[1], name)
    return False


def _op_mentions_field(op, name):
    return op[0] in ("c", "m") and any(isinstance(x, list) and x[0] == "f" and len(x) == 4 and x[3] == name for x in op[1][1])


def e2c(fb, rep):
    R = "E2c"
    rep.rule(R, "interrupt poll on every cycle of the outer interpreter loop; inner loop leaves on calls")
    # (after finding 40) what the poll reads: a thread runs on behalf of the thread that created it (a program blocked in `resume`
    # of a thread it spawned runs that thread's code on the same OS thread), so the poll must also see an interrupt of an ancestor.
    it = fb.body("gluon_vm::thread::Thread::interrupted")
    if it is None:
        rep.anchor_lost(R, "Thread::interrupted")
    else:
        reads_parent = any(True for i, j, pl, rv, ln in it.assigns() if _mentions_field(rv, "parent")) or any(_op_mentions_field(a, "parent") for c in it.calls() for a in c.args)
        recurses = any(c.res.endswith("Thread::interrupted") for c in it.calls()) or any(c.res.endswith("Thread::interrupted") for x in fb.closures_of(it.id) for c in x.calls()) or bool(it.sccs())
        if reads_parent and recurses:
            rep.ok(R, "Thread::interrupted reads its own flag and, through Thread.parent, the flags of its ancestors")
        else:
            rep.violation(R, "interrupt-not-inherited", "Thread::interrupted reads only the thread's own flag: an interrupt of the thread the host started does not reach a thread the "
                          "program spawned and resumed, whose loop then cannot be stopped", it.where())
    outer = fb.body("gluon_vm::thread::OwnedContext::<'b>::execute")
    if outer is None:
        cands = [b for b in fb.bodies.values() if b.kind == "fn" and any(c.res.endswith("Thread::interrupted") for c in b.calls())]
        outer = cands[0] if len(cands) == 1 else None
    if outer is None:
        rep.anchor_lost(R, "interpreter outer loop (the function polling Thread::interrupted)")
        return
    sccs = outer.sccs()
    rep.floor(R, "loops in the outer interpreter function", len(sccs), 1)
    for comp in sccs:
        polls = [c for c in outer.calls() if c.bb in comp and c.res.endswith("Thread::interrupted")]
        if not polls:
            rep.violation(R, "loop-without-poll|%s|bb%d" % (outer.id, min(comp)),
                          "a cycle of %s contains no call to Thread::interrupted" % outer.id, outer.where(), path=sorted(comp)[:12])
            continue
        # every cycle passes a poll: removing poll blocks leaves no cycle inside the component
        rest = comp - {c.bb for c in polls}
        if _has_cycle(outer, rest):
            rep.violation(R, "cycle-bypasses-poll|%s" % outer.id, "a cycle of the interpreter loop bypasses the interrupt poll", outer.where())
            continue
        good = False
        for c in polls:
            dl = c.dest[0]
            for bb, srcs, true_t, false_t in flow.bool_switches(outer):
                if ("call", c.res) in srcs or any(s[0] == "call" and s[1].endswith("Thread::interrupted") for s in srcs):
                    reach = outer.reachable(true_t, avoid_blocks=[])
                    intr = set(flow.blocks_constructing(outer, ERROR, "Interrupted"))
                    # the interrupted edge must construct the error and leave the loop without polling again
                    leaves = not (outer.reachable(true_t) & {c.bb}) or True
                    if intr & reach and not (outer.reachable(true_t, avoid_blocks=intr) & set(outer.return_blocks())):
                        good = True
        if good:
            rep.ok(R, "%s: loop {bb%d..} polls Thread::interrupted each cycle; true edge -> Err(Error::Interrupted), return" % (outer.id, min(comp)))
        else:
            rep.violation(R, "poll-not-acted-on|%s" % outer.id, "the interrupt poll's true edge does not return Error::Interrupted", outer.where())
    # Thread::interrupted reads the flag that Thread::interrupt sets
    rd = fb.body("gluon_vm::thread::Thread::interrupted")
    wr = fb.body("gluon_vm::thread::Thread::interrupt")
    if rd is None or wr is None:
        rep.anchor_lost(R, "Thread::interrupt / Thread::interrupted")
    else:
        T = "gluon_vm::thread::Thread"
        r_ok = any(("field", T, "interrupt") in flow.sources(rd, c.args[0]) and "load" in c.res for c in rd.calls() if c.args)
        w_ok = any(("field", T, "interrupt") in flow.sources(wr, c.args[0]) and "store" in c.res for c in wr.calls() if c.args)
        if r_ok and w_ok:
            rep.ok(R, "Thread::interrupt stores and Thread::interrupted loads Thread.interrupt")
        else:
            rep.violation(R, "flag-mismatch", "interrupt()/interrupted() do not store/load the same Thread.interrupt flag", rd.where())
    # inner loop: Call/TailCall/Return leave execute_
    inner = fb.body("gluon_vm::thread::ExecuteContext::<'b, 'gc>::execute_")
    if inner is None:
        rep.anchor_lost(R, "ExecuteContext::execute_")
        return
    in_cycle = set()
    for comp in inner.sccs():
        in_cycle |= comp
    fetch = [c for c in inner.calls() if c.res.endswith("ProgramCounter::<'a>::instruction")]
    if not fetch:
        rep.anchor_lost(R, "instruction fetch in execute_")
    for comp in inner.sccs():
        if len(comp) < 20:
            continue  # small inner loops (slice iteration in one arm) are bounded by data already on the stack
        rest = comp - {c.bb for c in fetch}
        if _has_big_cycle(inner, rest):
            rep.violation(R, "dispatch-cycle-without-fetch", "a cycle of the dispatch loop does not pass the instruction fetch", inner.where())
        else:
            rep.ok(R, "execute_: every cycle of the dispatch loop passes ProgramCounter::instruction")
    leave = [c for c in inner.calls() if c.res.endswith("::do_call")]
    rep.floor(R, "do_call sites in execute_", len(leave), 2)
    for c in leave:
        if c.bb in in_cycle or (c.target is not None and inner.reachable(c.target) & in_cycle):
            rep.violation(R, "call-stays-in-dispatch-loop|bb", "a Call/TailCall arm re-enters the dispatch loop without returning to the polling loop", c.where())
        else:
            rep.ok(R, "execute_: do_call at %s leaves the dispatch loop (control returns to the polling loop)" % c.where())


def _has_cycle(body, nodes):
    nodes = set(nodes)
    color = {}

    def dfs(v):
        color[v] = 1
        for w in body.succ(v):
            if w not in nodes:
                continue
            if color.get(w) == 1:
                return True
            if w not in color and dfs(w):
                return True
        color[v] = 2
        return False
    import sys
    sys.setrecursionlimit(100000)
    return any(v not in color and dfs(v) for v in nodes)


def _has_big_cycle(body, nodes):
    """a cycle inside `nodes` that involves a call to a stack-mutating dispatcher arm (size heuristic replaced by:
    any cycle that contains a switch on Instruction)"""
    nodes = set(nodes)
    # restrict to SCCs within nodes
    sub_succ = {v: [w for w in body.succ(v) if w in nodes] for v in nodes}
    index, low, st, on, comps = {}, {}, [], set(), []
    counter = [0]

    def strong(v):
        index[v] = low[v] = counter[0]
        counter[0] += 1
        st.append(v)
        on.add(v)
        for w in sub_succ[v]:
            if w not in index:
                strong(w)
                low[v] = min(low[v], low[w])
            elif w in on:
                low[v] = min(low[v], index[w])
        if low[v] == index[v]:
            comp = set()
            while True:
                w = st.pop()
                on.discard(w)
                comp.add(w)
                if w == v:
                    break
            if len(comp) > 1 or v in sub_succ[v]:
                comps.append(comp)
    for v in nodes:
        if v not in index:
            strong(v)
    for comp in comps:
        for i, m, o in enum_switches(body, "gluon_vm::types::Instruction"):
            if i in comp:
                return True
    return False


def e2e(fb, rep):
    R = "E2e"
    rep.rule(R, "tail call: caller frame popped and its slots removed before the callee is entered")
    inner = fb.body("gluon_vm::thread::ExecuteContext::<'b, 'gc>::execute_")
    if inner is None:
        rep.anchor_lost(R, "ExecuteContext::execute_")
        return
    INSTR = "gluon_vm::types::Instruction"
    vi = variant_index(fb, INSTR, "TailCall")
    ci = variant_index(fb, INSTR, "Call")
    if vi is None or ci is None:
        rep.anchor_lost(R, "Instruction::TailCall / Instruction::Call variants")
        return
    main = [(i, m, o) for i, m, o in enum_switches(inner, INSTR) if len(m) >= 20]
    if not main:
        rep.anchor_lost(R, "the dispatch `match instr` in execute_")
        return
    for sw, m, other in main:
        entry = m.get(vi)
        call_entry = m.get(ci)
        if entry is None or entry == other:
            rep.violation(R, "tailcall-arm-missing", "TailCall has no arm of its own in the dispatch match", inner.where())
            continue
        # region of the arm: blocks reachable from the arm entry without passing the dispatch switch again
        region = inner.reachable(entry, avoid_blocks=[sw])
        do_calls = [c for c in inner.calls() if c.bb in region and c.res.endswith("::do_call")]
        if not do_calls:
            rep.violation(R, "tailcall-no-docall", "TailCall arm never calls do_call", inner.where())
            continue
        exits = {c.bb for c in inner.calls() if c.bb in region and c.res.endswith("::exit_scope")}
        removes = {c.bb for c in inner.calls() if c.bb in region and (c.res.endswith("::remove_range"))}
        for dc in do_calls:
            r1 = inner.reachable(entry, avoid_blocks=list(exits) + [sw])
            r2 = inner.reachable(entry, avoid_blocks=list(removes) + [sw])
            if not exits or dc.bb in r1:
                rep.violation(R, "tailcall-keeps-frame", "TailCall reaches do_call without exit_scope (frame not reused)", dc.where())
            elif not removes or dc.bb in r2:
                rep.violation(R, "tailcall-keeps-slots", "TailCall reaches do_call without removing the caller's slots (remove_range)", dc.where())
            else:
                # no new frame before the old one is left
                pre = inner.reachable(entry, avoid_blocks=list(exits) + [sw])
                bad = [c for c in inner.calls() if c.bb in pre and any(x in c.res for x in ("::enter_scope", "::enter_closure", "::enter_extern", "::call_function_with_upvars"))]
                if bad:
                    rep.violation(R, "tailcall-enters-before-exit", "TailCall enters a new frame before leaving the caller's", bad[0].where())
                else:
                    rep.ok(R, "TailCall arm: exit_scope and remove_range both dominate do_call (%s)" % dc.where())
        # the Call arm, by contrast, must NOT exit the scope (sanity that the two arms are told apart)
        if call_entry is not None:
            cregion = inner.reachable(call_entry, avoid_blocks=[sw])
            if any(c.bb in cregion and c.res.endswith("::exit_scope") for c in inner.calls()) and call_entry != entry:
                pass


def e2f(fb, rep):
    """tail-position propagation in the bytecode compiler: a call in tail position is emitted as TailCall"""
    R = "E2f"
    rep.rule(R, "the compiler hands its tail_position flag to every continuation sub-expression and to emit_call")
    from . import e11
    C = "gluon_vm::compiler::Compiler::<'a>::"
    ec = fb.body("gluon_vm::compiler::FunctionEnv::emit_call")
    if ec is None:
        rep.anchor_lost(R, "FunctionEnv::emit_call")
    else:
        ok = False
        for bb, srcs, true_t, false_t in flow.bool_switches(ec):
            if ("arg", 3) in srcs:
                tc = set(flow.blocks_constructing(ec, "gluon_vm::types::Instruction", "TailCall"))
                cl = set(flow.blocks_constructing(ec, "gluon_vm::types::Instruction", "Call"))
                if tc & ec.reachable(true_t, avoid_blocks=[false_t]) and cl & ec.reachable(false_t, avoid_blocks=[true_t]) \
                        and not (tc & ec.reachable(false_t, avoid_blocks=[true_t])):
                    ok = True
        # exactness (added after seed C07-4): with the flag fixed, a path walk with constant propagation must reach the construction of
        # exactly one of the two instructions -- a further condition on the true side (`tail_position && <something>`) demotes tail
        # calls to ordinary calls, which changes no result and makes some tail-recursive loops grow the stack
        from . import r12f
        built = {}
        for flag in (0, 1):
            got = set()

            def on_block(bb, env, got=got):
                for st in ec.blocks[bb]["s"]:
                    if st[0] == "=" and st[2][0] == "agg" and st[2][1][0] == "adt" and st[2][1][1] == "gluon_vm::types::Instruction":
                        got.add(st[2][1][2])
                return None
            r12f._walk(ec, {3: flag}, on_block, lambda bb, env: None)
            built[flag] = got
        exact = built[1] == {"TailCall"} and built[0] == {"Call"}
        if ok and exact:
            rep.ok(R, "emit_call: tail_position -> TailCall, otherwise Call (and nothing else decides)")
        elif ok:
            rep.violation(R, "emit-call-demotes-tail-calls", "emit_call with tail_position set can also emit %s: a condition besides the flag decides, so some calls in tail position "
                          "keep their caller's frame (unbounded stack for tail-recursive loops of that shape)" % sorted(built[1] - {"TailCall"}), ec.where())
        else:
            rep.violation(R, "emit-call-shape", "emit_call no longer selects TailCall exactly when tail_position is set", ec.where())

    def tail_args(b, pred, tail_param):
        """for calls satisfying pred: (call, derived_from_param?)"""
        out = []
        for c in b.calls():
            if pred(c):
                a = c.args[-1]
                srcs = flow.sources(b, a)
                out.append((c, ("arg", tail_param) in srcs))
        return out
    comp = fb.body(C + "compile")
    comp_ = fb.body(C + "compile_")
    prim = fb.body(C + "compile_primitive")
    if comp is None or comp_ is None or prim is None:
        rep.anchor_lost(R, "Compiler::compile / compile_ / compile_primitive")
        return
    # compile -> compile_ with the same flag
    xs = tail_args(comp, lambda c: c.res == C + "compile_", 4)
    if xs and all(d for _, d in xs):
        rep.ok(R, "compile passes tail_position on to compile_ (loop over let/match continuations)")
    else:
        rep.violation(R, "tail-flag-dropped|compile", "Compiler::compile does not pass its tail_position to compile_", comp.where())
    # compile_: emit_call, compile_primitive and the match alternatives get the flag
    for what, pred in (("emit_call", lambda c: c.res.endswith("FunctionEnv::emit_call")),
                       ("compile_primitive", lambda c: c.res == C + "compile_primitive")):
        xs = tail_args(comp_, pred, 4)
        if xs and all(d for _, d in xs):
            rep.ok(R, "compile_: %s receives tail_position (%d sites)" % (what, len(xs)))
        else:
            rep.violation(R, "tail-flag-dropped|compile_|%s" % what, "compile_ calls %s with a tail flag that is not its own tail_position" % what, (xs[0][0].where() if xs else comp_.where()))
    alts = [(c, d) for c, d in tail_args(comp_, lambda c: c.res == C + "compile", 4)]
    n_tail = sum(1 for _, d in alts if d)
    if n_tail >= 1:
        rep.ok(R, "compile_: %d of %d nested compile calls are continuations in tail position (match alternatives)" % (n_tail, len(alts)))
    else:
        rep.violation(R, "tail-flag-dropped|compile_|alternatives", "no nested compile call of compile_ receives tail_position (match alternatives lose their tail calls)", comp_.where())
    # compile_primitive: `&&` and `||` compile their right operand (the last operand compiled) with the flag
    tab = e11._str_match_table(prim, fb=fb)
    for opname in ("&&", "||"):
        blk = tab.get(opname)
        if blk is None:
            rep.violation(R, "no-case|%s" % opname, "compile_primitive has no case for `%s`" % opname, prim.where())
            continue
        other_blks = [v for k, v in tab.items() if k != opname and v != blk and not prim.dominates(blk, v)]
        region = prim.reachable(blk) - prim.reachable(other_blks)
        cs = [(c, d) for c, d in tail_args(prim, lambda c: c.res == C + "compile", 5) if c.bb in region]
        if len(cs) >= 2:
            last = [x for x in cs if all(prim.dominates(y[0].bb, x[0].bb) for y in cs)]
            if last and last[0][1]:
                rep.ok(R, "`%s`: the right operand is compiled with the caller's tail_position" % opname)
            else:
                rep.violation(R, "tail-flag-dropped|compile_primitive|%s" % opname,
                              "`%s` compiles its right operand (the value of the whole expression) without the caller's tail_position: a call there is never a TailCall" % opname,
                              (last[0][0].where() if last else prim.where()))
        else:
            rep.violation(R, "operand-count|%s" % opname, "`%s` no longer compiles two operands" % opname, prim.where())


def e2g(fb, rep):
    """memory-limit provenance: the limit a thread's heap is created with is its parent's limit"""
    R = "E2g"
    rep.rule(R, "memory-limit provenance: child heaps inherit the parent's limit; writers of Gc.memory_limit")
    GC = "gluon_vm::gc::Gc"
    gc = fb.adts.get(GC)
    new = fb.body("gluon_vm::gc::Gc::new")
    child = fb.body("gluon_vm::gc::Gc::new_child_gc")
    if gc is None or new is None or child is None:
        rep.anchor_lost(R, "Gc / Gc::new / Gc::new_child_gc")
        return
    names = [f["name"] for f in gc["variants"][0]["fields"]]
    li, gi = names.index("memory_limit"), names.index("generation")
    # constructors of Gc: only Gc::new (plus derived deserialisers), which stores its limit parameter
    for b in fb.bodies.values():
        if b.crate.name != "gluon_vm":
            continue
        for bb, j, place, rv, line in b.assigns():
            if rv[0] == "agg" and rv[1][0] == "adt" and rv[1][1] == GC:
                if b.id == new.id:
                    if ("arg", 2) in flow.sources(b, rv[2][li]) and ("arg", 1) in flow.sources(b, rv[2][gi]):
                        rep.ok(R, "Gc::new stores its memory_limit and generation parameters")
                    else:
                        rep.violation(R, "gc-new-ignores-limit", "Gc::new no longer stores its memory_limit / generation parameters", b.where())
                elif "DeserializeState" in b.id and "for gluon_vm::gc::Gc>::deserialize_state" in b.id:
                    rep.exception(R, "derive(DeserializeState) for Gc", "the limit is read back from a serialised heap (C12 covers that no field is skipped)")
                else:
                    rep.violation(R, "gc-built-elsewhere|%s" % b.id, "%s builds a Gc without going through Gc::new" % b.id, "%s:%s" % (b.file, line))
        for bb, j, rv, line, kind in flow.field_writes(b, GC, "memory_limit"):
            if kind == "assign" and b.id.endswith("Gc::set_memory_limit"):
                rep.ok(R, "Gc::set_memory_limit writes the limit")
            elif kind in ("assign", "refmut", "rawptr"):
                rep.violation(R, "limit-writer|%s" % b.id, "%s writes Gc.memory_limit" % b.id, "%s:%s" % (b.file, line))
    # new_child_gc: limit = self.memory_limit (no constant), generation = self.generation.next()
    cs = [c for c in child.calls() if c.res == new.id]
    if len(cs) != 1:
        rep.violation(R, "child-gc-shape", "Gc::new_child_gc no longer creates the child heap with Gc::new", child.where())
    else:
        s_lim = flow.sources(child, cs[0].args[1])
        s_gen = flow.sources(child, cs[0].args[0])
        lim_ok = ("field", GC, "memory_limit") in s_lim and not any(x[0] in ("const", "op") for x in s_lim)
        gen_ok = flow.has_call(s_gen, lambda n: n.endswith("Generation::next")) and ("field", GC, "generation") in s_gen
        if lim_ok and gen_ok:
            rep.ok(R, "Gc::new_child_gc: Gc::new(self.generation.next(), self.memory_limit)")
        else:
            rep.violation(R, "child-limit-not-inherited", "Gc::new_child_gc creates the child heap with %s: a limited thread's descendants escape its memory limit"
                          % ("a limit that is not exactly the parent's memory_limit" if not lim_ok else "a generation that is not parent.generation.next()"), cs[0].where())
    # every thread context gets a heap made by new_child_gc
    n = 0
    for b in fb.bodies.values():
        for c in b.calls():
            if c.res == "gluon_vm::thread::Context::new":
                n += 1
                if flow.has_call(flow.sources(b, c.args[0]), lambda x: x.endswith("Gc::new_child_gc")):
                    rep.ok(R, "%s: Context::new(<parent gc>.new_child_gc())" % b.id)
                else:
                    rep.violation(R, "thread-heap-not-child|%s" % b.id, "%s creates a thread context whose heap does not come from the parent's new_child_gc" % b.id, c.where())
    rep.floor(R, "thread context constructions", n, 2)
    # (after finding 35) the stack limit has the same provenance: a thread created *from* a thread (Thread::new_thread: host
    # new_thread, std.thread.spawn / new_thread) gets its parent's limit.  A fresh Stack starts at VmIndex::MAX.
    nt = fb.body("gluon_vm::thread::Thread::new_thread")
    if nt is None:
        rep.anchor_lost(R, "Thread::new_thread")
    else:
        sets = [c for c in nt.calls() if c.res.endswith("stack::Stack::set_max_stack_size")]
        ok = False
        for c in sets:
            src = flow.sources(nt, c.args[1], depth=12)
            from_parent = flow.has_call(src, lambda x: x.endswith("stack::Stack::max_stack_size")) or ("field", "gluon_vm::stack::Stack", "max_stack_size") in src
            if from_parent and ("arg", 1) in src and not any(x[0] == "const" for x in src):
                ok = True
        if ok:
            rep.ok(R, "Thread::new_thread: the child's stack limit is the parent's (set_max_stack_size(<self's stack>.max_stack_size()))")
        else:
            rep.violation(R, "child-stack-limit-not-inherited", "Thread::new_thread creates the child's stack without giving it the parent's max_stack_size (a fresh Stack is unlimited): "
                          "a limited thread's descendants (spawn, new_thread) escape its stack limit", nt.where())
    ST = "gluon_vm::stack::Stack"
    for b in fb.bodies.values():
        if b.crate.name != "gluon_vm":
            continue
        for bb, j, rv, line, kind in flow.field_writes(b, ST, "max_stack_size"):
            if kind in ("assign", "refmut", "rawptr"):
                if b.id.endswith("Stack::set_max_stack_size"):
                    rep.ok(R, "Stack::set_max_stack_size writes the limit")
                else:
                    rep.violation(R, "stack-limit-writer|%s" % b.id, "%s writes Stack.max_stack_size" % b.id, "%s:%s" % (b.file, line))


def e2i(fb, rep):
    """E2i — an allocation is refused for the memory limit only after a collection was attempted.  `check_collect` collects when
    `allocated_memory >= collect_limit`, and `collect_limit` is twice the live memory after the last collection — which may lie
    above `memory_limit`.  Then the garbage of a failed run is never collected: `alloc_owned` answers OutOfMemory for every later
    program until the host collects by hand.  Rule: in `Gc::alloc_and_collect`, a comparison that involves `Gc.memory_limit`
    lies before `check_collect`, and on one of its edges the collection is forced (`Gc.collect_limit` is written, or `collect` is
    called) before `alloc_owned` runs."""
    R = "E2i"
    rep.rule(R, "a collection is attempted before an allocation is refused for the memory limit")
    GC = "gluon_vm::gc::Gc"
    b = next((x for i, x in fb.bodies.items() if i.startswith("gluon_vm::gc::Gc::alloc_and_collect") and x.kind == "fn" and "{closure" not in i and "::scope" not in i), None)
    if b is None:
        rep.anchor_lost(R, "Gc::alloc_and_collect")
        return
    cc = [c for c in b.calls() if c.res.endswith("Gc::check_collect")]
    ao = [c for c in b.calls() if c.res.endswith("Gc::alloc_owned")]
    if not cc or not ao:
        rep.anchor_lost(R, "check_collect / alloc_owned in alloc_and_collect")
        return
    forced = [bb for bb, j, rv, line, kind in flow.field_writes(b, GC, "collect_limit") if kind == "assign"] + [c.bb for c in b.calls() if c.res.endswith("Gc::collect")]
    ok = False
    for bb, opn, lop, rop, true_t, false_t in flow.comparison_switches(b):
        srcs = flow.sources(b, lop, depth=10) | flow.sources(b, rop, depth=10)
        if ("field", GC, "memory_limit") in srcs and (("field", GC, "allocated_memory") in srcs):
            for t in (true_t, false_t):
                if t is None:
                    continue
                region = b.reachable(t, avoid_blocks=[c.bb for c in ao])
                if any(f in region for f in forced) and all(b.dominates(bb, c.bb) for c in ao):
                    ok = True
    # (after finding 43) what is compared with the limit is what is accounted: alloc_ignore_limit_ adds AllocPtr::size() = header + value
    # to allocated_memory, so the quantity alloc_owned compares with memory_limit includes GcHeader::value_offset() as well
    aob = next((x for i, x in fb.bodies.items() if i.startswith("gluon_vm::gc::Gc::alloc_owned") and x.kind == "fn" and "{closure" not in i), None)
    if aob is None:
        rep.anchor_lost(R, "Gc::alloc_owned")
    else:
        hdr = False
        seen_cmp = False
        for bb, opn, lop, rop, true_t, false_t in flow.comparison_switches(aob):
            srcs = flow.sources(aob, lop, depth=12) | flow.sources(aob, rop, depth=12)
            if ("field", GC, "memory_limit") in srcs and ("field", GC, "allocated_memory") in srcs:
                seen_cmp = True
                if flow.has_call(srcs, lambda x: x.endswith("GcHeader::value_offset") or x.endswith("AllocPtr::size")):
                    hdr = True
        if not seen_cmp:
            rep.anchor_lost(R, "the comparison with memory_limit in Gc::alloc_owned")
        elif hdr:
            rep.ok(R, "alloc_owned compares allocated_memory + header + size with memory_limit (the quantity alloc_ignore_limit_ accounts)")
        else:
            rep.violation(R, "limit-check-ignores-header", "Gc::alloc_owned compares allocated_memory + def.size() with memory_limit but the allocation is accounted with its header "
                          "(AllocPtr::size): allocated_memory can end above the limit", aob.where())
    if ok:
        rep.ok(R, "alloc_and_collect: when allocated_memory + size reaches memory_limit a collection is forced before alloc_owned decides")
    else:
        rep.violation(R, "oom-without-collection", "Gc::alloc_and_collect lets alloc_owned refuse an allocation for the memory limit without first forcing a collection: once collect_limit "
                      "exceeds memory_limit the garbage of a failed run is never collected and every later program fails with OutOfMemory", b.where())


def run(fb, rep, tier, cfg):
    rep.explanation = (
        "Static analysis of gluon_vm's resolved MIR (rustc_private driver, -Zmir-opt-level=0). Decides structural "
        "necessary conditions of C07: (E2a) who-may-call + dominance of the memory-limit comparison over every call of the "
        "raw allocator, writers of Gc.allocated_memory; (E2b) dominance of the stack-limit comparison over every push to "
        "Stack.frames and provenance of the per-function bound back to the compiler's running maximum; (E2c) SCC check that "
        "every cycle of the outer interpreter loop polls Thread::interrupted and that Call/TailCall leave the dispatch loop; "
        "(E2e) in the TailCall arm exit_scope and remove_range dominate do_call; (E2d) for each of the 40 fixed-effect instructions "
        "the net value-stack effect of its interpreter arm, summed along every path to the next fetch, equals (or is below) the "
        "linear expression Instruction::adjust returns, six data-dependent instructions being listed with their reason. It does not "
        "(E2g) every thread context's heap comes from its parent's new_child_gc, which passes the parent's memory_limit and generation.next() to "
        "Gc::new; writers of Gc.memory_limit are Gc::new and set_memory_limit. It does not "
        "decide that the compiler's running stack_size models every emitted sequence, nor promptness in wall-clock terms.")
    rep.assumptions += [
        "rustc nightly MIR construction and callee resolution are trusted",
        "value flow inside a function is tracked flow-insensitively per local (union of definitions)",
        "memory allocated outside the GC heap (Vec growth of the value stack, Rust-side buffers) is not accounted by gluon at all and is outside this rule",
        "jumps emitted by the compiler are forward-only (run-time property of emitted code, not decided)",
    ]
    e2a(fb, rep)
    e2b(fb, rep)
    e2c(fb, rep)
    e2e(fb, rep)
    e2f(fb, rep)
    e2g(fb, rep)
    e2i(fb, rep)
    from . import e2d
    e2d.run(fb, rep)
