"""C08 — infix grouping: the shift/reduce decision table of the operator re-parser (engine E13).

Decided clause: in `infix::reparse`, for ordering = cmp(next.precedence, stack.precedence):
   Less    -> reduce (make_op on the two top arguments with the *stack* operator, re-queue the next operator)
   Greater -> shift  (push the stack operator back, then the next operator)
   Equal   -> (Left, Left) reduce; (Right, Right) shift; mixed -> Error::ConflictingFixities
extracted from the MIR by the actions each switch edge performs, and compared with that reference table; the final
drain reduces the remaining operators right to left.  Layout, spans, printing and round trips are not decided."""
from . import flow
from .common import enum_switches_any, variant_names
from .facts import op_place

CRATES = {"gluon_parser", "gluon_base"}
THOROUGH_CONFIGS = ["default", "nodefault"]  # thorough also analyses the default-feature and the no-default-features builds
FN = "gluon_parser::infix::reparse"
FIX = "gluon_parser::infix::Fixity"
OPMETA = "gluon_parser::infix::OpMeta"
INFIXES = "gluon_parser::infix::Infixes"


def _classify(b, region, make_op_id):
    calls = [c for c in b.calls() if c.bb in region]
    has_make = any(c.res == make_op_id for c in calls)
    pushes = [c for c in calls if c.res.endswith("Vec::<T, A>::push")]
    op_push = 0
    arg_push = 0
    for c in pushes:
        el = b.tstr(c.desc["ga"][0]) if c.desc.get("ga") else ""
        if "Expr<" in el:
            arg_push += 1
        else:
            op_push += 1
    sets_next = any(i in region and any(isinstance(p, list) and p[0] == "f" and len(p) == 4 and p[1] == INFIXES and p[3] == "next_op" for p in pl[1])
                    for i, j, pl, rv, ln in b.assigns())
    conflict = any(i in region for i in flow.blocks_constructing(b, "gluon_parser::infix::Error", "ConflictingFixities"))
    returns = bool(set(b.return_blocks()) & b.reachable(list(region)))
    if conflict:
        return "conflict", "ConflictingFixities constructed"
    if has_make and sets_next and arg_push >= 1 and op_push == 0:
        return "reduce", "make_op + next_op re-queued + arg push"
    if op_push == 2 and not has_make:
        return "shift", "two operator pushes"
    return "?", "make_op=%s next_op=%s arg_push=%d op_push=%d" % (has_make, sets_next, arg_push, op_push)


def run(fb, rep, tier, cfg):
    R = "E13"
    rep.explanation = (
        "Static analysis of gluon_parser::infix::reparse's MIR. The switch on the Ordering returned by "
        "<i32 as Ord>::cmp(next_op.precedence, stack_op.precedence) and the nested switches on the two Fixity discriminants are "
        "located by type; each edge's exclusive region is classified by the actions it performs (make_op with the stack operator + "
        "re-queue of the next operator = reduce; two pushes on the operator stack = shift; construction of ConflictingFixities = "
        "conflict) and the resulting 3 + 4 entry table is compared with the reference shift/reduce table of an operator-precedence "
        "parser; the final drain loop pops operators from the end of the stack. Everything about layout, spans, printing and round "
        "trips in C08 is not decided.")
    rep.assumptions += ["user fixity declarations are data; the built-in table is compared with std's declarations of the same operators (E13b)"]
    rep.rule(R, "shift/reduce decision table of the infix re-parser equals the reference table")
    b = fb.body(FN)
    if b is None:
        rep.anchor_lost(R, FN)
        return
    make_op_id = FN + "::{closure#0}"
    cmps = [c for c in b.calls() if c.res.endswith("Ord for i32>::cmp") or (c.fn and c.fn.endswith("Ord::cmp"))]
    if not cmps:
        rep.anchor_lost(R, "precedence comparison in reparse")
        return
    cmp = cmps[0]
    a0 = flow.sources(b, cmp.args[0])
    a1 = flow.sources(b, cmp.args[1])
    prec0 = ("field", OPMETA, "precedence") in a0
    prec1 = ("field", OPMETA, "precedence") in a1
    # which side is the operator taken from the stack? its get_at argument derives from Vec::pop
    stack0 = flow.has_call(a0, lambda n: n.endswith("Vec::<T, A>::pop"))
    stack1 = flow.has_call(a1, lambda n: n.endswith("Vec::<T, A>::pop"))
    if not (prec0 and prec1 and stack1 and not stack0):
        rep.violation(R, "cmp-operands", "the ordering is no longer cmp(next_op.precedence, stack_op.precedence) (prec=%s/%s, from-stack=%s/%s)" % (prec0, prec1, stack0, stack1), cmp.where())
        return
    rep.ok(R, "ordering = <i32 as Ord>::cmp(next_op.precedence, stack_op.precedence)")
    # the decision, read by walking the CFG under each assignment of (ordering, next.fixity, stack.fixity): every switch on
    # one of the three discriminants follows the assigned value, every other branch is explored on all sides, the walk stops at
    # the loop head; the actions met on the way classify the decision.  Independent of how the match is nested or flattened.
    fnames = variant_names(fb, FIX)
    if fnames[:2] != ["Left", "Right"]:
        rep.anchor_lost(R, "enum Fixity { Left, Right }")
        return
    head = [c.bb for c in b.calls() if c.res.endswith("Infixes::<'ast, Id>::next") or c.res.endswith("Iterator>::next") and "Infixes" in c.res]
    is_pop = lambda n: n.endswith("Vec::<T, A>::pop")
    is_cmp = lambda n: n.endswith("Ord for i32>::cmp") or n.endswith("Ord::cmp")

    def role(place):
        local, projs = place
        srcs = None
        if projs and isinstance(projs[-1], list) and projs[-1][0] == "f" and len(projs[-1]) == 2:
            for d in b.defs_of(local):
                if d[0] == "assign" and d[3][0] == "agg" and d[3][1][0] == "tuple" and projs[-1][1] < len(d[3][2]):
                    srcs = flow.sources(b, d[3][2][projs[-1][1]])
        if srcs is None:
            srcs = flow.sources(b, place)
        if ("field", OPMETA, "fixity") in srcs:
            return "stack" if flow.has_call(srcs, is_pop) else "next"
        if flow.has_call(srcs, is_cmp) and ("field", OPMETA, "precedence") in srcs:
            return "ord"
        return None
    roles = {}
    for bb2, place, m2, o2 in enum_switches_any(b):
        r_ = role(place)
        if r_:
            roles[bb2] = (r_, m2, o2)
    n_ord = sum(1 for v in roles.values() if v[0] == "ord")
    n_fix = sum(1 for v in roles.values() if v[0] in ("next", "stack"))
    if not n_ord or n_fix < 2:
        rep.anchor_lost(R, "switches on the ordering (%d) and on the two fixities (%d)" % (n_ord, n_fix))
        return

    def walk(assign):
        seen, work = set(), [cmp.target]
        while work:
            x = work.pop()
            if x is None or x in seen or x in head:
                continue
            seen.add(x)
            if x in roles:
                r_, m2, o2 = roles[x]
                work.append(m2.get(assign[r_], o2))
            else:
                work.extend(b.succ(x))
        return seen
    ORD = {"Less": 255, "Equal": 0, "Greater": 1}
    ref = {}
    for nf in (0, 1):
        for sf in (0, 1):
            ref[("Less", nf, sf)] = "reduce"
            ref[("Greater", nf, sf)] = "shift"
            ref[("Equal", nf, sf)] = "reduce" if (nf, sf) == (0, 0) else ("shift" if (nf, sf) == (1, 1) else "conflict")
    for (o, nf, sf), want_ in sorted(ref.items()):
        region = walk({"ord": ORD[o], "next": nf, "stack": sf})
        got, why = _classify(b, region, make_op_id)
        label = "%s, next=%s, stack=%s" % (o, fnames[nf], fnames[sf])
        if got == want_:
            rep.ok(R, "precedence %s -> %s (%s)" % (label, got, why))
        else:
            rep.violation(R, "decision|%s|%s|%s" % (o, fnames[nf], fnames[sf]),
                          "cmp(next.precedence, stack.precedence) = %s with next %s-associative and stacked %s-associative: expected %s, the code does %s (%s)"
                          % (o, fnames[nf].lower(), fnames[sf].lower(), want_, got, why), "%s:%s" % (b.file, b.line))
        if want_ == "reduce" and got == "reduce":
            mk = [c for c in b.calls() if c.bb in region and c.res == make_op_id]
            srcs = flow.sources(b, mk[0].args[1]) if mk and len(mk[0].args) > 1 else set()
            if flow.has_call(srcs, is_pop):
                rep.ok(R, "%s: reduce builds the node with the operator popped from the stack" % label)
            else:
                rep.violation(R, "reduce-wrong-operator", "reduce builds the node with the incoming operator instead of the stacked one", mk[0].where() if mk else b.where())
    # final drain: operators popped from the end (into_iter().rev())
    rev = [c for c in b.calls() if c.fn and c.fn.endswith("Iterator::rev")]
    mk_all = [c for c in b.calls() if c.res == make_op_id]
    drain_ok = False
    for comp in b.sccs():
        if any(c.bb in comp for c in mk_all) and any(c.bb in comp and (c.fn or "").endswith("Iterator::next") for c in b.calls()):
            nx = [c for c in b.calls() if c.bb in comp and (c.fn or "").endswith("Iterator::next")]
            if any("Rev<" in b.tstr(c.desc["self"]) for c in nx if "self" in c.desc):
                drain_ok = True
    if drain_ok and rev:
        rep.ok(R, "final drain reduces the remaining operators from the top of the stack (into_iter().rev())")
    else:
        rep.violation(R, "drain-order", "the final drain no longer reduces the operator stack from its top", b.where())
    e13b(fb, rep)
    e13c(fb, rep)


# ---------------------------------------------------------------------------------------------------------------
# E13b — the built-in operator table (OpTable::get fallback for `#Type op`, `&&`, `||`)
def builtin_table(fb):
    """{op: (precedence, 'Left'|'Right')} read from the promoted constant of OpTable::get's OPS array"""
    out = {}
    for bid, b in fb.bodies.items():
        if not (bid.startswith("gluon_parser::infix::OpTable::") and "::OPS" in bid and b.kind == "promoted"):
            continue
        fix, meta = {}, {}
        for i, j, place, rv, line in b.assigns():
            if rv[0] != "agg" or place[1]:
                continue
            head = rv[1]
            if head[0] == "adt" and head[1] == FIX:
                fix[place[0]] = head[2]
            elif head[0] == "adt" and head[1] == OPMETA and len(rv[2]) == 2:
                k = rv[2][0][1].get("int") if rv[2][0][0] == "k" else None
                p = op_place(rv[2][1])
                meta[place[0]] = (k, fix.get(p[0]) if p else None)
            elif head[0] == "tuple" and len(rv[2]) == 2 and rv[2][0][0] == "k" and "str" in rv[2][0][1]:
                p = op_place(rv[2][1])
                if p and p[0] in meta:
                    out[rv[2][0][1]["str"]] = meta[p[0]]
    return out


def std_declared(repo):
    """{op: {(precedence, fixity): [file]}} from `#[infix(<fixity>, <n>)]` attributes on operator bindings in std/*.glu"""
    import glob
    import os
    import re
    pat = re.compile(r"#\[infix\(\s*(left|right)\s*,\s*(\d+)\s*\)\]\s*(?:#\[[^\]]*\]\s*)*(?:let\s+)?\(([^()\s]+)\)")
    out = {}
    for f in sorted(glob.glob(os.path.join(repo, "std", "**", "*.glu"), recursive=True)):
        for m in pat.finditer(open(f, encoding="utf-8").read()):
            out.setdefault(m.group(3), {}).setdefault((int(m.group(2)), m.group(1).capitalize()), []).append(os.path.relpath(f, repo))
    return out


def e13b(fb, rep):
    import harness
    R = "E13b"
    rep.rule(R, "built-in operator precedences agree with the std declarations of the same operators; || < && < comparisons, both right associative")
    t = builtin_table(fb)
    if len(t) < 12:
        rep.anchor_lost(R, "OpTable::get built-in OPS table (%d rows read)" % len(t))
        return
    decl = std_declared(harness.REPO)
    rep.floor(R, "operators with an #[infix] declaration in std", len(decl), 20)
    n = 0
    for op in sorted(t):
        if op in ("&&", "||"):
            continue
        d = decl.get(op)
        if not d:
            rep.violation(R, "no-sibling|%s" % op, "built-in operator `%s` has no #[infix] declaration in std to agree with" % op, "parser/src/infix.rs")
            continue
        n += 1
        if set(d) == {t[op]}:
            rep.ok(R, "`#T%s` %s %d == #[infix] of (%s) in %s" % (op, t[op][1], t[op][0], op, sorted({f for v in d.values() for f in v})[0]))
        else:
            rep.violation(R, "builtin-vs-std|%s" % op, "the built-in `#<Type>%s` is %s %s but std declares (%s) as %s: `a #Int%s b` and `a %s b` group differently"
                          % (op, t[op][1].lower(), t[op][0], op, sorted(d), op, op), "parser/src/infix.rs")
    rep.floor(R, "built-in operators with a std sibling", n, 10)
    a, o = t.get("&&"), t.get("||")
    cmp_ = [t[x][0] for x in ("==", "/=", "<", ">", "<=", ">=") if x in t]
    if a is None or o is None or not cmp_:
        rep.anchor_lost(R, "rows for && / || / comparisons")
        return
    if o[0] < a[0] < min(cmp_):
        rep.ok(R, "precedence(||)=%d < precedence(&&)=%d < comparisons=%d" % (o[0], a[0], min(cmp_)))
    else:
        rep.violation(R, "bool-operator-order", "precedence(||)=%d, precedence(&&)=%d, comparisons=%d: `a && b || c` must group as `(a && b) || c` and "
                      "`x < y && p` as `(x < y) && p`" % (o[0], a[0], min(cmp_)), "parser/src/infix.rs")
    if a[1] == "Right" and o[1] == "Right":
        rep.ok(R, "&& and || are right associative (short-circuit chains nest to the right)")
    else:
        rep.violation(R, "bool-operator-fixity", "&& is %s, || is %s (both must be Right)" % (a[1], o[1]), "parser/src/infix.rs")


def e13c(fb, rep):
    """E13c — the collector of declared fixities sees every operator a pattern binds.

    `reparse_infix` first walks the tree with a visitor whose `visit_pattern` records the `#[infix]` metadata of the operators a
    pattern introduces (role: the `ast::Visitor` impl whose `visit_pattern` inserts into `OpTable.operators`, directly or through
    a helper).  Operators can be bound arbitrarily deep (`{ ops = { (-->) } }`, `{ (-->) = (~>) }`, `(a, { (<+) })`), so for every
    pattern variant that has sub-patterns (`As`, `Constructor`, `Record`, `Tuple`) the override must continue into them: from that
    variant's switch edge every path to a return passes `walk_pattern` (or a recursive `visit_pattern`).  An operator the collector
    misses has no table entry; the re-parser swallows `UndefinedFixity` for it and the chain keeps the default right-nested grouping."""
    R = "E13c"
    rep.rule(R, "the fixity collector continues into the sub-patterns of every pattern variant that has any")
    PAT = "gluon_base::ast::Pattern"
    cands = []
    for im in fb.impls:
        tr = im.get("trait") or ""
        if not (tr.startswith("gluon_base::ast::") and tr.endswith("Visitor")) or im["_crate"].name != "gluon_parser":
            continue
        for it in im["items"]:
            if it["name"] == "visit_pattern":
                b = fb.body(it["path"])
                if b is None:
                    continue
                helpers = [b] + [fb.body(c.res) for c in b.calls() if fb.body(c.res) is not None and c.res.startswith("gluon_parser::")]
                if any(("field", "gluon_parser::infix::OpTable", "operators") in flow.sources(h, c.args[0], depth=10)
                       for h in helpers for c in h.calls() if c.args and "HashMap" in c.res and c.res.rsplit("::", 1)[1] == "insert"):
                    cands.append(b)
    if len(cands) != 1:
        rep.anchor_lost(R, "the visit_pattern override that records declared fixities (%d candidates)" % len(cands))
        return
    b = cands[0]
    names = variant_names(fb, PAT)
    with_children = [n for n in ("As", "Constructor", "Record", "Tuple") if n in names]
    cont = [c.bb for c in b.calls() if c.res.endswith("::walk_pattern") or (c.fn or "").endswith("Visitor::visit_pattern")]
    sw = None
    for bb, place, m, other in enum_switches_any(b):
        if len(m) + (1 if other is not None else 0) >= 2:
            sw = (bb, m, other)
            break
    rets = set(b.return_blocks())
    if sw is None:
        if cont and not (b.reachable(0, avoid_blocks=cont) & rets):
            rep.ok(R, "%s: walk_pattern on every path" % b.id)
        else:
            rep.violation(R, "subpatterns-not-visited|*", "%s can return without visiting the sub-patterns" % b.id, b.where())
        return
    bb, m, other = sw
    n = 0
    for v in with_children:
        idx = names.index(v)
        tgt = m.get(idx, other)
        if tgt is None:
            continue
        n += 1
        leak = b.reachable(tgt, avoid_blocks=cont) & rets if tgt not in cont else set()
        if leak:
            rep.violation(R, "subpatterns-not-visited|%s" % v, "%s: for Pattern::%s the collector returns without walk_pattern: operators bound in its sub-patterns "
                          "(nested record patterns, renamed fields) keep no declared fixity and are grouped by the fallback" % (b.id, v), b.where(), path=sorted(leak))
        else:
            rep.ok(R, "Pattern::%s: sub-patterns are visited (walk_pattern on every path)" % v)
    rep.floor(R, "pattern variants with sub-patterns examined", n, 4)
