"""C12 — precompiled bytecode behaves like its source (engine E8).

R8a  no field or variant of the type graph reachable from the precompiled-module type carries a serde attribute that
     drops or defaults it (`skip`, `skip_serializing*`, `skip_deserializing`, `default`), attributes read after cfg_attr
     expansion under the `serialization` feature; every workspace type in the graph has both directions implemented.
R8b  the features that gate the `derive` and the features that gate its container/field attributes are always enabled
     together (Cargo feature tables).
R8c  loading is total on the error side: the deserialisation result is consumed through `map_err`/`?`, and the
     deserialisation code has no unreviewed unconditional panic site.
Not decided: behavioural equality of the loaded module."""
import os
import re

from . import flow
from .common import table, CallGraph

CRATES = {"gluon_vm", "gluon", "gluon_base"}
THOROUGH_CONFIGS = []  # the rule is about the serialization configuration only
ROOT = "gluon::compiler_pipeline::Module"
BAD_ATTR = re.compile(r"\b(skip_serializing_if|skip_serializing|skip_deserializing|skip|default)\b")


# hand-written impls that only add sharing around a derived payload: descend through them
TRANSPARENT = {"gluon_base::types::ArcType": "shared-node wrapper around the derived `Type` tree",
               "gluon_base::types::ArcTypeInner": "payload holder of ArcType"}

SER_TRAITS = ("serde_state::ser::SerializeState", "serde_core::ser::Serialize", "serde::ser::Serialize")
DE_TRAITS = ("serde_state::de::DeserializeState", "serde_core::de::Deserialize", "serde::de::Deserialize")


def _serde_impls(fb):
    """{adt path: {'ser': 'derived'|'manual', 'de': ...}} for workspace ADTs"""
    out = {}
    for im in fb.impls:
        tr = im.get("trait") or ""
        if tr not in SER_TRAITS + DE_TRAITS:
            continue
        row = im["_crate"].types[im["self"]]
        if row.get("k") != "adt":
            continue
        derived = im.get("from_expansion") and "::_::" in im["path"] or "::_#" in im["path"] and im.get("from_expansion")
        kind = "derived" if derived else "manual"
        d = out.setdefault(row["adt"], {})
        d["ser" if tr in SER_TRAITS else "de"] = kind
    return out


def _type_graph(fb, root):
    """workspace ADTs whose *fields* travel in a precompiled module: start at root, descend through the fields of types
    with a derived (de)serialiser (skipping nothing: skipped fields are what R8a reports) and through the generic
    arguments of foreign containers; a type with a hand-written serialiser is a leaf (its wire format is its own)."""
    impls = _serde_impls(fb)
    seen = {}
    leaves = {}
    work = [root]
    while work:
        p = work.pop()
        if p in seen or p in leaves:
            continue
        a = fb.adts.get(p)
        if a is None:
            continue
        kinds = impls.get(p, {})
        if kinds.get("ser") != "derived" and kinds.get("de") != "derived" and p not in TRANSPARENT:
            leaves[p] = kinds
            continue
        seen[p] = a
        types = a["_crate"].types

        def walk(row, depth=0):
            if depth > 8:
                return
            if row.get("k") == "adt":
                if row["adt"] in fb.adts:
                    work.append(row["adt"])
                    # generic arguments of a workspace type with a derived impl are reached through its fields
                    if impls.get(row["adt"], {}).get("ser") == "derived":
                        return
            for c in row.get("c", []):
                walk(types[c], depth + 1)
        for v in a["variants"]:
            for f in v["fields"]:
                if any("serde" in at and BAD_ATTR.search(at) for at in f.get("attrs", [])):
                    continue  # not serialised: what lies behind it does not travel (the skip itself is judged by R8a)
                walk(types[f["ty"]])
    return seen, leaves, impls


def r8a(fb, rep):
    R = "R8a"
    rep.rule(R, "no field of the precompiled-module type graph is skipped or defaulted in (de)serialisation")
    if ROOT not in fb.adts:
        rep.anchor_lost(R, ROOT)
        return
    graph, leaves, impls = _type_graph(fb, ROOT)
    rep.floor(R, "workspace types with derived (de)serialisers in the precompiled-module graph", len(graph), 12)
    exempt = {(e["adt"], e["field"]): e["reason"] for e in table("serde_skip_ok.json")["exempt"]}
    n_fields = 0
    n_attr = 0
    for p, a in sorted(graph.items()):
        if not a.get("ast_attrs_joined"):
            rep.violation(R, "attrs-unavailable|%s" % p, "the AST attributes of %s could not be joined (rule would be blind)" % p, "%s:%s" % (a["file"], a["line"]))
        for v in a["variants"]:
            for at in v.get("attrs", []):
                if "serde" in at and BAD_ATTR.search(at):
                    rep.violation(R, "variant-skipped|%s|%s" % (p, v["name"]), "%s::%s carries %s" % (p, v["name"], at.strip()), "%s:%s" % (a["file"], a["line"]))
            for f in v["fields"]:
                n_fields += 1
                bad = [at for at in f.get("attrs", []) if "serde" in at and BAD_ATTR.search(at)]
                n_attr += sum(1 for at in f.get("attrs", []) if "serde" in at)
                if bad:
                    key = (p, f["name"])
                    if key in exempt:
                        rep.exception(R, "%s.%s" % key, exempt[key])
                    else:
                        rep.violation(R, "field-skipped|%s|%s" % key, "%s.%s is dropped/defaulted by %s — a precompiled module loses it" % (p, f["name"], bad[0].strip()),
                                      "%s:%s" % (a["file"], a["line"]))
                else:
                    rep.ok(R, "%s.%s travels" % (p.rsplit("::", 1)[1], f["name"]) if n_fields % 7 == 0 else None)
    rep.floor(R, "fields examined", n_fields, 40)
    rep.floor(R, "serde field attributes seen (cfg_attr expanded, read from the AST)", n_attr, 10)
    # a derived impl in one direction needs the other direction
    for p in sorted(graph):
        k = impls.get(p, {})
        if ("ser" in k) != ("de" in k):
            rep.violation(R, "one-direction|%s" % p, "%s derives only %s" % (p, "Serialize" if "ser" in k else "Deserialize"), "")
        else:
            rep.ok(R, None)
    rep.extra["graph_types"] = sorted(graph)
    rep.extra["leaf_types_with_own_wire_format"] = {p: k for p, k in sorted(leaves.items())}
    # the key structures must be in the graph at all (anchor)
    for need in ("gluon_vm::compiler::CompiledModule", "gluon_vm::compiler::CompiledFunction", "gluon_vm::types::Instruction",
                 "gluon_vm::compiler::DebugInfo", "gluon_base::metadata::Metadata"):
        if need not in graph:
            rep.violation(R, "graph-lost|%s" % need, "%s is no longer reachable from the precompiled module type" % need, "")
        else:
            rep.ok(R, "%s is part of the precompiled module" % need)


def _features(path):
    import tomllib
    with open(path, "rb") as f:
        d = tomllib.load(f)
    return d.get("features", {})


def r8b(fb, rep, repo):
    R = "R8b"
    rep.rule(R, "derive and attribute feature gates are enabled together")
    n = 0
    for rel in ("vm/Cargo.toml", "base/Cargo.toml", "Cargo.toml"):
        p = os.path.join(repo, rel)
        if not os.path.exists(p):
            rep.anchor_lost(R, rel)
            continue
        feats = _features(p)

        def closure(f, seen=None):
            seen = seen or set()
            if f in seen:
                return seen
            seen.add(f)
            for x in feats.get(f, []):
                x = x.split("/")[0].replace("dep:", "")
                if x in feats:
                    closure(x, seen)
                else:
                    seen.add(x)
            return seen
        for f in feats:
            c = closure(f)
            a, b = "serde_derive" in c, "serde_derive_state" in c
            if rel == "Cargo.toml":
                continue  # the root crate has no serde_derive feature of its own (only serde_derive_state)
            if a or b:
                n += 1
                if a != b:
                    rep.violation(R, "feature-split|%s|%s" % (rel, f), "%s: feature `%s` enables %s without %s: derives and their serde(...) attributes come apart" % (
                        rel, f, "serde_derive" if a else "serde_derive_state", "serde_derive_state" if a else "serde_derive"), rel)
                else:
                    rep.ok(R, "%s: feature `%s` enables serde_derive and serde_derive_state together" % (rel, f))
    rep.floor(R, "features enabling serde derives", n, 2)


def r8c(fb, rep):
    R = "R8c"
    rep.rule(R, "loading fails with an error, never a panic: deserialisation result propagated; panic sites reviewed")
    reviewed = {e["site"]: e["reason"] for e in table("deser_panic_reviewed.json")["reviewed"]}
    # (1) the Precompiled executable consumes the result through map_err / ?
    n = 0
    for bid, b in fb.pre.items():
        if "compiler_pipeline::Precompiled" not in bid:
            continue
        des = [c for c in b.calls() if c.res.endswith("serialization::DeSeed::<'gc>::deserialize")]
        for d in des:
            n += 1
            # follow the result through combinators until it is branched on (`?`) or unwrapped
            frontier = [d.dest[0]]
            seen_l = set()
            verdict = None
            names = set()
            while frontier and verdict is None:
                l = frontier.pop()
                if l in seen_l:
                    continue
                seen_l.add(l)
                locs = flow.derived_locals(b, l)
                for c in b.calls():
                    if c is d:
                        continue
                    if any((a[0] in ("c", "m") and a[1][0] in locs) for a in c.args):
                        nm = c.res.rsplit("::", 1)[1]
                        names.add(nm)
                        if nm in ("unwrap", "expect", "unwrap_unchecked", "unwrap_or_default"):
                            verdict = "unwrap"
                        elif nm == "branch":
                            verdict = "propagated"
                        elif c.dest is not None:
                            frontier.append(c.dest[0])
            if verdict == "unwrap":
                rep.violation(R, "deser-unwrap|%s" % bid, "%s unwraps the deserialisation result" % bid, d.where())
            elif verdict == "propagated":
                rep.ok(R, "%s: DeSeed::deserialize(..).map_err(..)? " % bid)
            else:
                rep.violation(R, "deser-result-shape|%s" % bid, "%s does not propagate the deserialisation error (%s)" % (bid, sorted(names)), d.where())
    rep.floor(R, "Precompiled load sites", n, 2)
    # (2) census of unconditional panic sites in the hand-written deserialisation code
    sites = {}
    # the link stage: functions that consume a loaded CompiledModule / CompiledFunction by value (and their closures)
    link_roots = set()
    for b in fb.bodies.values():
        if b.crate.name == "gluon_vm" and b.kind == "fn":
            for i in range(1, (b.get("argc") or 0) + 1):
                t = b.local_tstr(i)
                if t in ("gluon_vm::compiler::CompiledModule", "gluon_vm::compiler::CompiledFunction"):
                    link_roots.add(b.id)
    rep.floor(R, "link-stage functions consuming a loaded module", len(link_roots), 3)
    for b in fb.bodies.values():
        is_link = b.id in link_roots or (b.get("root") in link_roots) or any(b.id.startswith(r + "::{closure") for r in link_roots)
        if not is_link:
            if not b.file.endswith("vm/src/serialization.rs") and not b.file.endswith("base/src/serialization.rs"):
                continue
            if "Deserialize" not in b.id and "deserialize" not in b.id and "Visitor" not in b.id and "DeSeed" not in b.id:
                continue
        for c in b.calls():
            nm = c.res
            kind = None
            if nm.endswith("Option::<T>::unwrap") or nm.endswith("Result::<T, E>::unwrap"):
                # lock poisoning / RefCell borrows are not data dependent
                at = b.local_tstr(c.args[0][1][0]) if c.args and c.args[0][0] in ("c", "m") else ""
                if "PoisonError" in at:
                    continue
                kind = "unwrap"
            elif nm.endswith("::expect"):
                kind = "expect"
            elif nm.startswith("core::panicking::panic") and not c.exp and c.target is None:
                kind = "panic"
            elif nm.startswith("core::panicking::panic") and c.target is None:
                kind = "panic"
            if kind:
                root = b.get("root") or b.id
                sites.setdefault((root, kind), c.where())
        for i, blk in enumerate(b.blocks):
            t = blk["t"]
            if t[0] == "assert" and t[3][0] == "BoundsCheck":
                root = b.get("root") or b.id
                sites.setdefault((root, "index"), "%s:%s" % (b.file, t[6]))
    for (root, kind), where in sorted(sites.items()):
        key = "%s|%s" % (root, kind)
        if key in reviewed:
            rep.exception(R, key, reviewed[key])
        else:
            rep.violation(R, "deser-panic-site|%s" % key, "unreviewed %s in deserialisation code %s: corrupt bytecode may panic instead of failing" % (kind, root), where)
    rep.extra["deser_panic_sites"] = len(sites)


WITH_RE = re.compile(r"\b(serialize_state_with|deserialize_state_with|state_with|serialize_with|deserialize_with|with)\s*=\s*\"([^\"]+)\"")
FLAG_RE = re.compile(r"\b(serialize_state|deserialize_state|state)\b(?!\s*=)(?!_)")


def _codec(attrs):
    """(ser, de): the codec used for a field in each direction: 'derived', 'state', or the module of a custom function pair"""
    ser = de = "derived"
    for at in attrs:
        if "serde" not in at:
            continue
        body = at[at.index("(") + 1:at.rindex(")")] if "(" in at and ")" in at else at
        for k, v in WITH_RE.findall(body):
            v = v.lstrip(":")
            v = v[len("crate::"):] if v.startswith("crate::") else v
            v = v[len("vm::"):] if v.startswith("vm::") else v
            if k in ("state_with", "with"):
                ser = de = "mod:" + v
            elif k.startswith("serialize"):
                ser = "fn:" + v
            else:
                de = "fn:" + v
        rest = WITH_RE.sub("", body)
        for k in FLAG_RE.findall(rest):
            if k == "state":
                ser = ser if ser != "derived" else "state"
                de = de if de != "derived" else "state"
            elif k == "serialize_state":
                ser = "state"
            else:
                de = "state"
    return ser, de


def r8d(fb, rep):
    """a field travels through the *same* codec in both directions"""
    R = "R8d"
    rep.rule(R, "every field of the precompiled-module type graph is written and read by the same codec (no one-sided custom function)")
    graph, leaves, impls = _type_graph(fb, ROOT)
    reviewed = {(e["adt"], e["field"]): e for e in table("serde_asymmetric_reviewed.json")["reviewed"]}
    n = n_custom = 0
    for p, a in sorted(graph.items()):
        for v in a["variants"]:
            for f in v["fields"]:
                ser, de = _codec(f.get("attrs", []))
                n += 1
                if ser.startswith(("mod:", "fn:")) or de.startswith(("mod:", "fn:")):
                    n_custom += 1
                sym = ser == de
                if not sym and ser.startswith("fn:") and de.startswith("fn:"):
                    # X::serialize / X::deserialize of one module is a pair
                    sym = ser[3:].rsplit("::", 1)[0] == de[3:].rsplit("::", 1)[0] and "::" in ser and "::" in de
                key = (p, f["name"])
                if sym:
                    rep.ok(R, "%s.%s: %s both ways" % (p.rsplit("::", 1)[1], f["name"], ser) if ser != "state" and ser != "derived" else None)
                elif key in reviewed and reviewed[key].get("ser") == ser and reviewed[key].get("de") == de:
                    rep.exception(R, "%s.%s" % key, reviewed[key]["reason"])
                else:
                    rep.violation(R, "asymmetric-codec|%s|%s" % key, "%s.%s is written with %s but read with %s: the two sides are maintained separately and need not "
                                  "accept each other's output (borrowed vs owned strings, sharing tables, element order)" % (p, f["name"], ser, de),
                                  "%s:%s" % (a["file"], a["line"]))
    rep.floor(R, "fields examined", n, 40)
    rep.floor(R, "fields with a custom codec", n_custom, 10)


def r8e(fb, rep):
    """no zero-copy (borrowed) string/bytes deserialisation on the load path: a self-describing text format can only lend
    strings that need no unescaping, so such a reader accepts some modules and rejects others with the same meaning"""
    R = "R8e"
    rep.rule(R, "the load path never deserialises a borrowed &str / &[u8] (fails on any string that needs unescaping)")
    n = 0
    bad = []
    for b in fb.bodies.values():
        if b.crate.name not in ("gluon_vm", "gluon_base", "gluon"):
            continue
        for c in b.calls():
            fn = c.fn or ""
            if not (fn.endswith("Deserialize::deserialize") or fn.endswith("DeserializeState::deserialize_state") or fn.endswith("DeserializeSeed::deserialize")
                    or fn.endswith("SeqAccess::next_element") or fn.endswith("MapAccess::next_value") or fn.endswith("MapAccess::next_key")
                    or fn.endswith("SeqAccess::next_element_seed")):
                continue
            n += 1
            for g in c.desc.get("ga", []):
                ts = b.tstr(g)
                if re.search(r"&('\w+ )?(str|\[u8\])", ts):
                    bad.append((b, c, ts))
    rep.floor(R, "deserialise calls examined", n, 30)
    for b, c, ts in bad:
        rep.violation(R, "borrowed-deserialise|%s" % (b.get("root") or b.id), "%s deserialises a borrowed value (%s): input strings that need unescaping are rejected" % (b.id, ts[:80]), c.where())
    if not bad:
        rep.ok(R, "%d deserialise calls, none at a borrowed string/bytes type" % n)


def r8f(fb, rep):
    """a reference to a host function in bytecode is resolved against the loading VM: the native function pointer is only ever
    paired with the arity of that same native function, and the arity recorded in the bytecode is compared with it"""
    R = "R8f"
    rep.rule(R, "a deserialised extern-function reference takes pointer and arity from the VM's definition and rejects a differing recorded arity")
    EF = "gluon_vm::value::ExternFunction"
    n = 0
    for b in fb.bodies.values():
        if b.crate.name != "gluon_vm" or "serialization" not in b.id:
            continue
        for i, j, pl, rv, ln in b.assigns():
            if not (rv[0] == "agg" and rv[1][0] == "adt" and rv[1][1] == EF):
                continue
            n += 1
            a_src = flow.sources(b, rv[2][1], depth=12)
            f_src = flow.sources(b, rv[2][2], depth=12)
            paired = ("field", EF, "args") in a_src and ("field", EF, "function") in f_src
            if not paired:
                rep.violation(R, "extern-arity-from-bytecode|%s" % (b.get("root") or b.id)[:80], "%s pairs the VM's native function pointer with an arity that does not come from the same "
                              "definition: a corrupted or foreign `args` makes the extern wrapper index past its frame (abort)" % b.id, "%s:%s" % (b.file, ln))
                continue
            # the recorded arity is compared with the VM's before the reference is accepted
            guard = False
            for bb, op, lhs, rhs, true_t, false_t in flow.comparison_switches(b):
                ls, rs = flow.sources(b, lhs, depth=12), flow.sources(b, rhs, depth=12)
                if op in ("Eq", "Ne") and (("field", EF, "args") in ls) != (("field", EF, "args") in rs):
                    edge = true_t if op == "Eq" else false_t
                    if flow.only_via_edge(b, i, (bb, edge)):
                        guard = True
            if guard:
                rep.ok(R, "%s: ExternFunction { args, function } from the VM's definition, behind `recorded args == defined args`" % b.id[:90])
            else:
                rep.violation(R, "extern-arity-unchecked|%s" % (b.get("root") or b.id)[:80], "%s accepts an extern-function reference without comparing the recorded arity with the "
                              "VM's definition" % b.id, "%s:%s" % (b.file, ln))
    rep.floor(R, "extern-function constructions in deserialisation code", n, 1)


def r8g(fb, rep):
    """sibling agreement of the two Executable stages: a precompiled module is *evaluated* the same way as a compiled one"""
    R = "R8g"
    rep.rule(R, "Precompiled::run_expr evaluates the module closure with the same top-level evaluator as the source path (CompileValue::run_expr)")
    EV = ("call_thunk_top", "call_thunk", "execute_io_top", "execute_io", "call_function", "resume")

    def evaluators(sub):
        out = set()
        for bid, b in fb.pre.items():
            if sub in bid and "::run_expr" in bid:
                for c in b.calls():
                    nm = c.res.rsplit("::", 1)[-1]
                    if nm in EV and "ThreadInternal" in c.res:
                        out.add(nm)
        return out
    src = evaluators("compiler_pipeline::CompileValue<")
    pre = evaluators("compiler_pipeline::Precompiled<")
    if not src or not pre:
        rep.anchor_lost(R, "run_expr of CompileValue (%s) / Precompiled (%s)" % (sorted(src), sorted(pre)))
        return
    if pre <= src and "call_thunk_top" in pre:
        rep.ok(R, "both stages evaluate the module closure with %s" % sorted(pre))
    else:
        rep.violation(R, "evaluator-differs", "Precompiled::run_expr evaluates the loaded module with %s while the source path uses %s: after a failing precompiled module the "
                      "thread keeps its frames and the next bytecode module resumes them (a value of the wrong type)" % (sorted(pre), sorted(src)), "src/compiler_pipeline.rs")


def run(fb, rep, tier, cfg):
    import harness
    rep.explanation = (
        "Static analysis of the ADT/attribute tables and MIR extracted with `--features serialization`. R8a walks the type "
        "graph reachable from compiler_pipeline::Module (CompiledModule, CompiledFunction, Instruction, DebugInfo, Metadata, "
        "types, symbols ...) and rejects any field/variant whose (cfg_attr-expanded) serde attributes skip or default it, and any "
        "graph type with only one direction implemented; R8b reads the Cargo feature tables so that no feature enables the serde "
        "derive without the feature that supplies its seed attributes; R8c: the Precompiled executable propagates the "
        "deserialiser's error and the hand-written deserialisation code has no unreviewed unwrap/expect/panic/index site. "
        "R8d: every field of that graph goes through the same codec in both directions (derived, `state`, one `state_with` module, or a "
        "serialize/deserialize pair of one module; one reviewed exception); R8e: no deserialise call on the load path is instantiated at a "
        "borrowed &str/&[u8]. Behavioural equality of a loaded module is not decided.")
    rep.assumptions += ["serde / serde_state derive output is trusted to (de)serialise every non-skipped field",
                        "facts come from the `serialization` feature configuration"]
    r8a(fb, rep)
    r8b(fb, rep, harness.REPO)
    r8c(fb, rep)
    r8d(fb, rep)
    r8e(fb, rep)
    r8f(fb, rep)
    r8g(fb, rep)
    r8h(fb, rep)
    r8j(fb, rep)
    r8k(fb, rep)


def _result_ok_type(tstr):
    """`core::result::Result<T, E>` -> T (top-level split)"""
    if not tstr.startswith("core::result::Result<"):
        return None
    inner = tstr[len("core::result::Result<"):-1]
    depth = 0
    for i, ch in enumerate(inner):
        if ch in "<([":
            depth += 1
        elif ch in ">)]":
            depth -= 1
        elif ch == "," and depth == 0:
            return inner[:i].strip()
    return inner.strip()


def r8h(fb, rep):
    """R8h — the reader reads what the writer writes.  `compile_to` (behind `compile_to_bytecode`) serialises one top-level type; every
    stage of the `Precompiled` executable (`run_expr`, and `load_script` behind `load_bytecode`, documented as the inverse of
    `compile_to_bytecode`) must deserialise that same type.  A reader instantiated at another type can never load the writer's
    output ("missing field ...")."""
    R = "R8h"
    rep.rule(R, "every Precompiled stage deserialises the top-level type that compile_to serialises")
    written = set()
    for bid, b in fb.pre.items():
        if bid.startswith("gluon::compiler_pipeline::compile_to"):
            for c in b.calls():
                if "SerializeState<gluon_vm::serialization::SeSeed>" in c.res and c.res.split("#")[0].endswith("::serialize_state") and c.args and c.args[0][0] in ("c", "m"):
                    written.add(b.local_tstr(c.args[0][1][0]).lstrip("&").strip())
    if not written:
        rep.anchor_lost(R, "the serialize_state call of compiler_pipeline::compile_to")
        return
    n = 0
    for bid, b in sorted(fb.pre.items()):
        if "compiler_pipeline::Precompiled" not in bid:
            continue
        stage = "run_expr" if "run_expr" in bid else ("load_script" if "load_script" in bid else bid)
        for c in b.calls():
            if c.res.endswith("serialization::DeSeed::<'gc>::deserialize") and c.dest is not None:
                n += 1
                t = _result_ok_type(b.local_tstr(c.dest[0]))
                if t in written:
                    rep.ok(R, "Precompiled::%s reads %s, which compile_to writes" % (stage, t))
                else:
                    rep.violation(R, "reader-type-not-written|%s|%s" % (stage, (t or "?").split("<")[0]), "Precompiled::%s deserialises `%s` but compile_to (compile_to_bytecode) serialises %s: "
                                  "the documented pair compile_to_bytecode / load_bytecode cannot load its own output" % (stage, t, sorted(written)), c.where())
    rep.floor(R, "Precompiled deserialisation sites", n, 2)


def r8j(fb, rep):
    """R8j — a deserialised array gets the element representation of its data.  `ValueArray` is serialised as the sequence of its
    values whatever its representation (Byte / Int / Float / String / ... / Unknown); the allocation definition the array
    deserialiser is instantiated at must therefore derive the representation from the elements (as `ArrayDef` does with
    `Repr::from_value`), not write one constant: typed accessors (`as_slice::<u8>()`, `&[i64]` arguments, `from_utf8`) refuse an
    array whose representation does not match its element type."""
    R = "R8j"
    rep.rule(R, "the array deserialiser derives the representation of the array from its elements")
    b = next((b for bid, b in fb.bodies.items() if bid.endswith("serialization::gc::deserialize_array") or bid.endswith("::deserialize_array")), None)
    if b is None:
        rep.anchor_lost(R, "serialization::gc::deserialize_array")
        return
    seeds = [c for c in b.calls() if "DeserializeSeed" in c.res or "DeserializeSeed" in c.fn]
    defs = set()
    for c in seeds:
        for a in c.args:
            if a[0] in ("c", "m"):
                t = b.local_tstr(a[1][0])
                if "DataDefSeed<" in t:
                    defs.add(t[t.index("DataDefSeed<") + len("DataDefSeed<"):].rsplit(">", 2)[0])
    if not defs:
        rep.anchor_lost(R, "the DataDefSeed<T> instantiation in deserialize_array")
        return
    for t in sorted(defs):
        # the DataDef impl for T: does its initialize derive the representation from data?
        init = [x for xid, x in fb.bodies.items() if xid.endswith("::initialize") and xid.startswith("<%s as gluon_vm::gc::DataDef>" % t)]
        if not init and t.startswith("alloc::vec::Vec<"):
            # Vec<T> forwards to &[T]
            el = t[len("alloc::vec::Vec<"):-1]
            init = [x for xid, x in fb.bodies.items() if xid.endswith("::initialize") and xid.startswith("<&'a [%s] as gluon_vm::gc::DataDef>" % el)]
        if not init:
            rep.anchor_lost(R, "DataDef::initialize for %s" % t)
            continue
        derives = False
        consts = set()
        # an initialize that forwards to another definition's initialize (Vec<T> -> &[T], a wrapper -> ArrayDef) is followed
        work, seen_i = list(init), set()
        while work:
            x = work.pop()
            if x.id in seen_i:
                continue
            seen_i.add(x.id)
            for c in x.calls():
                if c.res.split("#")[0].endswith("::initialize") and "DataDef" in c.res:
                    nb = fb.body(c.res) or fb.body(c.res.split("#")[0])
                    if nb is not None:
                        work.append(nb)
        init = [fb.bodies[i] for i in seen_i if i in fb.bodies] or init
        for x in init:
            for c in x.calls():
                if c.res.endswith("Repr::from_value"):
                    derives = True
                if c.res.endswith("::set_repr") and len(c.args) >= 2:
                    src = flow.sources(x, c.args[1], depth=6)
                    consts |= {s for s in src if s[0] in ("const", "agg")}
            for i, j, pl, rv, ln in x.assigns():
                if rv[0] == "agg" and rv[1][0] == "adt" and rv[1][1] == "gluon_vm::value::Repr":
                    consts.add(rv[1][2])
        if derives:
            rep.ok(R, "deserialize_array allocates through %s, whose initialize derives the representation with Repr::from_value" % t)
        else:
            rep.violation(R, "array-repr-constant|%s" % t.split("<")[0].rsplit("::", 1)[-1], "deserialize_array allocates through `%s`, whose DataDef::initialize writes the constant representation %s whatever "
                          "the elements are: a deserialised `Array Byte` / `Array Int` / `Array Float` / `Array String` is no longer usable through its typed accessors "
                          "(from_utf8 fails, a &[i64] argument panics)" % (t, sorted({c if isinstance(c, str) else str(c[-1]) for c in consts}) or "(constant)"), b.where())


def r8k(fb, rep):
    """R8k — a deserialised symbol is rebuilt by the parsing constructor.  A `Symbol` is written as its complete name (with the `@`
    global prefix and the `@line_col` suffix); its derived parts (`global`, `location`, which `as_pretty_str` / `AsRef<str>` use
    to strip prefix and suffix) are computed only by `SymbolData::from(&str)`.  A deserialiser that builds the `SymbolData`
    itself yields symbols whose field / constructor names keep the suffix: a record built with the `{ x }` shorthand in loaded
    bytecode has the field `x@3_5`, and a by-name access panics.  Rule: in the deserialisation code of symbols (bodies of
    `base/src/symbol.rs` and `vm/src/serialization.rs` that implement `Deserialize*` for `Symbol` or live in their `symbol`
    modules) no `SymbolData` aggregate is built, and at least one of them goes through `From<&str>`."""
    R = "R8k"
    rep.rule(R, "deserialised symbols are rebuilt by the parsing constructor (From<&str>), never field by field")
    n = 0
    parsed = False
    for b in fb.bodies.values():
        if not (b.file.endswith("base/src/symbol.rs") or b.file.endswith("vm/src/serialization.rs")):
            continue
        low = b.id.lower()
        if not ("deserialize" in low and "symbol" in low):
            continue
        n += 1
        for i, j, pl, rv, ln in b.assigns():
            if rv[0] == "agg" and rv[1][0] == "adt" and rv[1][1].endswith("symbol::SymbolData"):
                rep.violation(R, "symbol-built-field-by-field|%s" % b.id.split("::{closure")[0], "%s builds a SymbolData itself when deserialising a symbol: the derived parts (global, location) are not "
                              "computed from the name, so names with a position suffix or global prefix are no longer pretty-printed / interned as written in the source" % b.id, "%s:%s" % (b.file, ln))
        for c in b.calls():
            if "symbol::Symbol as core::convert::From<&" in c.res or "symbol::SymbolData<N> as core::convert::From<&'a str>" in c.res or c.res.endswith("Symbols::simple_symbol") or c.res.endswith("Symbols::symbol"):
                parsed = True
    if n and parsed:
        rep.ok(R, "%d symbol-deserialisation bodies: symbols are rebuilt with From<&str> / the Symbols table" % n)
    elif n:
        rep.violation(R, "symbol-not-parsed", "no symbol deserialiser goes through the parsing constructor", "")
    rep.floor(R, "symbol deserialisation bodies", n, 2)
