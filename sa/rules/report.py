"""Verdict / evidence / known-findings plumbing shared by all checks."""
import json
import os
import time

VERIF = os.path.dirname(os.path.dirname(os.path.dirname(os.path.abspath(__file__))))


class Report:
    def __init__(self, pid, tier="quick"):
        self.pid = pid
        self.tier = tier
        self.t0 = time.time()
        self.obligations = 0
        self.discharged = 0
        self.violations = []  # dicts
        self.samples = []
        self.rules = {}  # rule -> {"obligations":n,"discharged":n,"desc":...}
        self.floors = []
        self.exceptions = []
        self.assumptions = []
        self.explanation = ""
        self.extra = {}
        self.broken = []  # machinery failures (fixtures, anchors)

    # ------------------------------------------------------------------ recording
    def rule(self, rule, desc):
        self.rules.setdefault(rule, {"obligations": 0, "discharged": 0, "desc": desc})

    def ok(self, rule, sample=None):
        self.obligations += 1
        self.discharged += 1
        r = self.rules.setdefault(rule, {"obligations": 0, "discharged": 0, "desc": ""})
        r["obligations"] += 1
        r["discharged"] += 1
        if sample is not None:
            n = sum(1 for s in self.samples if s.get("rule") == rule)
            if n < 6:
                self.samples.append({"rule": rule, "obligation": sample, "verdict": "holds"})

    def violation(self, rule, key, msg, where="", path=None):
        """key: stable identity without line numbers"""
        self.obligations += 1
        r = self.rules.setdefault(rule, {"obligations": 0, "discharged": 0, "desc": ""})
        r["obligations"] += 1
        full = "%s|%s" % (rule, key)
        for v in self.violations:
            if v["key"] == full:
                return
        self.violations.append({"rule": rule, "key": full, "what": msg, "where": where, "path": path})

    def anchor_lost(self, rule, what):
        self.violation(rule, "anchor-lost|" + what, "anchor lost: %s (the rule cannot bind; refusing to pass vacuously)" % what)

    def floor(self, rule, name, count, minimum):
        self.floors.append({"rule": rule, "what": name, "count": count, "floor": minimum})
        if count < minimum:
            self.violation(rule, "floor|" + name,
                           "instance count below floor: %s = %d < %d (rule would pass vacuously)" % (name, count, minimum))

    def exception(self, rule, key, reason):
        self.exceptions.append({"rule": rule, "key": key, "reason": reason})

    def machinery_broken(self, what):
        self.broken.append(what)

    # ------------------------------------------------------------------ finishing
    def finish(self, fb_stats=None):
        kf_path = os.path.join(VERIF, "known_findings.json")
        known = {}
        if os.path.exists(kf_path):
            with open(kf_path) as f:
                kf = json.load(f)
            for e in kf.get("findings", []):
                if e["property"] == self.pid:
                    known[e["key"]] = e
        new = []
        listed = []
        for v in self.violations:
            if v["key"] in known:
                listed.append(v)
            else:
                new.append(v)
        for v in listed:
            print("KNOWN-FINDING: property=%s %s [%s]" % (self.pid, known[v["key"]].get("what", v["what"]), v["key"]))
        stale = [k for k in known if k not in {v["key"] for v in self.violations}]
        ev_dir = os.environ.get("SA_EVIDENCE") or os.path.join(VERIF, "evidence")  # SA_EVIDENCE: self-tests on scratch trees must not overwrite the real evidence
        os.makedirs(ev_dir, exist_ok=True)
        replay = os.path.join(ev_dir, "%s.violations.json" % self.pid)
        for b in self.broken:
            print("BROKEN-MACHINERY: property=%s %s" % (self.pid, b))
        if new or self.broken:
            with open(replay, "w") as f:
                json.dump({"property": self.pid, "violations": new, "broken": self.broken}, f, indent=1)
            for v in new:
                print("  violation %s\n    %s\n    at %s" % (v["key"], v["what"], v["where"]))
                if v.get("path"):
                    print("    path: %s" % v["path"])
        elif os.path.exists(replay):
            os.remove(replay)
        cov = {
            "explanation": self.explanation,
            "obligations": self.obligations,
            "discharged": self.discharged,
            "rules": self.rules,
            "samples": self.samples[:40] or [{"note": "no obligations recorded"}],
            "floors": self.floors,
            "exceptions_applied": self.exceptions,
            "known_findings_reported": [v["key"] for v in listed],
            "known_findings_not_reproduced": stale,
            "new_violations": [v["key"] for v in new],
            "checker_cmd": "./check %s --tier %s" % (self.pid, self.tier),
            "exhaustive": True,
        }
        if fb_stats:
            cov["analysed"] = fb_stats
            cov["functions_analysed"] = fb_stats.get("bodies")
            cov["call_sites"] = fb_stats.get("call_sites")
        cov.update(self.extra)
        ev = {
            "property_id": self.pid,
            "tier": self.tier,
            "seed": int(os.environ.get("VERIF_SEED", "0") or 0),
            "level": "other",
            "coverage": cov,
            "assumptions": self.assumptions,
            "wall_s": round(time.time() - self.t0, 2),
            "violations": len(new),
        }
        with open(os.path.join(ev_dir, "%s.json" % self.pid), "w") as f:
            json.dump(ev, f, indent=1, sort_keys=True)
        if self.broken and not new:
            # machinery failure (fixture/self-test), not a statement about the repository
            return 2
        if new:
            print("VIOLATION property=%s replay=%s" % (self.pid, replay))
            return 1
        print("OK property=%s tier=%s obligations=%d discharged=%d known_findings=%d wall=%.1fs" % (
            self.pid, self.tier, self.obligations, self.discharged, len(listed), time.time() - self.t0))
        return 0
