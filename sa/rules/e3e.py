"""E3e — index arguments are validated before a primitive takes the thread's context lock (C06).

A panic inside a primitive is caught by the barrier of E3a, but if the primitive holds the thread's `Context` mutex at that moment the
unwind poisons it; the barrier's next statement re-locks the context with `lock().unwrap()` *inside the extern "C" frame* and the
process aborts.  The primitives that both take integer (index) arguments and lock the context (role-based: today `array::slice`,
whose allocation computes `end - start`) must therefore reject bad indices before they lock: every integer parameter takes part in a
comparison whose failing edge builds `RuntimeResult::Panic`, two integer parameters are also compared with each other, and those
comparisons dominate the acquisition."""
from . import flow
from .facts import op_place

INTS = ("usize", "i64", "u64", "i32", "u32", "isize")


def run(fb, rep):
    R = "E3e"
    rep.rule(R, "index arguments are validated (each against a bound, pairs against each other) before a primitive locks the context")
    n = 0
    for b in fb.bodies.values():
        if b.kind != "fn" or not (b.file.endswith("vm/src/primitives.rs") or "/std_lib/" in b.file):
            continue
        argc = b.get("argc") or 0
        ints = [i for i in range(1, argc + 1) if b.local_tstr(i) in INTS]
        acq = [c for c in b.calls() if c.res.endswith("::context") or c.res.endswith("::current_context")]
        if not acq or not ints:
            continue
        n += 1
        panics = set(flow.blocks_constructing(b, "gluon_vm::api::RuntimeResult", "Panic"))
        checked = set()
        pairs = set()
        for bb, op, lhs, rhs, true_t, false_t in flow.comparison_switches(b):
            if op not in ("Lt", "Le", "Gt", "Ge"):
                continue
            ls = {s[1] for s in flow.sources(b, lhs) if s[0] == "arg"} & set(ints)
            rs = {s[1] for s in flow.sources(b, rhs) if s[0] == "arg"} & set(ints)
            # one of the edges must lead to a Panic result without reaching the acquisition
            rejecting = False
            for edge in (true_t, false_t):
                reach = b.reachable(edge, avoid_blocks=[c.bb for c in acq])
                if reach & panics and not any(c.bb in b.reachable(edge) for c in acq):
                    rejecting = True
            if not rejecting or not all(b.dominates(bb, c.bb) for c in acq):
                continue
            checked |= ls | rs
            if ls and rs and ls != rs:
                pairs.add(frozenset(ls | rs))
        missing = [p for p in ints if p not in checked]
        if missing:
            rep.violation(R, "index-not-validated|%s" % b.id, "%s locks the thread context without first rejecting a bad value of integer parameter(s) %s" % (b.id, missing), b.where())
        elif len(ints) >= 2 and not any(len(p) >= 2 for p in pairs):
            rep.violation(R, "range-order-unchecked|%s" % b.id, "%s takes two index arguments and locks the thread context without first comparing them with each other: an inverted "
                          "range panics (`end - start`) while the context mutex is held, the mutex is poisoned and the barrier's re-lock aborts the process" % b.id, b.where())
        else:
            rep.ok(R, "%s: %d index arguments validated (and ordered) before the context is locked" % (b.id, len(ints)))
    rep.floor(R, "index-taking primitives that lock the context", n, 1)
