"""E3c — the extern-frame lock is a linear token (C06: the VM stays usable after a failed primitive).

`StackFrame::<ExternState>::into_lock` marks the primitive's frame as locked (`ExternState.locked = Some(len)`) and hands
out a `stack::Lock`; `reset_stack`/`exit_scope` refuse to pop a locked frame ("Attempted to exit scope above current"),
so a lock that is not released leaves the frame and everything below it on the stack for ever.  `Lock` is `Copy`, so the
compiler's ownership rules do not help (`#[must_use]` is satisfied by binding it).  Rule: in every *function* that obtains
a `Lock` (result of a call, or a parameter) every normal path from that point to a return hands the token on: to a call
that takes a `Lock` argument (`release_lock`, `async_push`, `async_status_push`, `return_future`) or into a closure that
captures it (the poll closure of `return_future`, which releases it when the future is ready).  `Stack::release_lock` is
the terminal consumer and must clear `ExternState.locked`; `into_lock` must set it."""
from . import flow
from .facts import op_place

LOCK = "gluon_vm::stack::Lock"
RELEASE = "gluon_vm::stack::Stack::release_lock"


def _agg_variant(b, rv):
    """variants of core::option::Option an assigned rvalue is built from"""
    if rv[0] == "agg":
        return {rv[1][-1]}
    if rv[0] == "use":
        return {x[2] for x in flow.sources(b, rv[1]) if x[0] == "agg" and x[1] == "core::option::Option"}
    return set()


def _lock_locals(b):
    return {i for i, t in enumerate(b.d["locals"]) if b.tstr(t) == LOCK}


def run(fb, rep):
    R = "E3c"
    rep.rule(R, "the extern-frame lock token is handed on (released, forwarded or captured) on every path to a return")
    ES = "gluon_vm::stack::ExternState"
    # terminal consumer / producer shape
    rel = fb.body(RELEASE)
    if rel is None:
        rep.anchor_lost(R, RELEASE)
    else:
        w = [x for x in flow.field_writes(rel, ES, "locked") if x[4] == "assign"]
        cleared = [x for x in w if _agg_variant(rel, x[2]) == {"None"}]
        if cleared:
            rep.ok(R, "Stack::release_lock clears ExternState.locked of the top-most locked frame")
        else:
            rep.violation(R, "release-does-not-clear", "Stack::release_lock no longer clears ExternState.locked", rel.where())
    prod = [b for b in fb.bodies.values() if b.id.endswith("::into_lock") and b.crate.name == "gluon_vm"]
    if not prod:
        rep.anchor_lost(R, "StackFrame::<ExternState>::into_lock")
    for b in prod:
        w = [x for x in flow.field_writes(b, ES, "locked") if x[4] == "assign" and _agg_variant(b, x[2]) == {"Some"}]
        if w:
            rep.ok(R, "%s sets ExternState.locked = Some(..)" % b.id)
        else:
            rep.violation(R, "into-lock-does-not-lock", "%s no longer marks the frame as locked" % b.id, b.where())
    # token discipline
    n_fn = n_obl = 0
    for b in fb.bodies.values():
        if b.crate.name not in ("gluon_vm", "gluon", "gluon_c_api") or b.kind != "fn":
            continue
        if b.id == RELEASE or b.id.endswith("::into_lock") or "as core::clone::Clone>::clone" in b.id:
            continue
        locks = _lock_locals(b)
        if not locks:
            continue
        argc = b.get("argc") or 0
        params = {l for l in locks if 1 <= l <= argc}
        starts = []
        if params:
            starts.append(("parameter", 0))
        for c in b.calls():
            if c.dest is not None and c.dest[0] in locks and not c.dest[1] and c.target is not None \
                    and not c.res.endswith("Clone>::clone"):
                starts.append(("result of %s" % c.res.rsplit("::", 1)[-1], c.target))
        if not starts:
            continue
        n_fn += 1
        # consumer blocks: calls that take a Lock-typed operand; aggregates (closures) capturing one
        consumers = set()
        for c in b.calls():
            for a in c.args:
                p = op_place(a)
                if p is not None and p[0] in locks and not p[1]:
                    consumers.add(c.bb)
        for i, j, place, rv, line in b.assigns():
            if rv[0] == "agg" and rv[1][0] == "closure":
                for o in rv[2]:
                    p = op_place(o)
                    if p is not None and p[0] in locks:
                        consumers.add(i)
        rets = set(b.return_blocks())
        for what, start in starts:
            n_obl += 1
            if start in consumers:
                leak = set()
            else:
                leak = b.reachable(start, avoid_blocks=consumers) & rets
            if leak:
                rep.violation(R, "lock-not-released|%s" % b.id,
                              "%s: the frame lock (%s) can reach a return without being released, forwarded or captured: the extern frame "
                              "stays locked and reset_stack can no longer unwind it" % (b.id, what), b.where(),
                              path=sorted(leak))
            else:
                rep.ok(R, "%s: lock (%s) handed on before every return" % (b.id, what))
    rep.floor(R, "functions handling a frame lock", n_fn, 20)
    rep.floor(R, "lock obligations", n_obl, 20)
