"""C16 — determinism of compilation and evaluation (engine E7).

R7a  no *iteration* over a hash table whose order is not a function of its contents: `RandomState` hasher, or keys that
     are addresses (raw pointers / by-address wrappers) — decided on the resolved generic arguments of the call. Point
     lookups are fine.
R7b  no wall-clock / OS-randomness / environment / thread-identity read is reachable from the compile pipeline entry
     points (effect primitives are behind fn-pointer calls and are not part of the pipeline).
R7c  no address (pointer -> integer cast, `{:p}`) flows into an ordering, a hash of an iterated container, or text.
Evidence also lists iterations over process-lifetime Fnv maps (order is run-stable but history dependent) without
judging them."""
from . import flow
from .common import table, CallGraph
from .facts import op_place

CRATES = {"gluon_base", "gluon_parser", "gluon_check", "gluon_vm", "gluon", "gluon_format"}
THOROUGH_CONFIGS = ["default", "nodefault"]  # thorough also analyses the default-feature and the no-default-features builds

HASH_ADTS = ("std::collections::hash::map::HashMap", "std::collections::hash::set::HashSet",
             "hashbrown::map::HashMap", "hashbrown::set::HashSet", "hashbrown::table::HashTable")
ORDERED_PTR_KEY_ADTS = ("alloc::collections::btree::map::BTreeMap", "alloc::collections::btree::set::BTreeSet")
ITER_METHODS = {"iter", "iter_mut", "into_iter", "keys", "values", "values_mut", "into_keys", "into_values", "drain",
                "retain", "extract_if", "par_iter"}


WRAPPER_ADTS = ("gluon_base::scoped_map::ScopedMap",)


def _hash_recv(body, c):
    """if the call is an iterating method of a hash/btree container return (adt, [type rows of generic args], method)"""
    res = c.res
    for adt in HASH_ADTS + ORDERED_PTR_KEY_ADTS + WRAPPER_ADTS:
        if res.startswith(adt + "::<"):
            meth = res.rsplit("::", 1)[1]
            if meth in ITER_METHODS:
                ga = c.desc.get("ga") or []
                return adt, [body.ty(g) for g in ga], meth
    # IntoIterator::into_iter(&map) / (map)
    if c.fn and c.fn.endswith("IntoIterator::into_iter") and "self" in c.desc:
        row = body.strip_refs(body.ty(c.desc["self"]))
        if row.get("adt") in HASH_ADTS + ORDERED_PTR_KEY_ADTS + WRAPPER_ADTS:
            return row["adt"], [body.types[i] for i in row.get("c", [])], "into_iter"
    return None


def address_keyed_types(fb):
    """(AH, AO): ADT paths whose Hash / Ord implementation is (transitively) by address.
    A Hash impl is by address when it hashes a raw pointer or a value of an address-hashed type; likewise Ord/PartialOrd."""
    def collect(trait_names, method):
        direct = {}
        deps = {}
        for im in fb.impls:
            if im.get("trait") not in trait_names:
                continue
            c = im["_crate"]
            row = c.types[im["self"]]
            if row.get("k") != "adt":
                continue
            adt = row["adt"]
            for it in im["items"]:
                if it["name"] != method:
                    continue
                b = fb.body(it["path"])
                if b is None:
                    continue
                for cl in b.calls():
                    if cl.fn and cl.fn.rsplit("::", 1)[1] in (method, "partial_cmp", "cmp", "hash") and "self" in cl.desc:
                        srow = b.strip_refs(b.ty(cl.desc["self"]))
                        if b.ty(cl.desc["self"]).get("k") == "ptr" or srow.get("k") == "ptr":
                            direct[adt] = True
                        elif srow.get("k") == "adt":
                            deps.setdefault(adt, set()).add(srow["adt"])
                    if cl.res.startswith("core::ptr::hash") or cl.res.endswith("ptr::eq"):
                        if "hash" in cl.res:
                            direct[adt] = True
                for i, j, pl, rv, ln in b.assigns():
                    if rv[0] == "cast" and rv[1] == "PointerExposeProvenance":
                        direct[adt] = True
        out = set(direct)
        changed = True
        while changed:
            changed = False
            for a, ds in deps.items():
                if a not in out and ds & out:
                    out.add(a)
                    changed = True
        return out
    ah = collect(("core::hash::Hash",), "hash")
    ao = collect(("core::cmp::Ord", "core::cmp::PartialOrd"), "cmp") | collect(("core::cmp::PartialOrd",), "partial_cmp")
    return ah, ao


def _row_mentions(body, row, adts, depth=0):
    if depth > 5:
        return None
    if row.get("k") == "adt" and row.get("adt") in adts:
        return row["adt"]
    if row.get("k") == "ptr":
        return "raw pointer"
    if row.get("k") == "adt" and row.get("adt", "").endswith("::PtrEq"):
        return row["adt"]
    if row.get("k") in ("tuple", "ref", "refmut") or (row.get("k") == "adt" and row.get("adt", "").startswith(("alloc::", "core::option", "alloc::sync", "alloc::rc", "alloc::boxed"))):
        for c in row.get("c", []):
            r = _row_mentions(body, body.types[c], adts, depth + 1)
            if r:
                return r
    return None


INSENSITIVE_TERMINALS = ("Iterator::any", "Iterator::all", "Iterator::count", "Iterator::sum", "Iterator::max", "Iterator::min",
                         "Iterator::max_by_key", "Iterator::min_by_key", "Iterator::product")
ADAPTORS = ("Iterator::map", "Iterator::filter", "Iterator::filter_map", "Iterator::cloned", "Iterator::copied", "Iterator::flat_map",
            "Iterator::chain", "Iterator::inspect", "IntoIterator::into_iter", "Iterator::by_ref", "Iterator::flatten", "Iterator::peekable",
            "Iterator::zip", "Iterator::enumerate", "Iterator::rev", "Iterator::take_while", "Iterator::skip_while")
ORDER_FREE_SINKS = HASH_ADTS + ("alloc::collections::btree::map::BTreeMap", "alloc::collections::btree::set::BTreeSet") + WRAPPER_ADTS


def _consumer(body, call, depth=0):
    """classify what consumes the iterator produced by `call`: ('insensitive', why) | ('sensitive', why)"""
    if depth > 6 or call.dest is None:
        return "sensitive", "consumer not understood"
    locs = flow.derived_locals(body, call.dest[0])
    verdicts = []
    for c in body.calls():
        if c is call or c.bb == call.bb:
            continue
        hit = False
        for ai, a in enumerate(c.args):
            p = op_place(a)
            if p is not None and p[0] in locs and not p[1]:
                hit = True
                pos = ai
        if not hit:
            continue
        fn = c.fn or c.res
        if any(fn.endswith(x) for x in INSENSITIVE_TERMINALS):
            verdicts.append(("insensitive", fn.rsplit("::", 1)[1]))
        elif fn.endswith("Extend::extend"):
            # extend(dst, iter): iterator is argument 1; destination type = self type
            srow = body.strip_refs(body.ty(c.desc["self"])) if "self" in c.desc else {}
            if pos == 1 and srow.get("adt") in ORDER_FREE_SINKS:
                verdicts.append(("insensitive", "extend into %s" % srow["adt"].rsplit("::", 1)[1]))
            elif pos == 0:
                verdicts.append(("insensitive", "is the destination of extend"))
            else:
                verdicts.append(("sensitive", "extend into an ordered collection (%s)" % srow.get("s", "?")[:60]))
        elif fn.endswith("Iterator::collect") or fn.endswith("FromIterator::from_iter"):
            drow = body.local_ty(c.dest[0]) if c.dest is not None else {}
            if body.strip_refs(drow).get("adt") in ORDER_FREE_SINKS:
                verdicts.append(("insensitive", "collected into %s" % drow["adt"].rsplit("::", 1)[1]))
            else:
                verdicts.append(("sensitive", "collected into %s" % drow.get("s", "?")[:60]))
        elif any(fn.endswith(x) for x in ADAPTORS):
            verdicts.append(_consumer(body, c, depth + 1))
        elif fn.endswith("Iterator::next") or fn.endswith("Iterator::for_each") or fn.endswith("Iterator::fold") or fn.endswith("Iterator::try_fold"):
            verdicts.append(("sensitive", "element-by-element loop (%s)" % fn.rsplit("::", 1)[1]))
        elif fn.endswith("drop") or "drop_in_place" in fn:
            continue
        else:
            verdicts.append(("sensitive", "passed to %s" % fn[-60:]))
    if not verdicts:
        return "sensitive", "iterator escapes (returned or stored)"
    bad = [v for v in verdicts if v[0] == "sensitive"]
    return bad[0] if bad else verdicts[0]


def r7a(fb, rep):
    R = "R7a"
    rep.rule(R, "no order-sensitive iteration over tables whose order is random (RandomState) or address dependent")
    exempt = {(e["fn"], e["what"]): e["reason"] for e in table("determinism_exempt.json")["iteration"]}
    ah, ao = address_keyed_types(fb)
    rep.extra["address_hashed_types"] = sorted(ah)
    rep.extra["address_ordered_types"] = sorted(ao)
    if "gluon_base::symbol::SymbolRef" not in ah:
        rep.anchor_lost(R, "address-hashed key detection (SymbolRef hashes its pointer)")
    n_iter = 0
    listed = []
    pool = [b for b in fb.bodies.values() if b.kind != "coroutine_post" and b.crate.name in CRATES] + \
           [b for b in fb.pre.values() if b.crate.name in CRATES]
    for b in pool:
        if "/tests/" in b.file or b.file.endswith("build.rs"):
            continue
        for c in b.calls():
            h = _hash_recv(b, c)
            if h is None:
                continue
            adt, args, meth = h
            n_iter += 1
            is_hash = adt in HASH_ADTS or adt in WRAPPER_ADTS
            hashers = [a["s"] for a in args if "BuildHasher" in a["s"] or "RandomState" in a["s"] or a.get("k") == "param" and a["s"] in ("H", "S")]
            key = args[0] if args else None
            root = b.get("root") or b.id
            cause = None
            if adt in HASH_ADTS and any("RandomState" in h_ for h_ in hashers):
                cause = "per-process random order (RandomState hasher)"
            elif key is not None:
                m = _row_mentions(b, key, ah if is_hash else ao)
                if m:
                    cause = "address-dependent order (key %s %s by address)" % (m, "hashes" if is_hash else "orders")
            what = "%s<%s>::%s" % (adt.rsplit("::", 1)[1], ", ".join(a["s"] for a in args[:2])[:100], meth)
            if cause is None:
                if key is not None and key.get("k") == "param":
                    listed.append("%s: %s (generic key; judged at its instantiations' own iteration sites)" % (root, what))
                rep.ok(R, None)
                continue
            verdict, why = _consumer(b, c) if meth not in ("retain",) else ("insensitive", "retain visits every element; result is a set")
            kk = (root, "%s::%s" % (what.split("<")[0], meth))
            if verdict == "insensitive":
                rep.ok(R, "%s: %s has %s but the consumer is order-insensitive (%s)" % (root, what, cause.split(" (")[0], why))
            elif kk in exempt:
                rep.exception(R, "%s|%s" % kk, exempt[kk])
            else:
                rep.violation(R, "unordered-iteration|%s|%s" % kk,
                              "%s iterates %s — %s — and the consumer is order sensitive: %s" % (root, what, cause, why), c.where())
    rep.floor(R, "iterations over hash/btree containers examined", n_iter, 25)
    rep.extra["generic_iterations_listed"] = sorted(set(listed))[:40]
    # sorting by an address-ordered key
    n_sort = 0
    for b in pool:
        for c in b.calls():
            if ("slice::<impl [T]>::sort" in c.res or c.res.endswith("::sort") or c.res.endswith("::sort_unstable") or c.res.endswith("::dedup")
                    or c.res.endswith("::binary_search")) and c.desc.get("ga"):
                el = b.ty(c.desc["ga"][0])
                n_sort += 1
                meth = c.res.rsplit("::", 1)[1]
                if meth.endswith("_by") or meth.endswith("_by_key") or meth.endswith("_by_cached_key"):
                    # custom comparator: by address only if the closure compares an address-ordered type with Ord
                    m = None
                    for a in c.args[1:]:
                        for s_ in flow.sources(b, a, depth=4):
                            if s_[0] == "closure":
                                cb = fb.body(s_[1])
                                for cc in (cb.calls() if cb is not None else []):
                                    if cc.fn and cc.fn.rsplit("::", 1)[1] in ("cmp", "partial_cmp", "lt", "le", "gt", "ge") and "self" in cc.desc:
                                        m = m or _row_mentions(cb, cb.ty(cc.desc["self"]), ao)
                                    if m is None and cc.desc.get("ga"):
                                        # key extraction closures of sort_by_key return the key type
                                        pass
                                if cb is not None and meth.endswith("_key"):
                                    m = m or _row_mentions(cb, cb.local_ty(0), ao)
                else:
                    m = _row_mentions(b, el, ao)
                root = b.get("root") or b.id
                if m and (root, "sort") not in exempt:
                    rep.violation(R, "address-sort|%s" % root, "%s sorts elements ordered by address (%s)" % (root, m), c.where())
                elif m:
                    rep.exception(R, "%s|sort" % root, exempt[(root, "sort")])
    rep.extra["sort_sites_examined"] = n_sort
    pt = [b for b in fb.bodies.values() if "PatternTranslator" in b.id and b.id.endswith("compile_constructor")]
    if pt:
        b = pt[0]
        iters = [c for c in b.calls() if _hash_recv(b, c)]
        if not iters:
            rep.ok(R, "PatternTranslator::compile_constructor groups through a map but iterates its separate order Vec")
        else:
            rep.violation(R, "group-order-idiom", "compile_constructor now iterates its grouping map directly (match-arm order becomes hash dependent)", iters[0].where())


FORBIDDEN = {
    "std::time::SystemTime::now": "wall clock",
    "std::time::Instant::now": "monotonic clock",
    "rand::rngs::thread::thread_rng": "OS randomness",
    "rand::rng": "OS randomness",
    "rand::random": "OS randomness",
    "std::env::var": "environment",
    "std::env::var_os": "environment",
    "std::env::vars": "environment",
    "std::thread::current": "thread identity",
    "std::process::id": "process identity",
    "getrandom::getrandom": "OS randomness",
}


def r7b(fb, rep):
    R = "R7b"
    rep.rule(R, "no clock/randomness/environment/thread-id read reachable from the compile pipeline")
    exempt = {(e["fn"], e["callee"]): e["reason"] for e in table("determinism_exempt.json")["sources"]}
    roots = []
    for bid in list(fb.bodies) + list(fb.pre):
        if any(bid.startswith(p) for p in (
                "gluon::ThreadExt::typecheck", "gluon::ThreadExt::run_expr", "gluon::ThreadExt::load_script", "gluon::ThreadExt::format_expr",
                "gluon::ThreadExt::parse", "gluon::ThreadExt::compile", "gluon::query::", "gluon::compiler_pipeline::",
                "gluon::import::", "gluon_check::typecheck::", "gluon_check::unify", "gluon_check::kindcheck", "gluon_check::rename",
                "gluon_vm::compiler::", "gluon_vm::core::", "gluon_parser::parse", "gluon_format::", "gluon_base::types::",
                "gluon_base::error::", "gluon_base::symbol::")):
            roots.append(bid)
        if "as core::fmt::Display>::fmt" in bid and bid.startswith("<gluon"):
            roots.append(bid)
    rep.floor(R, "pipeline root functions", len(roots), 200)
    cg = CallGraph(fb)
    # bodies from pre (coroutines) are part of the graph too
    for bid, b in fb.pre.items():
        s = set()
        for c in b.calls():
            s |= c.names()
        cg.out.setdefault(bid, set()).update(s)

    def barrier(n):
        return n.startswith("gluon::std_lib::") or n.startswith("gluon_vm::primitives::") or n.startswith("gluon_repl::") or "::tests::" in n
    reach = cg.reach(roots, barrier=barrier)
    rep.extra["pipeline_functions_reached"] = len(reach)
    hits = 0
    for n in sorted(reach):
        for f, why in FORBIDDEN.items():
            if n == f or n.startswith(f + "::"):
                # who calls it (within the reached set)
                callers = sorted({c.body.id for c in fb.calls_of(n) if c.body.id in reach})
                for cal in callers:
                    if (cal, f) in exempt:
                        rep.exception(R, "%s|%s" % (cal, f), exempt[(cal, f)])
                        continue
                    hits += 1
                    rep.violation(R, "nondeterminism-source|%s|%s" % (cal, f), "%s (reachable from the compile pipeline) reads the %s via %s" % (cal, why, f), "")
    if not hits:
        rep.ok(R, "none of %d nondeterminism sources is reachable from %d pipeline functions" % (len(FORBIDDEN), len(reach)))


def r7c(fb, rep):
    R = "R7c"
    rep.rule(R, "no address flows into an ordering, a hash of an iterated container or formatted text")
    exempt = {e["fn"]: e["reason"] for e in table("determinism_exempt.json")["addresses"]}
    n = 0
    pool = [b for b in fb.bodies.values() if b.kind != "coroutine_post" and b.crate.name in CRATES] + \
           [b for b in fb.pre.values() if b.crate.name in CRATES]
    for b in pool:
        if "/tests/" in b.file:
            continue
        root = b.get("root") or b.id
        # {:p}
        for c in b.calls():
            if c.res.endswith("Argument::<'_>::new_pointer"):
                n += 1
                user_facing = "as core::fmt::Display>::fmt" in root
                if not user_facing:
                    rep.extra.setdefault("pointer_formatting_in_debug_or_log_only", []).append(root)
                    rep.ok(R, None)
                elif root in exempt:
                    rep.exception(R, root, exempt[root])
                else:
                    rep.violation(R, "pointer-formatted|%s" % root, "%s (user-facing text) formats an address ({:p})" % root, c.where())
        for i, j, place, rv, line in b.assigns():
            if rv[0] == "cast" and rv[1] in ("PointerExposeProvenance",):
                n += 1
                dest = place[0]
                locs = flow.derived_locals(b, dest)
                bad = None
                for c in b.calls():
                    for a in c.args:
                        p = op_place(a)
                        if p is not None and p[0] in locs:
                            nm = c.res
                            if any(x in nm for x in ("Ord>::cmp", "PartialOrd>::partial_cmp", "::sort", "Hash>::hash", "hash::Hash::hash",
                                                     "Argument::<'_>::new_display", "Argument::<'_>::new_debug", "Argument::<'_>::new_lower_hex")):
                                bad = (c, nm)
                # ordered comparison operators on the integer
                for i2, j2, pl2, rv2, ln2 in b.assigns():
                    if rv2[0] == "bin" and rv2[1] in ("Lt", "Le", "Gt", "Ge", "Cmp"):
                        for o in (rv2[2], rv2[3]):
                            p = op_place(o)
                            if p is not None and p[0] in locs:
                                bad = (None, "operator %s" % rv2[1])
                if bad is None:
                    rep.ok(R, "%s: address used for identity (equality / storage) only" % root)
                elif root in exempt:
                    rep.exception(R, root, exempt[root])
                else:
                    rep.violation(R, "address-ordered|%s" % root, "%s: a pointer cast to an integer flows into %s" % (root, bad[1]),
                                  bad[0].where() if bad[0] is not None else "%s:%s" % (b.file, line))
    rep.floor(R, "pointer-to-integer casts / {:p} sites examined", n, 3)


UNORDERED_STREAMS = ("futures_util::stream::futures_unordered::FuturesUnordered", "futures_util::stream::select_all::SelectAll",
                     "futures_util::stream::stream::buffer_unordered::BufferUnordered", "futures_util::stream::try_stream::try_buffer_unordered::TryBufferUnordered",
                     "tokio::task::join_set::JoinSet")


def r7d(fb, rep):
    """completion order is scheduling order: what comes out of a completion-ordered stream must not decide output order"""
    R = "R7d"
    rep.rule(R, "results taken from a completion-ordered stream are re-ordered by an index attached before the futures were put in")
    pool = [b for b in fb.bodies.values() if b.kind != "coroutine_post"] + list(fb.pre.values())
    n = 0
    for b in pool:
        if b.crate.name not in CRATES:
            continue
        makers = []
        for c in b.calls():
            if c.dest is None:
                continue
            row = b.local_ty(c.dest[0]) if not c.dest[1] else None
            if row is not None and row.get("k") == "adt" and row["adt"] in UNORDERED_STREAMS:
                makers.append(c)
        if not makers:
            continue
        root = b.get("root") or b.id
        for mk in makers:
            n += 1
            st_locals = flow.derived_locals(b, mk.dest[0])
            # (1) nothing numbers / pairs / collects the stream in arrival order
            for c in b.calls():
                if not c.args:
                    continue
                p = op_place(c.args[0])
                if p is None or p[0] not in st_locals:
                    continue
                nm = (c.fn or c.res)
                short = nm.rsplit("::", 1)[1]
                if "StreamExt::" in nm and short in ("enumerate", "zip", "collect", "concat", "fold", "for_each", "chunks", "ready_chunks", "peekable", "scan"):
                    rep.violation(R, "arrival-order-adaptor|%s|%s" % (root, short), "%s applies StreamExt::%s to a completion-ordered stream: indices / positions "
                                  "then reflect scheduling, not source order" % (root, short), c.where())
            # (2) the futures were indexed before they went in: the collect/push that fills the set is fed by Iterator::enumerate
            if mk.res.endswith("Iterator::collect") or mk.res.endswith("FromIterator>::from_iter"):
                srcs = flow.sources(b, mk.args[0], depth=14) if mk.args else set()
                indexed = flow.has_call(srcs, lambda x: x.endswith("iterator::Iterator::enumerate"))
            else:
                indexed = False
            # (3) whatever the arrival loop accumulates in a Vec is sorted before it flows on
            nexts = [c for c in b.calls() if (c.fn or "").endswith("StreamExt::next") and c.args and op_place(c.args[0]) is not None
                     and op_place(c.args[0])[0] in st_locals]
            loop_blocks = set()
            for comp in b.sccs():
                if any(c.bb in comp for c in nexts):
                    loop_blocks |= comp
            pushes = [c for c in b.calls() if c.bb in loop_blocks and c.res.endswith("Vec::<T, A>::push")]
            unsorted = []
            for pc in pushes:
                base = op_place(pc.args[0])
                if base is None:
                    continue
                # the vector local behind the &mut
                vec_locals = {s_ for s_ in _ref_bases(b, base[0])}
                sorts = [c for c in b.calls() if c.bb not in loop_blocks and ("::sort" in c.res) and c.args and _ref_bases(b, op_place(c.args[0])[0] if op_place(c.args[0]) else -1) & vec_locals]
                consumers = [c for c in b.calls() if c.bb not in loop_blocks and c is not pc and "::sort" not in c.res and c.args and
                             any(op_place(a) is not None and (_ref_bases(b, op_place(a)[0]) & vec_locals) for a in c.args) and not c.res.endswith("Vec::<T>::new")
                             and not c.res.endswith("::with_capacity") and c.res.rsplit("::", 1)[1] not in ("deref", "deref_mut", "as_mut_slice", "as_slice", "len", "is_empty")]
                if not sorts or not all(any(b.dominates(s_.bb, c.bb) for s_ in sorts) for c in consumers):
                    unsorted.append(pc)
            if not nexts:
                rep.ok(R, "%s: completion-ordered stream built, not drained here" % root)
            elif pushes and indexed and not unsorted:
                rep.ok(R, "%s: futures indexed by Iterator::enumerate before entering the unordered set; arrivals sorted by that index before use" % root)
            elif not pushes:
                rep.ok(R, "%s: arrivals are not accumulated in order" % root)
            else:
                rep.violation(R, "arrival-order-kept|%s" % root, "%s accumulates the results of a completion-ordered stream in arrival order (%s): the order of "
                              "reported errors depends on scheduling" % (root, "futures not indexed before insertion" if not indexed else "accumulator not sorted before use"),
                              (unsorted[0] if unsorted else pushes[0]).where())
    rep.floor(R, "completion-ordered streams in the pipeline", n, 1)


def r7e(fb, rep):
    """a module name resolves to its *current* source file, not to whatever was registered first under that name"""
    R = "R7e"
    rep.rule(R, "name -> source file resolution goes through the current index (State.index_map), never through a first-match search of the code map")
    target = "gluon_base::source::CodeMap::find_file"
    if fb.body(target) is None:
        rep.anchor_lost(R, target)
        return
    n = 0
    for b in fb.bodies.values():
        if b.crate.name not in CRATES:
            continue
        for c in b.calls():
            if c.res == target:
                n += 1
                rep.violation(R, "first-match-file-lookup|%s" % (b.get("root") or b.id), "%s looks a source file up with CodeMap::find_file, which returns the *oldest* file registered "
                              "under the name: after sources A, B, A under one name the spans of the third compilation resolve against the wrong file" % b.id, c.where())
    ST = "gluon::query::State::"
    ok_src = ("gluon::query::State::get_filemap", "gluon_base::source::CodeMap::add_filemap", "gluon_base::source::CodeMap::update",
              "gluon::query::State::add_filemap", "gluon::query::State::get_or_insert_filemap")
    m = 0
    for name in ("add_filemap", "get_or_insert_filemap", "update_filemap"):
        b = fb.body(ST + name)
        if b is None:
            rep.anchor_lost(R, ST + name)
            continue
        m += 1
        srcs = flow.sources(b, 0, depth=16)
        makers = {x[1] for x in srcs if x[0] == "call" and ("source::CodeMap::" in x[1] or "query::State::" in x[1])}
        closures = {x[1] for x in srcs if x[0] == "closure"}
        for cl in closures:
            cb = fb.body(cl)
            if cb is not None:
                makers |= {c.res for c in cb.calls() if "source::CodeMap::" in c.res or "query::State::" in c.res}
        bad = {x for x in makers if x not in ok_src and not x.endswith("CodeMap::get")}
        if bad:
            rep.violation(R, "filemap-source|%s" % name, "State::%s returns a file that comes from %s instead of the current index" % (name, sorted(bad)), b.where())
        else:
            rep.ok(R, "State::%s returns the file the current index names (or the one it just registered)" % name)
    rep.floor(R, "State file-map accessors examined", m, 3)


def r7f(fb, rep):
    """what an identifier means does not depend on which modules the VM happens to have loaded: only `@module` (global) symbols
    are resolved against the module store"""
    R = "R7f"
    rep.rule(R, "the compiler's environment resolves a name against loaded modules only when the symbol is global (sibling agreement of Env's lookup methods)")
    n = 0
    for bid, b in fb.bodies.items():
        if b.crate.name != "gluon" or not bid.startswith("<gluon::query::Env<T> as ") or b.kind != "fn":
            continue
        look = [c for c in b.calls() if c.res.endswith("::get_binding_inner") or "::peek_" in c.res or c.res.endswith("::get_scoped_global")]
        if not look:
            continue
        n += 1
        guards = []
        for bb, srcs, true_t, false_t in flow.bool_switches(b):
            if flow.has_call(srcs, lambda x: x.endswith("::is_global")):
                neg = ("op", "Not") in srcs
                guards.append((bb, false_t if neg else true_t))
        ok = bool(guards) and all(any(flow.only_via_edge(b, c.bb, g) for g in guards) for c in look)
        if ok:
            rep.ok(R, "%s: module lookup only for global symbols" % bid)
        else:
            rep.violation(R, "module-lookup-for-local-name|%s" % bid, "%s resolves a name against the loaded modules without first requiring `is_global()`: a plain identifier that "
                          "happens to be the name of a module loaded earlier in the same VM type-checks there and is undefined in a fresh VM" % bid, b.where())
    rep.floor(R, "Env lookup methods that consult the module store", n, 3)


def _ref_bases(b, local, depth=6):
    """locals a reference local may point to (through reborrows), including itself"""
    out = {local}
    work = [local]
    while work and depth > 0:
        depth -= 1
        nxt = []
        for l in work:
            if l < 0:
                continue
            for d in b.defs_of(l):
                if d[0] == "assign" and d[3][0] == "ref":
                    x = d[3][2][0]
                    if x not in out:
                        out.add(x)
                        nxt.append(x)
                elif d[0] == "assign" and d[3][0] == "use" and op_place(d[3][1]) is not None:
                    x = op_place(d[3][1])[0]
                    if x not in out:
                        out.add(x)
                        nxt.append(x)
                elif d[0] == "call" and d[2].args and d[2].res.rsplit("::", 1)[1] in ("deref", "deref_mut", "as_mut_slice", "as_slice", "as_mut", "borrow_mut"):
                    p = op_place(d[2].args[0])
                    if p is not None and p[0] not in out:
                        out.add(p[0])
                        nxt.append(p[0])
        work = nxt
    return out


def run(fb, rep, tier, cfg):
    rep.explanation = (
        "Static analysis of the compile+eval crates' MIR. R7a decides on the resolved generic arguments of every iterating "
        "call on a std/hashbrown hash container (or BTree with address keys) that the iteration order is a function of the "
        "contents (no RandomState hasher, no pointer / PtrEq keys); R7b: a may-reach call-graph check that no clock / randomness / "
        "environment / thread-identity source is reachable from the pipeline functions (resolved calls only); R7c: pointer-to-"
        "integer casts and {:p} are used for identity only (no ordering, hashing-for-iteration or printing). Order dependence on "
        "the history of process-lifetime Fnv maps and interning order is listed, not decided. R7d: wherever a completion-ordered stream "
        "(FuturesUnordered, SelectAll, BufferUnordered, JoinSet) is drained, the futures were numbered by Iterator::enumerate before they "
        "entered it, nothing numbers/zips/collects the stream itself, and what the arrival loop accumulates is sorted before it flows on.")
    rep.assumptions += ["unresolved virtual / fn-pointer calls are not followed by R7b", "FnvHasher and BTree orders are functions of the contents",
                        "the effect primitives (random, io, env, process, time) are outside the property"]
    r7a(fb, rep)
    r7b(fb, rep)
    r7c(fb, rep)
    r7d(fb, rep)
    r7e(fb, rep)
    r7f(fb, rep)
    # the diagnostics of an importer must not depend on an earlier version of a module the VM has seen (seed C16-4): the salvaged
    # type of a failing import comes from the re-run module_type query, not from a stale memo
    from . import c15
    c15.r6e(fb, rep)
