"""C16 — determinism of compilation and evaluation (engine E7).

R7a  no *iteration* over a hash table whose order is not a function of its contents: `RandomState` hasher, or keys that
     are addresses (raw pointers / by-address wrappers) — decided on the resolved generic arguments of the call. Point
     lookups are fine.
R7b  no wall-clock / OS-randomness / environment / thread-identity read is reachable from the compile pipeline entry
     points (effect primitives are behind fn-pointer calls and are not part of the pipeline).
R7c  no address (pointer -> integer cast, `{:p}`) flows into an ordering, a hash of an iterated container, or text.
Evidence also lists iterations over process-lifetime Fnv maps (order is run-stable but history dependent) without
judging them."""
from . import flow
from .common import table, CallGraph
from .facts import op_place

CRATES = {"gluon_base", "gluon_parser", "gluon_check", "gluon_vm", "gluon", "gluon_format", "gluon_completion"}

HASH_ADTS = ("std::collections::hash::map::HashMap", "std::collections::hash::set::HashSet",
             "hashbrown::map::HashMap", "hashbrown::set::HashSet", "hashbrown::table::HashTable")
ORDERED_PTR_KEY_ADTS = ("alloc::collections::btree::map::BTreeMap", "alloc::collections::btree::set::BTreeSet")
ITER_METHODS = {"iter", "iter_mut", "into_iter", "keys", "values", "values_mut", "into_keys", "into_values", "drain",
                "retain", "extract_if", "par_iter"}


def _hash_recv(body, c):
    """if the call is an iterating method of a hash container return (adt, [type rows of generic args])"""
    res = c.res
    for adt in HASH_ADTS + ORDERED_PTR_KEY_ADTS:
        if res.startswith(adt + "::<"):
            meth = res.rsplit("::", 1)[1]
            if meth in ITER_METHODS:
                ga = c.desc.get("rga") or c.desc.get("ga") or []
                return adt, [body.ty(g) for g in ga], meth
    # IntoIterator::into_iter(&map) / (map)
    if c.fn and c.fn.endswith("IntoIterator::into_iter") and "self" in c.desc:
        row = body.strip_refs(body.ty(c.desc["self"]))
        if row.get("adt") in HASH_ADTS + ORDERED_PTR_KEY_ADTS:
            return row["adt"], [body.types[i] for i in row.get("c", [])], "into_iter"
    return None


def _is_addr_key(body, row, depth=0):
    if depth > 4:
        return False
    if row.get("k") == "ptr":
        return True
    s = row.get("s", "")
    if row.get("k") == "adt" and (row.get("adt", "").endswith("::PtrEq") or "PtrEq<" in s):
        return True
    if row.get("k") in ("tuple",):
        return any(_is_addr_key(body, body.types[c], depth + 1) for c in row.get("c", []))
    return False


def r7a(fb, rep):
    R = "R7a"
    rep.rule(R, "no iteration over RandomState-hashed or address-keyed tables")
    exempt = {(e["fn"], e["what"]): e["reason"] for e in table("determinism_exempt.json")["iteration"]}
    n_iter = 0
    n_fnv = []
    pool = [b for b in fb.bodies.values() if b.kind != "coroutine_post" and b.crate.name in CRATES] + \
           [b for b in fb.pre.values() if b.crate.name in CRATES]
    for b in pool:
        if "/tests/" in b.file or b.file.endswith("build.rs"):
            continue
        for c in b.calls():
            h = _hash_recv(b, c)
            if h is None:
                continue
            adt, args, meth = h
            n_iter += 1
            is_hash = adt in HASH_ADTS
            hasher = args[-1]["s"] if args and is_hash else ""
            key = args[0] if args else None
            root = b.get("root") or b.id
            random_order = is_hash and ("RandomState" in hasher or (len(args) < 3 and "hashbrown" not in adt and "HashMap" in adt and len(args) == 2))
            addr = key is not None and _is_addr_key(b, key)
            what = "%s<%s>::%s" % (adt.rsplit("::", 1)[1], ", ".join(a["s"] for a in args)[:120], meth)
            if random_order or addr:
                k = (root, adt.rsplit("::", 1)[1])
                if k in exempt:
                    rep.exception(R, "%s|%s" % k, exempt[k])
                    continue
                rep.violation(R, "unordered-iteration|%s|%s" % (root, adt.rsplit("::", 1)[1]),
                              "%s iterates %s whose order is %s" % (root, what, "per-process random (RandomState)" if random_order else "address dependent (pointer keys)"),
                              c.where())
            else:
                if is_hash:
                    n_fnv.append("%s: %s" % (root, what))
                rep.ok(R, "%s: %s has a content-determined order" % (root, what) if not is_hash else None)
    rep.floor(R, "iterations over hash/btree containers examined", n_iter, 40)
    rep.extra["fnv_iterations_listed_not_judged"] = sorted(set(n_fnv))[:80]
    # the idiom the repo uses to stay deterministic where it needs grouping by key: an order Vec next to the map
    pt = [b for b in fb.bodies.values() if "PatternTranslator" in b.id and b.id.endswith("compile_constructor")]
    if pt:
        b = pt[0]
        has_map = any("HashMap" in b.local_tstr(i) or "FnvMap" in b.local_tstr(i) for i in range(len(b.d["locals"])))
        iters = [c for c in b.calls() if _hash_recv(b, c)]
        if has_map and not iters:
            rep.ok(R, "PatternTranslator::compile_constructor groups through a map but iterates its separate order Vec")
        elif iters:
            rep.violation(R, "group-order-idiom", "compile_constructor now iterates its grouping map directly (match-arm order becomes hash dependent)", iters[0].where())


FORBIDDEN = {
    "std::time::SystemTime::now": "wall clock",
    "std::time::Instant::now": "monotonic clock",
    "rand::rngs::thread::thread_rng": "OS randomness",
    "rand::rng": "OS randomness",
    "rand::random": "OS randomness",
    "std::env::var": "environment",
    "std::env::var_os": "environment",
    "std::env::vars": "environment",
    "std::thread::current": "thread identity",
    "std::process::id": "process identity",
    "getrandom::getrandom": "OS randomness",
}


def r7b(fb, rep):
    R = "R7b"
    rep.rule(R, "no clock/randomness/environment/thread-id read reachable from the compile pipeline")
    exempt = {(e["fn"], e["callee"]): e["reason"] for e in table("determinism_exempt.json")["sources"]}
    roots = []
    for bid in list(fb.bodies) + list(fb.pre):
        if any(bid.startswith(p) for p in (
                "gluon::ThreadExt::typecheck", "gluon::ThreadExt::run_expr", "gluon::ThreadExt::load_script", "gluon::ThreadExt::format_expr",
                "gluon::ThreadExt::parse", "gluon::ThreadExt::compile", "gluon::query::", "gluon::compiler_pipeline::",
                "gluon::import::", "gluon_check::typecheck::", "gluon_check::unify", "gluon_check::kindcheck", "gluon_check::rename",
                "gluon_vm::compiler::", "gluon_vm::core::", "gluon_parser::parse", "gluon_format::", "gluon_base::types::",
                "gluon_base::error::", "gluon_base::symbol::")):
            roots.append(bid)
        if "as core::fmt::Display>::fmt" in bid and bid.startswith("<gluon"):
            roots.append(bid)
    rep.floor(R, "pipeline root functions", len(roots), 200)
    cg = CallGraph(fb)
    # bodies from pre (coroutines) are part of the graph too
    for bid, b in fb.pre.items():
        s = set()
        for c in b.calls():
            s |= c.names()
        cg.out.setdefault(bid, set()).update(s)

    def barrier(n):
        return n.startswith("gluon::std_lib::") or n.startswith("gluon_vm::primitives::") or n.startswith("gluon_repl::") or "::tests::" in n
    reach = cg.reach(roots, barrier=barrier)
    rep.extra["pipeline_functions_reached"] = len(reach)
    hits = 0
    for n in sorted(reach):
        for f, why in FORBIDDEN.items():
            if n == f or n.startswith(f + "::"):
                # who calls it (within the reached set)
                callers = sorted({c.body.id for c in fb.calls_of(n) if c.body.id in reach})
                for cal in callers:
                    if (cal, f) in exempt:
                        rep.exception(R, "%s|%s" % (cal, f), exempt[(cal, f)])
                        continue
                    hits += 1
                    rep.violation(R, "nondeterminism-source|%s|%s" % (cal, f), "%s (reachable from the compile pipeline) reads the %s via %s" % (cal, why, f), "")
    if not hits:
        rep.ok(R, "none of %d nondeterminism sources is reachable from %d pipeline functions" % (len(FORBIDDEN), len(reach)))


def r7c(fb, rep):
    R = "R7c"
    rep.rule(R, "no address flows into an ordering, a hash of an iterated container or formatted text")
    exempt = {(e["fn"]): e["reason"] for e in table("determinism_exempt.json")["addresses"]}
    n = 0
    pool = [b for b in fb.bodies.values() if b.kind != "coroutine_post" and b.crate.name in CRATES] + \
           [b for b in fb.pre.values() if b.crate.name in CRATES]
    for b in pool:
        if "/tests/" in b.file:
            continue
        root = b.get("root") or b.id
        # {:p}
        for c in b.calls():
            if c.res.endswith("Argument::<'_>::new_pointer"):
                n += 1
                if root in exempt:
                    rep.exception(R, root, exempt[root])
                else:
                    rep.violation(R, "pointer-formatted|%s" % root, "%s formats an address ({:p})" % root, c.where())
        for i, j, place, rv, line in b.assigns():
            if rv[0] == "cast" and rv[1] in ("PointerExposeProvenance",):
                n += 1
                dest = place[0]
                locs = flow.derived_locals(b, dest)
                bad = None
                for c in b.calls():
                    for a in c.args:
                        p = op_place(a)
                        if p is not None and p[0] in locs:
                            nm = c.res
                            if any(x in nm for x in ("Ord>::cmp", "PartialOrd>::partial_cmp", "::sort", "Hash>::hash", "hash::Hash::hash",
                                                     "Argument::<'_>::new_display", "Argument::<'_>::new_debug", "Argument::<'_>::new_lower_hex")):
                                bad = (c, nm)
                # ordered comparison operators on the integer
                for i2, j2, pl2, rv2, ln2 in b.assigns():
                    if rv2[0] == "bin" and rv2[1] in ("Lt", "Le", "Gt", "Ge", "Cmp"):
                        for o in (rv2[2], rv2[3]):
                            p = op_place(o)
                            if p is not None and p[0] in locs:
                                bad = (None, "operator %s" % rv2[1])
                if bad is None:
                    rep.ok(R, "%s: address used for identity (equality / storage) only" % root)
                elif root in exempt:
                    rep.exception(R, root, exempt[root])
                else:
                    rep.violation(R, "address-ordered|%s" % root, "%s: a pointer cast to an integer flows into %s" % (root, bad[1]),
                                  bad[0].where() if bad[0] is not None else "%s:%s" % (b.file, line))
    rep.floor(R, "pointer-to-integer casts / {:p} sites examined", n, 3)


def run(fb, rep, tier, cfg):
    rep.explanation = (
        "Static analysis of the compile+eval crates' MIR. R7a decides on the resolved generic arguments of every iterating "
        "call on a std/hashbrown hash container (or BTree with address keys) that the iteration order is a function of the "
        "contents (no RandomState hasher, no pointer / PtrEq keys); R7b: a may-reach call-graph check that no clock / randomness / "
        "environment / thread-identity source is reachable from the pipeline functions (resolved calls only); R7c: pointer-to-"
        "integer casts and {:p} are used for identity only (no ordering, hashing-for-iteration or printing). Order dependence on "
        "the history of process-lifetime Fnv maps and interning order is listed, not decided.")
    rep.assumptions += ["unresolved virtual / fn-pointer calls are not followed by R7b", "FnvHasher and BTree orders are functions of the contents",
                        "the effect primitives (random, io, env, process, time) are outside the property"]
    r7a(fb, rep)
    r7b(fb, rep)
    r7c(fb, rep)
