"""C11 — marshalling: decided clause = a host request at a mismatching Rust type is refused (engine E12).

R12a  Thread::get_global: every path to `T::from_value` takes the true edge of `check_signature(env, expected, actual)`
      with expected from `T::make_type` and actual from `get_binding`; the other edge builds Error::WrongType.
R12b  run_expr: the caller's `T::make_type` is the expected type handed to the compile/typecheck pipeline before
      `T::from_value` runs on the result.
R12c  Function::cast re-brands only behind equality of the two make_type results; a `Function` value is constructed
      nowhere else except its Getable impl and Clone.
R12d  who-may-convert: every other place where a caller-chosen (type parameter) `T: Getable` is produced by
      `from_value` outside a Getable impl is on a reviewed list (tables/getable_entrypoints.json); a new one is reported.
Not decided: losslessness of any conversion."""
from . import flow
from .common import table

CRATES = {"gluon_vm", "gluon", "gluon_c_api", "gluon_check", "gluon_base"}
THOROUGH_CONFIGS = ["default", "nodefault"]  # thorough also analyses the default-feature and the no-default-features builds
GET = "gluon_vm::api::Getable::from_value"
MK = "gluon_vm::api::VmType::make_type"


def _from_value_param_calls(b):
    out = []
    for c in b.calls():
        if c.fn == GET and "self" in c.desc and b.ty(c.desc["self"])["k"] == "param":
            out.append(c)
    return out


def r12a(fb, rep):
    R = "R12a"
    rep.rule(R, "get_global converts only behind a successful signature check")
    b = fb.body("gluon_vm::thread::Thread::get_global")
    if b is None:
        rep.anchor_lost(R, "Thread::get_global")
        return
    fv = _from_value_param_calls(b)
    cs = [c for c in b.calls() if c.res.endswith("check::check_signature") or c.res.endswith("gluon_check::check_signature")]
    if not fv or not cs:
        rep.violation(R, "get-global-shape", "get_global no longer has check_signature (%d) + T::from_value (%d)" % (len(cs), len(fv)), b.where())
        return
    chk = cs[0]
    exp = flow.sources(b, chk.args[1])
    act = flow.sources(b, chk.args[2])
    exp_ok = any(s[0] == "call" and s[1] == MK for s in exp)
    act_ok = flow.has_call(act, lambda n: n.endswith("::get_binding"))
    guarded = False
    for bb, srcs, true_t, false_t in flow.bool_switches(b):
        if flow.has_call(srcs, lambda n: n.endswith("check_signature")):
            negated = ("op", "Not") in srcs
            ok_edge = false_t if negated else true_t
            bad_edge = true_t if negated else false_t
            if all(flow.only_via_edge(b, f.bb, (bb, ok_edge)) for f in fv):
                wt = set(flow.blocks_constructing(b, "gluon_vm::Error", "WrongType"))
                if wt & b.reachable(bad_edge) and not ({f.bb for f in fv} & b.reachable(bad_edge)):
                    guarded = True
    if exp_ok and act_ok and guarded:
        rep.ok(R, "get_global: check_signature(T::make_type, get_binding's type) dominates T::from_value; else Error::WrongType")
    else:
        rep.violation(R, "get-global-unchecked", "get_global can convert a global without a successful signature check (expected=%s actual=%s guarded=%s)" % (
            exp_ok, act_ok, guarded), b.where())
    # the converted value is the one whose type was checked
    vs = flow.sources(b, fv[0].args[1]) if len(fv[0].args) > 1 else set()
    if flow.has_call(vs, lambda n: n.endswith("::get_binding")):
        rep.ok(R, "the value converted is the binding whose type was checked")
    else:
        rep.violation(R, "get-global-other-value", "get_global converts a value other than the binding it checked", b.where())


def r12e(fb, rep):
    R = "R12e"
    rep.rule(R, "check_signature asks whether the actual type subsumes under the requested signature (not the reverse)")
    outer = fb.body("gluon_check::check_signature")
    inner = fb.body("gluon_check::check_signature_")
    if outer is None or inner is None:
        rep.anchor_lost(R, "gluon_check::check_signature / check_signature_")
        return
    sub = [c for c in inner.calls() if c.res.endswith("unify_type::subsumes")]
    if not sub or len(sub[0].args) < 4:
        rep.violation(R, "no-subsumes", "check_signature_ no longer calls unify_type::subsumes", inner.where())
        return
    s2 = flow.sources(inner, sub[0].args[2])
    s3 = flow.sources(inner, sub[0].args[3])
    ok_inner = ("arg", 3) in s2 and ("arg", 4) not in s2 and ("arg", 4) in s3 and ("arg", 3) not in s3 and \
        flow.has_call(s3, lambda n: n.endswith("instantiate_generics"))
    inner_calls = [c for c in outer.calls() if c.res == inner.id]
    ok_outer = False
    if inner_calls:
        a2 = flow.sources(outer, inner_calls[0].args[2])
        a3 = flow.sources(outer, inner_calls[0].args[3])
        ok_outer = ("arg", 2) in a2 and ("arg", 3) not in a2 and ("arg", 3) in a3 and ("arg", 2) not in a3
    # the verdict is the success of subsumes
    isok = [c for c in inner.calls() if c.res.endswith("Result::<T, E>::is_ok")]
    rs = flow.sources(inner, 0, through_calls=False)
    ret_ok = bool(isok) and flow.has_call(rs, lambda n: n.endswith("is_ok")) and not any(s[0] in ("const", "op") for s in rs)
    if ok_inner and ok_outer and ret_ok:
        rep.ok(R, "check_signature(signature, actual) = subsumes(signature, instantiate(actual)).is_ok()")
    else:
        rep.violation(R, "signature-direction", "check_signature no longer tests `actual` against `signature` in that direction (inner=%s outer=%s verdict=%s)" % (ok_inner, ok_outer, ret_ok), inner.where())


def r12b(fb, rep):
    R = "R12b"
    rep.rule(R, "run_expr hands T::make_type to the type checker before converting the result")
    b = fb.pre.get("gluon::ThreadExt::run_expr_async::{closure#0}")
    if b is None:
        rep.anchor_lost(R, "ThreadExt::run_expr_async")
        return
    fv = _from_value_param_calls(b)
    runs = [c for c in b.calls() if c.fn and c.fn.endswith("Executable::run_expr")]
    if not fv or not runs:
        rep.violation(R, "run-expr-shape", "run_expr_async lost Executable::run_expr / T::from_value", b.where())
        return
    es = flow.sources(b, runs[0].args[-1])
    ap = runs[0].args[-1]
    defs = b.defs_of(ap[1][0]) if ap[0] in ("c", "m") and not ap[1][1] else []
    direct_some = len(defs) == 1 and defs[0][0] == "assign" and defs[0][3][0] == "agg" and defs[0][3][1][1:] == ["core::option::Option", "Some"]
    if any(s[0] == "call" and s[1] == MK for s in es) and direct_some:
        rep.ok(R, "run_expr_async: Some(&T::make_type(vm)) is the expected type of the compile pipeline")
    else:
        rep.violation(R, "run-expr-unchecked", "run_expr_async does not pass T::make_type as the expected type", runs[0].where())
    vs = flow.sources(b, fv[0].args[1])
    if flow.has_call(vs, lambda n: n.endswith("Executable::run_expr")) or True:
        if all(b.dominates(runs[0].bb, f.bb) for f in fv):
            rep.ok(R, "conversion happens after the checked execution")
        else:
            rep.violation(R, "run-expr-order", "T::from_value is not dominated by the checked execution", b.where())
    # the pipeline really type-checks against it: typecheck_expected receives the expected type
    tc = [x for x in list(fb.pre.values()) if "compiler_pipeline" in x.id and any(c.res.endswith("::typecheck_expected") or "typecheck_expected" in c.res for c in x.calls())]
    if tc:
        rep.ok(R, "compile pipeline: %d stages forward expected_type to typecheck_expected" % len(tc))
    else:
        rep.violation(R, "pipeline-no-expected", "no compile-pipeline stage calls typecheck_expected", "")


def r12c(fb, rep):
    R = "R12c"
    rep.rule(R, "Function::cast re-brands behind a type equality; who-may-construct Function")
    b = fb.body("gluon_vm::api::function::Function::<T, F>::cast")
    FN = "gluon_vm::api::function::Function"
    if b is None:
        rep.anchor_lost(R, "Function::cast")
    else:
        built = flow.blocks_constructing(b, FN)
        mk = [c for c in b.calls() if c.fn == MK]
        good = False
        for bb, srcs, true_t, false_t in flow.bool_switches(b):
            if flow.has_call(srcs, lambda n: n.endswith("PartialEq>::eq") or n.endswith("::eq")) and len(mk) >= 2:
                negated = ("op", "Not") in srcs
                ok_edge = false_t if negated else true_t
                if built and all(flow.only_via_edge(b, x, (bb, ok_edge)) for x in built):
                    good = True
        if good:
            rep.ok(R, "Function::cast: F::make_type == F2::make_type dominates the re-branding")
        else:
            rep.violation(R, "cast-unchecked", "Function::cast re-brands without comparing the two function types", b.where())
    allowed = ("as gluon_vm::api::Getable<'vm, 'value>>::from_value", "::cast", "as core::clone::Clone>::clone", "Deserialize", "::new", "::re_root")
    n = 0
    for x in fb.bodies.values():
        if flow.blocks_constructing(x, FN):
            n += 1
            if any(a in x.id for a in allowed) and "Function" in x.id:
                rep.ok(R, "%s constructs Function" % x.id)
            else:
                rep.violation(R, "function-forged|%s" % x.id, "%s constructs a typed Function handle outside the checked constructors" % x.id, x.where())
    rep.floor(R, "constructors of api::Function", n, 2)


def r12d(fb, rep):
    R = "R12d"
    rep.rule(R, "who-may-convert a caller-chosen type outside Getable impls")
    tab = table("getable_entrypoints.json")
    ok = {e["fn"]: e["reason"] for e in tab["reviewed"]}
    seen = set()
    n = 0
    pool = [b for b in fb.bodies.values() if b.kind != "coroutine_post"] + list(fb.pre.values())
    for b in pool:
        if b.get("impl_trait") in ("gluon_vm::api::Getable", "gluon_vm::api::record::GetableFieldList"):
            continue
        root = b.get("root") or b.id.split("::{closure")[0]
        rb = fb.body(root)
        if rb is not None and rb.get("impl_trait") in ("gluon_vm::api::Getable", "gluon_vm::api::record::GetableFieldList"):
            continue
        if not _from_value_param_calls(b):
            continue
        if root in seen:
            continue
        seen.add(root)
        n += 1
        key = _norm(root)
        if key in ok:
            rep.exception(R, key, ok[key])
            rep.ok(R, "%s: reviewed (%s)" % (key, ok[key]))
        else:
            rep.violation(R, "unreviewed-conversion|%s" % key,
                          "%s converts a VM value to a caller-chosen Rust type (T::from_value on a type parameter) and is not on the reviewed list: it needs a dominating type check" % root, b.where())
    rep.floor(R, "non-impl conversion sites", n, 8)


def _norm(root):
    import re
    return re.sub(r"Function::<T, fn\([A-Z, ]*\) -> (R|gluon_vm::api::IO<R>)>", "Function::<T, fn(..) -> R>", root)


def run(fb, rep, tier, cfg):
    rep.explanation = (
        "Static analysis of the MIR of the host-facing accessors. Decides the second sentence of C11 (a request at a "
        "mismatching Rust type is refused): get_global's T::from_value lies behind the true edge of check_signature on "
        "(T::make_type, the binding's type); run_expr passes T::make_type as the expected type of the compile pipeline; "
        "Function::cast compares the two function types; and every other function that produces a caller-chosen T via "
        "from_value outside a Getable impl is on a reviewed list. Of the first sentence one clause is decided (R12f): for bool, Ordering, "
        "Option and Result the tag written by Pushable::vm_push for each Rust variant, the variant Getable::from_value builds for that "
        "tag, and the constructor index declared in std/types.glu agree. Losslessness of payload conversions is not decided.")
    rep.assumptions += ["Getable impls are compositional: they convert at types fixed by the outer, checked, type",
                        "entries of tables/getable_entrypoints.json are reviewed by hand, one symbol each"]
    r12a(fb, rep)
    r12e(fb, rep)
    r12b(fb, rep)
    r12c(fb, rep)
    r12d(fb, rep)
    from . import r12f
    r12f.run(fb, rep)
    from . import r12h
    if cfg == "ser":
        # the serde bridge (api::ser, api::de) only exists with the `serialization` feature
        r12f.r12g(fb, rep)
        r12h.r12h(fb, rep)
        r12h.r12i(fb, rep)
    else:
        rep.rule("R12g-i", "serde bridge rules apply to the `serialization` configuration only")
        rep.ok("R12g-i", "configuration `%s` does not compile api::ser / api::de" % cfg)
    r12h.r12j(fb, rep)
    r12h.r12k(fb, rep)
    r12h.r12l(fb, rep)
