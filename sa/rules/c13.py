"""C13 — heap isolation: every cross-heap transfer passes the share-or-copy decision and the deep clone (E4)."""
from . import e4

CRATES = {"gluon_vm", "gluon"}
THOROUGH_CONFIGS = ["default", "nodefault"]  # thorough also analyses the default-feature and the no-default-features builds


def run(fb, rep, tier, cfg):
    rep.explanation = (
        "Static analysis of the resolved MIR. E4a enumerates the cross-heap sinks from the code (stores through the mutex of "
        "Reference.value / Lazy.value, pushes into Sender.queue, RootedValue::new in re_root, the stack push of "
        "<RootedValue as Pushable>::vm_push, promotion of module values to the global heap) and requires the stored operand's "
        "backward slice to reach deep_clone_value / Cloner::deep_clone with the owner's thread (or GlobalVmState.gc) as the "
        "destination; any other writer of those places is a violation. E4b: where a Cloner is built for a non-global heap, "
        "can_share_values_with dominates the clone and its cannot-share edge always passes force_full_clone; the decision "
        "function itself keeps its three clauses; Generation::can_contain_values_from is `other <= self`. E4c: the cloner has an "
        "arm of its own for every ValueRepr/Repr variant and each pointer-carrying arm allocates a copy or fails. Not decided: "
        "structural equality, preservation of sharing/cycles of the copy, soundness of the generation shortcut for every "
        "thread-tree shape.")
    rep.assumptions += [
        "the set of sinks is the set found by type/field role on today's tree; a new kind of shared cell must be added to e4.CELLS",
        "unsafe code that forges GcPtrs (GcPtr::from_raw) outside these sites is not tracked",
    ]
    e4.cells(fb, rep)
    e4.queue(fb, rep)
    e4.host_moves(fb, rep)
    e4.globals_(fb, rep)
    e4.share_or_copy(fb, rep)
    e4.cloner_closed(fb, rep)
    e4.cloner_helpers(fb, rep)
    e4.userdata_clones(fb, rep)
    e4.cloner_heap_pairing(fb, rep)
    e4.foreign_thread_roots(fb, rep)
