"""C17 — channels, references, lazy values (engine E9).

R9a  lazy typestate: the function that stores Blackhole hands over to an evaluating coroutine; on *every* path to
     a return that coroutine stores a non-Blackhole state back (so no force can wait forever) and wakes a stored
     waiter on that path.
R9b  every body under `force` that inspects the cell treats each terminal state (the states the evaluator can
     leave behind) with a non-panicking arm.
R9c  channel FIFO pairing: Sender side only push_back, Receiver side only pop_front; recv cannot block.
R9d  reference: the two `set` variants agree (both clone into the owner and store), `get` reads under the mutex.
R9e  at-most-once: the Thunk->Blackhole transition happens while the lock taken for the inspection is still held.
Not decided: exactly-once delivery and ordering under all interleavings."""
from . import flow, e4
from .common import CallGraph, enum_switches_any, variant_names, place_type_row
from .facts import op_place

CRATES = {"gluon_vm"}
THOROUGH_CONFIGS = ["default", "nodefault"]  # thorough also analyses the default-feature and the no-default-features builds
LAZY = "gluon_vm::lazy::Lazy"
LAZY_ = "gluon_vm::lazy::Lazy_"
REF = "gluon_vm::reference::Reference"


def _cell_stores(b, adt=LAZY, field="value"):
    """yield (bb, line, variant or None) for deref-stores into the cell"""
    for i, j, place, rv, line in b.assigns():
        if place[1] != ["*"] or b.is_cleanup(i):
            continue
        dsrc = flow.sources(b, place[0])
        if ("field", adt, field) not in dsrc:
            continue
        variant = None
        if rv[0] == "use":
            p = op_place(rv[1])
            if p is not None and not p[1]:
                for d in b.defs_of(p[0]):
                    if d[0] == "assign" and d[3][0] == "agg" and d[3][1][0] == "adt" and d[3][1][1] == LAZY_:
                        variant = d[3][1][2]
        yield i, line, variant


def r9a(fb, rep):
    R = "R9a"
    rep.rule(R, "lazy typestate: Blackhole is left on every exit of the evaluating coroutine, waiters are woken")
    blackholers = []
    for b in fb.bodies.values():
        if b.kind == "coroutine_post":
            continue
        for bb, line, variant in _cell_stores(b):
            if variant == "Blackhole":
                blackholers.append((b, bb, line))
    if not blackholers:
        rep.anchor_lost(R, "the function that stores Lazy_::Blackhole into Lazy.value")
        return set()
    terminal = set()
    n_eval = 0
    for b, bb, line in blackholers:
        after = b.reachable(bb)
        evals = []
        for i, j, place, rv, ln in b.assigns():
            if i in after and rv[0] == "agg" and rv[1][0] == "coroutine":
                evals.append(rv[1][1])
        if not evals:
            rep.violation(R, "no-evaluator|%s" % b.id, "%s stores Blackhole but starts no evaluating coroutine" % b.id, "%s:%s" % (b.file, line))
            continue
        for eid in evals:
            e = fb.pre.get(eid)
            if e is None:
                rep.anchor_lost(R, "pre-transform MIR of coroutine %s" % eid)
                continue
            n_eval += 1
            restores = {}
            for sbb, sline, variant in _cell_stores(e):
                if variant is not None and variant != "Blackhole":
                    restores[sbb] = variant
                    terminal.add(variant)
            rets = set(e.return_blocks())
            escaped = e.reachable(0, avoid_blocks=restores.keys()) & rets
            if not restores:
                rep.violation(R, "never-restores|%s" % eid, "evaluating coroutine never stores a final state into Lazy.value", e.where())
                continue
            if escaped:
                # describe the offending exits: which RuntimeResult variant is built on the way
                exits = []
                for i, j, place, rv, ln in e.assigns():
                    if i in e.reachable(0, avoid_blocks=restores.keys()) and place == [0, []] and rv[0] == "agg":
                        exits.append("%s at %s:%s" % ("::".join(rv[1][1:]), e.file, ln))
                rep.violation(R, "blackhole-left|%s" % eid,
                              "%s can return with Lazy.value still Blackhole (every later force from another thread waits forever): %s" % (
                                  eid, "; ".join(sorted(set(exits)))), e.where(), path=sorted(escaped))
            else:
                rep.ok(R, "%s: every return passes a store of %s into Lazy.value" % (eid, "/".join(sorted(set(restores.values())))))
            # waiters: on every path to a restoring store the Blackhole's waiter slot is taken and signalled or dropped
            takes = [c for c in e.calls() if c.res.endswith("Option::<T>::take")]
            sends = [c for c in e.calls() if "oneshot::Sender" in c.res and c.res.endswith("::send")]
            if takes:
                unsignalled = [s for s in restores if not any(e.dominates(t.bb, s) for t in takes)]
                if unsignalled:
                    rep.violation(R, "waiter-not-woken|%s" % eid, "a final state is stored without taking the waiter out of the Blackhole first", e.where())
                else:
                    rep.ok(R, "%s: the waiter slot is taken before each final store (%d send sites)" % (eid, len(sends)))
            else:
                rep.violation(R, "waiter-not-woken|%s" % eid, "evaluating coroutine never takes the waiter stored in the Blackhole", e.where())
    rep.floor(R, "evaluating coroutines", n_eval, 1)
    return terminal


def r9b(fb, rep, terminal):
    R = "R9b"
    rep.rule(R, "every inspection of the lazy cell handles each terminal state without panicking")
    names = variant_names(fb, LAZY_)
    if not names:
        rep.anchor_lost(R, "enum Lazy_")
        return
    n = 0
    scope = [b for b in list(fb.bodies.values()) if b.id.startswith("gluon_vm::lazy::force") and b.kind != "coroutine_post"]
    scope += [b for b in fb.pre.values() if b.id.startswith("gluon_vm::lazy::force")]
    for b in scope:
        for bb, place, m, other in enum_switches_any(b):
            if ("field", LAZY, "value") not in flow.sources(b, place):
                continue
            row = place_type_row(b, place)
            if row is None or b.strip_refs(row).get("adt") != LAZY_:
                continue
            row_ok = True
            n += 1
            for v in sorted(terminal):
                idx = names.index(v)
                tgt = m.get(idx, other)
                # the arm must be able to reach a normal exit without going through an unconditional panic
                if _arm_panics(b, tgt):
                    # an inspection that only runs while the evaluator still owns the cell (the evaluator itself) is exempt
                    if b.id in fb.pre and any(vv for _, _, vv in _cell_stores(b)):
                        continue
                    row_ok = False
                    rep.violation(R, "terminal-state-panics|%s|%s" % (b.id, v),
                                  "%s: state Lazy_::%s (which the evaluator can leave behind) falls into a panicking arm" % (b.id, v), b.where())
            if row_ok:
                rep.ok(R, "%s bb%d: arms for terminal states %s do not panic" % (b.id, bb, sorted(terminal)))
    rep.floor(R, "inspections of the lazy cell under force", n, 2)


def _arm_panics(b, tgt):
    t = b.term(tgt)
    seen = set()
    cur = tgt
    # follow straight-line gotos
    while t[0] == "goto" and cur not in seen:
        seen.add(cur)
        cur = t[1]
        t = b.term(cur)
    if t[0] == "call" and t[4] is None and ("panic" in (t[1].get("res") or t[1].get("fn") or "")):
        return True
    if t[0] == "unreachable":
        return True
    return False


def r9c(fb, rep):
    R = "R9c"
    rep.rule(R, "channel FIFO pairing and non-blocking recv")
    e4.queue(fb, rep)  # push_back only on the Sender side, pop_front only on the Receiver side (recorded under E4a)
    recv = fb.body("gluon_vm::channel::recv")
    if recv is None:
        rep.anchor_lost(R, "channel::recv")
        return
    if recv.kind != "fn":
        rep.violation(R, "recv-async", "recv became asynchronous", recv.where())
    cg = CallGraph(fb)
    reach = cg.reach([recv.id])
    blocking = [n for n in reach if any(x in n for x in ("Condvar", "thread::park", "thread::sleep", "block_on", "mpsc::Receiver", "::recv_timeout", "oneshot::Receiver"))]
    if blocking:
        rep.violation(R, "recv-blocks", "recv can reach a blocking primitive: %s" % blocking[:3], recv.where())
    else:
        rep.ok(R, "recv reaches no wait/park/sleep/block_on (%d functions in its call tree)" % len(reach))
    pops = [c for c in fb.calls_of("gluon_vm::channel::Receiver::<T>::try_recv")]
    if pops:
        rep.ok(R, "recv -> Receiver::try_recv -> VecDeque::pop_front")


def r9g(fb, rep):
    """a send that reports success has enqueued the value: exactly-once delivery starts with an honest result"""
    R = "R9g"
    rep.rule(R, "channel send reports Ok only after the value was enqueued, and not when the copy into the owner's heap failed")
    SENDER = "gluon_vm::channel::Sender"
    # enqueue = push_back on Sender.queue, directly or through a function that does it (found by role, not by name)
    direct = set()
    for x in fb.bodies.values():
        if x.crate.name != "gluon_vm":
            continue
        for c in x.calls():
            if c.res.endswith("VecDeque::<T, A>::push_back") and c.args and ("field", SENDER, "queue") in flow.sources(x, c.args[0], depth=12):
                direct.add(x.id)

    def enq_calls(x):
        return [c for c in x.calls() if (c.res.endswith("VecDeque::<T, A>::push_back") and c.args and ("field", SENDER, "queue") in flow.sources(x, c.args[0], depth=12))
                or (c.res in direct and c.res != x.id)]
    cands = [x for x in fb.bodies.values() if x.crate.name == "gluon_vm" and x.kind == "fn" and enq_calls(x)
             and any(c.res.endswith("::deep_clone_value") for c in x.calls())]
    if len(cands) != 1:
        rep.anchor_lost(R, "the function that copies a value into the channel owner's heap and enqueues it: %d candidates" % len(cands))
        return
    b = cands[0]
    enq = enq_calls(b)
    clone = [c for c in b.calls() if c.res.endswith("::deep_clone_value")]
    oks = set(flow.blocks_constructing(b, "core::result::Result", "Ok"))
    if not oks:
        rep.anchor_lost(R, "%s builds no Ok result" % b.id)
        return
    bad = [i for i in oks if not any(b.dominates(c.bb, i) for c in enq)]
    if bad:
        rep.violation(R, "ok-without-enqueue", "%s can report Ok(()) on a path that did not enqueue the value (the push_back does not dominate the Ok result): "
                      "a failed deep clone would be reported as a successful send that is never delivered" % b.id, b.where(), path=sorted(bad))
    else:
        rep.ok(R, "%s: every Ok(()) result is dominated by the enqueue" % b.id)
    # the failure edge of the copy (Err of the Result, or Break of `?`) reaches a return without enqueueing and without building Ok
    derived = flow.derived_locals(b, clone[0].dest[0]) if clone[0].dest is not None else set()
    for c in b.calls():   # map_err(..) / Try::branch(..) of the clone's result
        if c.args and op_place(c.args[0]) is not None and op_place(c.args[0])[0] in derived and c.dest is not None and \
                c.res.rsplit("::", 1)[1] in ("map_err", "branch", "or_else", "map"):
            derived |= flow.derived_locals(b, c.dest[0])
            for c2 in b.calls():
                if c2.args and op_place(c2.args[0]) is not None and op_place(c2.args[0])[0] in derived and c2.dest is not None and c2.res.rsplit("::", 1)[1] in ("branch",):
                    derived |= flow.derived_locals(b, c2.dest[0])
    good = False
    for bb, place, m, other in enum_switches_any(b):
        if not place[1] and place[0] in derived and 1 in m:
            fail_edge = m[1]
            okside = [t for v, t in m.items() if v != 1] + ([other] if other is not None else [])
            region = b.reachable(fail_edge, avoid_blocks=[bb]) - b.reachable(okside, avoid_blocks=[bb])
            if not any(c.bb in region for c in enq) and not (oks & region):
                good = True
    if good:
        rep.ok(R, "%s: a failed copy into the channel owner's heap is propagated as a failure and nothing is enqueued" % b.id)
    else:
        rep.violation(R, "clone-failure-not-reported", "%s no longer turns a failed deep_clone_value into a failure result" % b.id, b.where())


def r9d(fb, rep):
    R = "R9d"
    rep.rule(R, "reference: set variants agree; get reads the cell under its mutex")
    sets = [b for b in fb.bodies.values() if any(v for _ in [0] for bb, line, v in []) or False]
    writers = {}
    for b in fb.bodies.values():
        for i, j, place, rv, line in b.assigns():
            if place[1] == ["*"] and ("field", REF, "value") in flow.sources(b, place[0]):
                writers[b.id] = b
    rep.floor(R, "writers of Reference.value", len(writers), 2)
    shapes = {}
    for bid, b in writers.items():
        dcv = [c for c in b.calls() if any(e4._is_dcv(n) for n in c.names())]
        lock = [c for c in b.calls() if c.res.endswith("Mutex::<T>::lock") and ("field", REF, "value") in flow.sources(b, c.args[0])]
        shapes[bid] = (bool(dcv), bool(lock))
    if len(set(shapes.values())) == 1 and all(all(s) for s in shapes.values()):
        rep.ok(R, "writers of Reference.value agree: %s all clone into the owner and store under the mutex" % sorted(shapes))
    else:
        rep.violation(R, "set-siblings-disagree", "writers of Reference.value disagree on clone/lock: %s" % shapes, "")
    # every other access to the field goes through the mutex
    n = 0
    for b in fb.bodies.values():
        for i, j, place, rv, line in b.assigns():
            if rv[0] == "ref" and any(isinstance(p, list) and p[0] == "f" and len(p) == 4 and p[1] == REF and p[3] == "value" for p in rv[2][1]):
                n += 1
                dest = place[0]
                uses = list(flow.uses_of_local(b, dest))
                if uses and all(c.res.endswith("Mutex::<T>::lock") or "Trace" in c.res or c.res.endswith("::mark") for c, ai in uses):
                    rep.ok(R, "%s: Reference.value accessed through Mutex::lock" % b.id)
                elif not uses:
                    pass
                else:
                    rep.violation(R, "ref-unsynchronised|%s" % b.id, "Reference.value borrowed without Mutex::lock: %s" % [c.res for c, ai in uses], "%s:%s" % (b.file, line))
    rep.floor(R, "borrows of Reference.value", n, 4)


def r9e(fb, rep):
    R = "R9e"
    rep.rule(R, "at most once: Thunk is replaced by Blackhole under the same lock hold that observed it")
    done = False
    for b in fb.bodies.values():
        if b.kind == "coroutine_post":
            continue
        for bb, line, variant in _cell_stores(b):
            if variant != "Blackhole":
                continue
            locks = [c for c in b.calls() if c.res.endswith("Mutex::<T>::lock") and ("field", LAZY, "value") in flow.sources(b, c.args[0])]
            if not locks:
                rep.violation(R, "blackhole-unlocked|%s" % b.id, "Blackhole stored without locking Lazy.value", "%s:%s" % (b.file, line))
                continue
            lk = locks[0]
            # the guard: result of unwrap on the lock result
            guards = set()
            for c in b.calls():
                if c.res.endswith("Result::<T, E>::unwrap") and flow.has_call(flow.sources(b, c.args[0]), lambda n: n.endswith("Mutex::<T>::lock")):
                    guards.add(c.dest[0])
            # blocks that release a guard: drop terminator on the guard local, or a move of it into mem::drop
            releases = set()
            for i, blk in enumerate(b.blocks):
                t = blk["t"]
                if t[0] == "drop" and t[1][0] in guards and not t[1][1] and not blk.get("cl"):
                    releases.add(i)
                if t[0] == "call":
                    for a in t[2]:
                        p = op_place(a)
                        if p is not None and a[0] == "m" and (p[0] in guards or flow.derived_locals(b, p[0]) & guards or
                                                               any(g in flow.derived_locals(b, g) and p[0] in _moved_from(b, guards) for g in guards)):
                            if "mem::drop" in (t[1].get("res") or ""):
                                releases.add(i)
            early = [r for r in releases if bb in b.reachable(r) and r != bb and r in b.reachable(lk.bb) and not b.dominates(bb, r)]
            # exactly one lock acquisition before the store
            relock = [c for c in locks[1:] if b.dominates(c.bb, bb)]
            if early or relock:
                rep.violation(R, "thunk-window|%s" % b.id, "the lock observed Thunk under is released (or re-taken) before Blackhole is stored: two forces can both evaluate", "%s:%s" % (b.file, line))
            else:
                rep.ok(R, "%s: lock -> read state -> store Blackhole with no release in between" % b.id)
            done = True
    if not done:
        rep.anchor_lost(R, "Blackhole store")


def _moved_from(b, guards):
    out = set()
    for i, j, place, rv, line in b.assigns():
        if rv[0] == "use" and rv[1][0] == "m":
            p = op_place(rv[1])
            if p is not None and p[0] in guards and not p[1] and not place[1]:
                out.add(place[0])
    return out


def r9f(fb, rep):
    R = "R9f"
    rep.rule(R, "self-dependency detection: the identity stored in Blackhole and the identity it is compared with have the same source")
    WV = "gluon_vm::api::WithVM"
    done = False
    for b in fb.bodies.values():
        if b.kind == "coroutine_post":
            continue
        stores = [(i, rv, ln) for i, j, pl, rv, ln in b.assigns() if rv[0] == "agg" and rv[1][0] == "adt" and rv[1][1] == LAZY_ and rv[1][2] == "Blackhole"]
        if not stores:
            continue
        done = True
        for i, rv, ln in stores:
            w = flow.sources(b, rv[2][0])
            w_ident = {s for s in w if s[0] == "field" and s[2] in ("vm", "thread")}
            # the comparison(s) that read Blackhole.0
            readers = []
            for i2, j2, pl2, rv2, ln2 in b.assigns():
                if rv2[0] == "bin" and rv2[1] in ("Eq", "Ne"):
                    sa, sb = flow.sources(b, rv2[2]), flow.sources(b, rv2[3])
                    if ("vfield", LAZY_, "Blackhole", "0") in sa:
                        readers.append((sb, ln2))
                    elif ("vfield", LAZY_, "Blackhole", "0") in sb:
                        readers.append((sa, ln2))
            if not readers:
                rep.violation(R, "no-loop-test|%s" % b.id, "%s stores Blackhole but never compares the stored identity: a self-dependent lazy value cannot be detected" % b.id, "%s:%s" % (b.file, ln))
                continue
            for other, ln2 in readers:
                r_ident = {s for s in other if s[0] == "field" and s[2] in ("vm", "thread")}
                if w_ident and w_ident == r_ident:
                    rep.ok(R, "%s: Blackhole records %s and the <<loop>> test compares with the same identity" % (b.id, sorted(x[1].rsplit("::", 1)[1] + "." + x[2] for x in w_ident)))
                else:
                    rep.violation(R, "blackhole-identity-mismatch|%s" % b.id,
                                  "%s records %s in the Blackhole but compares it with %s: a self-dependent force from another thread waits forever (or a legitimate wait reports <<loop>>)" % (
                                      b.id, sorted(x[1].rsplit("::", 1)[1] + "." + x[2] for x in w_ident), sorted(x[1].rsplit("::", 1)[1] + "." + x[2] for x in r_ident)),
                                  "%s:%s" % (b.file, ln2))
    if not done:
        rep.anchor_lost(R, "Blackhole construction")


def r9h(fb, rep):
    """R9h — registering as a waiter on a lazy value that another thread is evaluating never replaces an earlier registration.
    The Blackhole state carries one slot `Option<(oneshot::Sender, Shared<Receiver>)>`; every waiting `force` clones the shared
    receiver and the evaluating thread fires the one sender when it is done.  If a second waiter overwrites the slot, the first
    waiter's sender is dropped: its receiver resolves (cancelled) while the cell is still a Blackhole and its continuation
    reaches `unreachable!()` — the force neither waits nor returns the value.  Rule: in `lazy::force` every overwriting write of
    the slot (`*slot = ..`, `Option::insert/replace/take/set`) lies behind the edge on which the slot was observed empty
    (`is_none()` true / `is_some()` false / the None edge of a discriminant switch); `get_or_insert*` are fine."""
    R = "R9h"
    rep.rule(R, "a waiter registration on a Blackhole never overwrites an existing registration")
    b = fb.body("gluon_vm::lazy::force")
    if b is None:
        rep.anchor_lost(R, "gluon_vm::lazy::force")
        return
    def is_slot_ref(l):
        t = b.local_tstr(l)
        return t.startswith("&mut core::option::Option<(futures_channel::oneshot::Sender<")
    slots = [i for i in range(len(b.d["locals"])) if is_slot_ref(i)]
    # only the slot inside the Blackhole state (a reborrow of a place with a Blackhole downcast)
    bh = []
    for i, j, pl, rv, ln in b.assigns():
        if not pl[1] and pl[0] in slots and rv[0] == "ref" and any(isinstance(p, list) and p[0] == "d" and p[1] == "Blackhole" for p in rv[2][1]):
            bh.append(pl[0])
    if not bh:
        rep.anchor_lost(R, "the waiter slot of Lazy_::Blackhole in lazy::force")
        return
    n = 0
    for sl in bh:
        der = flow.derived_locals(b, sl)
        writes = []
        for i, blk in enumerate(b.blocks):
            if blk.get("cl"):
                continue
            for st in blk["s"]:
                if st[0] == "=" and st[1][0] in der and st[1][1] == ["*"]:
                    writes.append((i, "assignment", st[3]))
        for c in b.calls():
            last = c.res.rsplit("::", 1)[-1]
            if c.res.startswith("core::option::Option::<T>::") and last in ("insert", "replace", "take") and c.args and op_place(c.args[0]) is not None and op_place(c.args[0])[0] in der:
                writes.append((c.bb, "Option::%s" % last, c.line))
        # the observation "slot is empty"
        empties = []
        for c in b.calls():
            last = c.res.rsplit("::", 1)[-1]
            if c.res.startswith("core::option::Option::<T>::") and last in ("is_none", "is_some") and c.args:
                src = flow.sources(b, c.args[0], depth=6)
                p = op_place(c.args[0])
                if p is not None and (p[0] in der or any(x in der for x in flow.derived_locals(b, sl)) and any(
                        rv[0] == "ref" and rv[2][0] in der for i2, j2, pl2, rv, ln2 in b.assigns() if not pl2[1] and pl2[0] == p[0])):
                    for bb, srcs, true_t, false_t in flow.bool_switches(b):
                        if c.dest is not None and ("local", c.dest[0]) in srcs or any(s_[0] == "call" and s_[1] == c.res for s_ in srcs) and bb in b.reachable(c.bb):
                            empties.append((bb, true_t if last == "is_none" else false_t))
        n += 1
        if not writes:
            rep.ok(R, "lazy::force registers waiters without an overwriting write of the slot")
            continue
        for wbb, kind, ln in writes:
            if any(flow.only_via_edge_threaded(b, wbb, e) for e in empties):
                rep.ok(R, "lazy::force: the %s of the waiter slot (line %s) lies behind the slot-is-empty edge" % (kind, ln))
            else:
                rep.violation(R, "waiter-slot-overwritten", "lazy::force writes the Blackhole's waiter slot (%s) on a path on which the slot may already hold another waiter's channel: the earlier "
                              "waiter's sender is dropped, its force resumes while the value is still being evaluated" % kind, "%s:%s" % (b.file, ln))
    rep.floor(R, "Blackhole waiter slots examined", n, 1)


def run(fb, rep, tier, cfg):
    rep.explanation = (
        "Static analysis of gluon_vm's MIR (coroutines in their pre-state-transform form). R9a: the coroutine started after "
        "Lazy_::Blackhole is stored must, on every path from entry to a return (through all await points), store a "
        "non-Blackhole state into Lazy.value and take the stored waiter first; R9b: each body under lazy::force that switches "
        "on the cell's state has a non-panicking arm for every state the evaluator can leave behind; R9c: the channel queue is "
        "push_back-only on the Sender side and pop_front-only on the Receiver side and recv reaches no blocking primitive; "
        "R9d: both Reference setters clone into the owner and store under the mutex, all other accesses lock; R9e: no release "
        "of the lock between observing Thunk and storing Blackhole. Ordering/exactly-once under all interleavings is not decided.")
    rep.assumptions += ["cancellation (dropping the evaluating future while suspended) is outside the property and not analysed",
                        "flow-insensitive per-local value flow"]
    terminal = r9a(fb, rep)
    r9b(fb, rep, terminal or {"Value"})
    r9c(fb, rep)
    r9g(fb, rep)
    r9d(fb, rep)
    r9e(fb, rep)
    r9f(fb, rep)
    r9h(fb, rep)
    e4.cells(fb, rep, rule="R9d")
