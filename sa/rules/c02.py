"""C02 — type soundness: decided clause = primitive operators accepted by the checker are handled by the compiler (R11b)."""
from . import e11

CRATES = {"gluon_vm", "gluon_check", "gluon_base", "gluon"}
THOROUGH_CONFIGS = ["default", "nodefault"]  # thorough also analyses the default-feature and the no-default-features builds


def run(fb, rep, tier, cfg):
    rep.explanation = (
        "Whole-property verdict is out of reach of static analysis. Decided clause R11b: the set of `#<Type><op>` operators for "
        "which the checker's Expr::Infix case produces a type (read from the string literals it compares, in either of the two "
        "recognised forms) is a subset of the literals Compiler::compile_primitive maps to an instruction; any other accepted "
        "operator reaches `load_identifier` -> ice!(\"Undefined variable\") on a program the checker accepted. Everything else in "
        "C02 is not decided. R2g: GADT refinement bookkeeping — refinement of rigid variables is enabled only in Typecheck::refines, "
        "the skolems it may bind are recorded by a deep traversal of the scrutinee type that dominates the refining unification, and "
        "every match alternative resets what it recorded before the next alternative or the return. R2h: compiler_pipeline::run_io (which "
        "replaces an IO action by its result and rewrites the type) is called only by top-level executables, never by the function that "
        "stores an evaluated module for importers, who are typed against the module's checked type. R2i: visitors that collect pattern binders "
        "override every identifier hook ast::walk_pattern uses. R2j: the record-literal shortcut that skips the check against the expected type "
        "compares value-field names in order.")
    rep.assumptions += ["only operators spelled `#<alphabetic type name><symbol>` are considered"]
    e11.r11b(fb, rep)
    from . import r2g
    r2g.run(fb, rep)
    r2g.r2h(fb, rep)
    r2g.r2i(fb, rep)
    r2g.r2j(fb, rep)
    r2g.r2k(fb, rep)
    r2g.r2m(fb, rep)
    r2g.r2n(fb, rep)
    e11.r11e(fb, rep)
    e11.r11f(fb, rep)
