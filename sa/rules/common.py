"""Helpers shared by several engines (enum switches, tables, call-graph reachability)."""
import json
import os
from collections import deque

from .facts import op_place
from .report import VERIF


def table(name):
    with open(os.path.join(VERIF, "tables", name)) as f:
        return json.load(f)


def variant_index(fb, adt_path, variant):
    a = fb.adts.get(adt_path)
    if not a:
        return None
    for i, v in enumerate(a["variants"]):
        if v["name"] == variant:
            return i
    return None


def variant_names(fb, adt_path):
    a = fb.adts.get(adt_path)
    return [v["name"] for v in a["variants"]] if a else []


def place_type_row(body, place):
    """best-effort type row of a place: only exact for places without projections or ending in Deref of a
    ref-typed local"""
    row = body.local_ty(place[0])
    for p in place[1]:
        if p == "*":
            if row.get("k") in ("ref", "refmut", "ptr") and row.get("c"):
                row = body.types[row["c"][0]]
            elif row.get("k") == "adt" and row.get("c"):
                # Box<T> and smart pointers deref'd by builtin deref
                row = body.types[row["c"][0]]
            else:
                return None
        else:
            return None
    return row


def enum_switches(body, adt_path):
    """yield (bb, {variant_index: target}, otherwise) for switches on `discriminant(place)` where the place's
    type (after derefs) is adt_path"""
    for i, blk in enumerate(body.blocks):
        t = blk["t"]
        if t[0] != "switch":
            continue
        p = op_place(t[1])
        if p is None or p[1]:
            continue
        for d in body.defs_of(p[0]):
            if d[0] == "assign" and d[3][0] == "disc":
                row = place_type_row(body, d[3][1])
                if row is None:
                    # projection through fields: fall back to checking the last field projection's adt
                    continue
                row = body.strip_refs(row)
                if row.get("adt") == adt_path:
                    yield i, {val: bb for val, bb in t[2]}, t[3]


def enum_switches_any(body):
    """yield (bb, place, {val: target}, otherwise) for every switch on a discriminant read"""
    for i, blk in enumerate(body.blocks):
        t = blk["t"]
        if t[0] != "switch":
            continue
        p = op_place(t[1])
        if p is None or p[1]:
            continue
        for d in body.defs_of(p[0]):
            if d[0] == "assign" and d[3][0] == "disc":
                yield i, d[3][1], {val: bb for val, bb in t[2]}, t[3]


class CallGraph:
    """Whole-workspace call graph over resolved callee names (plus closures/coroutines constructed in a body,
    and functions reified to pointers)."""

    def __init__(self, fb, include_closures=True, include_reified=True):
        self.fb = fb
        self.out = {}
        for bid, b in fb.bodies.items():
            s = set()
            for c in b.calls():
                s |= c.names()
            if include_closures or include_reified:
                for i, j, place, rv, line in b.assigns():
                    if include_closures and rv[0] == "agg" and rv[1][0] in ("closure", "coroutine", "coroutine_closure"):
                        s.add(rv[1][1])
                    if include_reified:
                        for o in (rv[1:] if rv[0] in ("use",) else ([rv[2]] if rv[0] == "cast" else [])):
                            if isinstance(o, list) and o and o[0] == "k" and isinstance(o[1], dict):
                                k = o[1]
                                if "fn" in k:
                                    s.add(k.get("res") or k["fn"])
                                    s.add(k["fn"])
                                if "closure" in k:
                                    s.add(k["closure"])
                # call arguments that are fn items / closures passed by value
                for c in b.calls():
                    for a in c.args:
                        if a[0] == "k" and isinstance(a[1], dict):
                            k = a[1]
                            if include_reified and "fn" in k:
                                s.add(k.get("res") or k["fn"])
                                s.add(k["fn"])
                            if include_closures and "closure" in k:
                                s.add(k["closure"])
            self.out[bid] = s

    def reach(self, roots, barrier=lambda n: False):
        """set of body ids / names reachable from roots (names without a body are included but not expanded)"""
        seen = set()
        q = deque()
        for r in roots:
            if r not in seen:
                seen.add(r)
                q.append(r)
        while q:
            n = q.popleft()
            if barrier(n):
                continue
            for m in self.out.get(n, ()):
                if m not in seen:
                    seen.add(m)
                    q.append(m)
        return seen

    def callers_closure(self, targets):
        """all body ids from which some target name is reachable"""
        rev = {}
        for a, outs in self.out.items():
            for o in outs:
                rev.setdefault(o, set()).add(a)
        seen = set(targets)
        q = deque(targets)
        while q:
            n = q.popleft()
            for m in rev.get(n, ()):
                if m not in seen:
                    seen.add(m)
                    q.append(m)
        return seen
