"""E3d — the bytecode interpreter never does unchecked arithmetic on script values (C06).

A panic inside `ExecuteContext::execute_` is not behind the primitive barrier of E3a: it unwinds out of `run_expr` /
`Function::call` into the host while the thread's context mutex is held (poisoning it).  rustc lowers `a / b`, `a % b`, `-a`
and, with overflow checks, `a + b` ... to an `assert` terminator (DivisionByZero, RemainderByZero, Overflow(op), OverflowNeg)
that panics.  Rule: in the interpreter (every body of gluon_vm::thread::ExecuteContext, the `binop*` helpers and the closures
nested in them) no such assert has an operand of a script value type (`i64` = VmInt, `u8` = Byte, `f64` never asserts);
the arithmetic instructions go through `checked_*` (R11a ties each to its checked operation).  Index arithmetic on
`u32`/`usize` (stack offsets, instruction pointer) is bounded by the VM's own invariants and is listed, not judged."""
from .facts import op_place

VALUE_TYPES = {"i64", "u8", "i32", "i16", "i8", "u16", "isize"}
KINDS = {"Overflow", "OverflowNeg", "DivisionByZero", "RemainderByZero"}


def in_scope(bid):
    return (bid.startswith("gluon_vm::thread::ExecuteContext::") or bid.startswith("gluon_vm::thread::binop")
            or bid.startswith("gluon_vm::thread::OwnedContext::") and "::execute" in bid)


def run(fb, rep):
    R = "E3d"
    rep.rule(R, "no panicking (assert-lowered) arithmetic on script values inside the bytecode interpreter")
    n_bodies = n_asserts = n_index = 0
    for bid, b in fb.bodies.items():
        if b.crate.name != "gluon_vm" or not in_scope(bid) or b.kind == "promoted":
            continue
        n_bodies += 1
        for i, blk in enumerate(b.blocks):
            t = blk["t"]
            if t[0] != "assert" or t[3][0] not in KINDS:
                continue
            n_asserts += 1
            ops = [o for o in t[3][1:] if isinstance(o, list) and o and o[0] in ("c", "m", "k")]
            tys = set()
            for o in ops:
                p = op_place(o)
                if p is not None and not p[1]:
                    tys.add(b.local_tstr(p[0]))
                elif o[0] == "k" and isinstance(o[1], dict) and "ty" in o[1]:
                    tys.add(b.tstr(o[1]["ty"]))
            what = t[3][0] + ("(%s)" % t[3][1] if t[3][0] == "Overflow" else "")
            if tys & VALUE_TYPES:
                rep.violation(R, "unchecked-value-arithmetic|%s|%s" % (b.get("root") or bid, what),
                              "%s performs %s on a script value (%s) with Rust's panicking operator: e.g. Int.min / -1 or a zero divisor unwinds "
                              "out of the interpreter into the host instead of becoming an error value" % (bid, what, ", ".join(sorted(tys & VALUE_TYPES))),
                              "%s:%s" % (b.file, t[6]))
            else:
                n_index += 1
    rep.floor(R, "interpreter bodies examined", n_bodies, 25)
    rep.floor(R, "arithmetic asserts examined (index arithmetic)", n_asserts, 20)
    rep.ok(R, "%d interpreter bodies, %d arithmetic asserts, all on u32/usize index values" % (n_bodies, n_index))
