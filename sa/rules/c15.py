"""C15 — modules: evaluated once, cycles rejected, reloads never stale (engine E6; the once-clause is shared with C14).

R6a  memoisation kinds, read from the resolved `Storage` associated type of each query (not the attribute text):
     module evaluation (`global_inner`) is a memoised query keyed by the module name; who-may-evaluate a module body.
R6b  invalidate on change: in add_module the edge that overwrites the stored text reaches `invalidate` on every path;
     nobody else writes the inline module table.
R6c  untracked reads are reported: every query function that reads the database's untracked state (State mutex, peek,
     the file system through module_text) reports an untracked/synthetic read before its first such read; query
     functions with untracked reads that do not report are compared against a reviewed table.
R6d  cycle recovery is present on every query of the import cycle and produces the CyclicDependency error.
Not decided: equality with a fresh VM for all edit histories; correctness of salsa itself."""
from . import flow
from .common import enum_switches_any, table, CallGraph

CRATES = {"gluon", "gluon_vm"}
QB = "gluon_salsa::QueryBase"
QF = "gluon_salsa::plumbing::QueryFunction"


def _queries(fb):
    """{QueryType: {'storage': str, 'key': str, 'has_recover': bool, 'execute': path}}"""
    out = {}
    for im in fb.impls:
        c = im["_crate"]
        s = c.types[im["self"]]["s"]
        if not s.startswith("gluon::query::"):
            continue
        if im.get("trait") == QB:
            d = out.setdefault(s, {})
            for it in im["items"]:
                if it["kind"] == "type" and it["name"] == "Storage":
                    d["storage"] = c.types[it["ty"]]["s"]
                if it["kind"] == "type" and it["name"] == "Key":
                    d["key"] = c.types[it["ty"]]["s"]
        if im.get("trait") == QF:
            d = out.setdefault(s, {})
            names = {it["name"]: it["path"] for it in im["items"] if it["kind"] == "fn"}
            d["has_recover"] = "recover" in names
            d["execute"] = names.get("execute")
            d["recover"] = names.get("recover")
    return out


def _kind(storage):
    # salsa::plumbing::{MemoizedStorage, DependencyStorage} are aliases of DerivedStorage<Q, {Always,Never}MemoizeValue>
    if "InputStorage" in storage:
        return "InputStorage"
    if "AlwaysMemoizeValue" in storage or "MemoizedStorage" in storage:
        return "MemoizedStorage"
    if "NeverMemoizeValue" in storage or "DependencyStorage" in storage:
        return "DependencyStorage"
    if "InternedStorage" in storage:
        return "InternedStorage"
    return "?"


def r6a(fb, rep, R="R6a"):
    rep.rule(R, "module evaluation is a memoised query keyed by the module name; who-may-evaluate")
    qs = _queries(fb)
    tab = table("query_kinds.json")
    want = {e["query"]: e for e in tab["queries"]}
    rep.floor(R, "queries of the Compilation group", len(qs), 11)
    for q, e in sorted(want.items()):
        got = qs.get(q)
        if got is None or "storage" not in got:
            rep.violation(R, "query-missing|%s" % q, "%s is no longer a query of the Compilation group" % q, "")
            continue
        k = _kind(got["storage"])
        if k == e["storage"]:
            rep.ok(R, "%s: %s (%s)" % (q.rsplit("::", 1)[1], k, e["why"]))
        else:
            rep.violation(R, "query-kind|%s" % q, "%s is stored as %s but must be %s: %s" % (q, k, e["storage"], e["why"]), "")
    for q in sorted(set(qs) - set(want)):
        rep.violation(R, "query-unreviewed|%s" % q, "new query %s (%s) is not in tables/query_kinds.json" % (q, _kind(qs[q].get("storage", ""))), "")
    gi = qs.get("gluon::query::GlobalInnerQuery", {})
    if gi.get("key") == "alloc::string::String":
        rep.ok(R, "GlobalInnerQuery::Key = String (the module name alone)")
    else:
        rep.violation(R, "global-inner-key", "module evaluation is keyed by %s, not by the module name alone" % gi.get("key"), "")
    # who may evaluate a module body
    allowed = {e["fn"]: e["reason"] for e in table("module_eval_sites.json")["sites"]}
    n = 0
    for c in fb.calls_of("gluon_vm::thread::ThreadInternal::call_thunk_top"):
        n += 1
        root = c.body.get("root") or c.body.id.split("::{closure")[0]
        if root in allowed:
            rep.ok(R, "%s evaluates a compiled closure (%s)" % (root, allowed[root]))
        else:
            rep.violation(R, "module-eval-site|%s" % root, "%s evaluates a compiled module body outside the memoised query" % root, c.where())
    rep.floor(R, "call_thunk_top sites", n, 3)
    # inside global_inner the closure evaluated is the compiled_module query's result for the same name
    g = fb.pre.get("gluon::query::global_inner::{closure#0}")
    if g is None:
        rep.anchor_lost(R, "gluon::query::global_inner")
    else:
        ev = [c for c in g.calls() if c.res.endswith("ThreadInternal::call_thunk_top")]
        cm = [c for c in g.calls() if c.fn and c.fn.endswith("Compilation::compiled_module")]
        if ev and cm and all(g.dominates(cm[0].bb, e.bb) for e in ev) and len(ev) == 1:
            rep.ok(R, "global_inner evaluates exactly the compiled_module(name) closure, once")
        else:
            rep.violation(R, "global-inner-shape", "global_inner no longer evaluates compiled_module(name) exactly once", g.where())


def r6b(fb, rep):
    R = "R6b"
    rep.rule(R, "add_module invalidates the text query exactly when it replaces a stored source by a different one")
    b = fb.body("<gluon::query::CompilerDatabase as gluon::query::CompilationBase>::add_module")
    if b is None:
        # by role: the function that both looks up State.inline_modules by entry and invalidates a query
        cands = [x for x in fb.bodies.values() if x.crate.name == "gluon" and x.kind == "fn"
                 and any(c.res.endswith("HashMap::<K, V, S, A>::entry") or c.res.endswith("HashMap::<K, V, S>::entry") for c in x.calls())
                 and any(c.res.endswith("::invalidate") for c in x.calls())]
        b = cands[0] if len(cands) == 1 else None
    if b is None:
        rep.anchor_lost(R, "CompilerDatabase::add_module")
        return
    OVERWRITE = ("String::push_str", "String::clear", "Arc::<T, A>::make_mut", "::to_mut", "OccupiedEntry::<'a, K, V, A>::insert", "OccupiedEntry::<'a, K, V>::insert",
                 "mem::replace", "HashMap::<K, V, S, A>::insert", "HashMap::<K, V, S>::insert", "String::replace_range", "String::truncate")
    entry = [c for c in b.calls() if c.res.rsplit("::", 1)[1] == "entry" and "HashMap" in c.res]
    # the Occupied side of the match on the entry
    occ_region = None
    vac_region = set()
    for bb, place, m, other in enum_switches_any(b):
        if entry and not place[1] and place[0] == entry[0].dest[0] and len(m) + (1 if other is not None else 0) >= 2:
            names = {0: "Occupied", 1: "Vacant"}
            occ = m.get(0, other)
            vac = m.get(1, other)
            occ_region = b.reachable(occ, avoid_blocks=[bb]) - b.reachable(vac, avoid_blocks=[bb])
            vac_region = b.reachable(vac, avoid_blocks=[bb]) - b.reachable(occ, avoid_blocks=[bb])
    if occ_region is None:
        rep.anchor_lost(R, "match on inline_modules.entry(module) in add_module")
        return
    muts = [c for c in b.calls() if c.bb in occ_region and any(c.res.endswith(x) for x in OVERWRITE)]
    inv = [c for c in b.calls() if c.res.endswith("::invalidate") and "QueryTableMut" in c.res]
    if not muts:
        rep.violation(R, "occupied-entry-not-updated", "add_module never replaces the text of a module that is already stored (a reload would be ignored)", b.where())
        return
    if not inv:
        rep.violation(R, "no-invalidate", "add_module overwrites a stored module source and never invalidates module_text", b.where())
        return
    rets = set(b.return_blocks())
    bad = False
    for m_ in muts:
        if b.reachable(m_.bb, avoid_blocks=[c.bb for c in inv]) & rets and m_.bb not in {c.bb for c in inv}:
            bad = True
    which = {b.tstr(g) for c in inv for g in c.desc.get("ga", [])}
    if bad:
        rep.violation(R, "overwrite-without-invalidate", "a path of add_module overwrites the stored text and returns without invalidate", muts[0].where())
    elif not any("ModuleTextQuery" in w for w in which):
        rep.violation(R, "invalidate-wrong-query", "add_module invalidates %s, not ModuleTextQuery" % sorted(which), inv[0].where())
    else:
        rep.ok(R, "add_module: every path from the overwrite of the stored text passes ModuleTextQuery.invalidate(&module)")
    # ... and only then: the invalidation (a new salsa revision: every untracked-read query, i.e. every module body, is re-run) lies
    # behind the `stored text != new text` edge of a comparison of the two
    guarded = {}
    for bb, srcs, true_t, false_t in flow.bool_switches(b):
        is_ne = flow.has_call(srcs, lambda n: n.endswith("::ne"))
        is_eq = flow.has_call(srcs, lambda n: n.endswith("::eq"))
        if not (is_ne or is_eq) or ("arg", 3) not in srcs:
            continue
        if not flow.has_call(srcs, lambda n: n.endswith("::into_mut") or n.endswith("::get") or n.endswith("::get_mut") or n.endswith("Deref::deref") or n.endswith("::deref")):
            continue
        differ = true_t if is_ne else false_t
        if ("op", "Not") in srcs:
            differ = false_t if is_ne else true_t
        guarded[bb] = differ
    inv_occ = [c for c in inv if c.bb not in vac_region]
    ok_all = bool(guarded) and bool(inv_occ) and all(any(flow.only_via_edge(b, c.bb, (bb, t)) for bb, t in guarded.items()) for c in inv_occ)
    if ok_all:
        rep.ok(R, "add_module: invalidate is reached only over the `stored text != new text` edge (an identical re-load is a no-op)")
    else:
        rep.violation(R, "invalidate-without-change-test", "add_module invalidates module_text without first finding the new text different from the stored one: "
                      "re-submitting identical source starts a new revision and every module body is evaluated again", inv[0].where())
    # (after finding 34) a module that is added for the first time may already have been looked for: the memoised "not found" of
    # module_text / import / global must be invalidated too, or `load_script` of a module that an earlier program failed to
    # import keeps failing.  Every path from the insertion into the vacant entry to a return passes invalidate.
    vins = [c for c in b.calls() if c.bb in vac_region and (c.res.endswith("VacantEntry::<'a, K, V, A>::insert") or c.res.endswith("VacantEntry::<'a, K, V>::insert") or "VacantEntry" in c.res and c.res.rsplit("::", 1)[1] in ("insert", "insert_entry"))]
    if not vins:
        rep.violation(R, "vacant-entry-not-filled", "add_module does not store the source of a module it sees for the first time", b.where())
    else:
        badv = [c for c in vins if c.target is not None and (b.reachable(c.target, avoid_blocks=[x.bb for x in inv]) & rets)]
        if badv:
            rep.violation(R, "first-add-without-invalidate", "add_module stores the source of a new module and returns without invalidating module_text: a module that was imported (and not "
                          "found) before it was added stays `not found`", badv[0].where())
        else:
            rep.ok(R, "add_module: the first addition of a module also invalidates module_text")
    # who writes State.inline_modules
    ST = "gluon::query::State"
    writers = set()
    for x in fb.bodies.values():
        for bb, j, rv, line, kind in flow.field_writes(x, ST, "inline_modules"):
            writers.add(x.id)
    ok_w = {b.id}
    for w in sorted(writers):
        if w in ok_w:
            rep.ok(R, "%s writes State.inline_modules" % w)
        else:
            rep.violation(R, "inline-modules-writer|%s" % w, "%s mutates State.inline_modules outside add_module (no invalidation)" % w, "")
    rep.floor(R, "writers of State.inline_modules", len(writers), 1)


UNTRACKED = ("gluon::query::CompilerDatabase::state", "QueryTable::<'me, Q>::peek", "::peek", "std::fs::", "Import::<I>::get_module_source",
             "gluon::query::env")


def r6c(fb, rep):
    R = "R6c"
    rep.rule(R, "query functions report their untracked reads before the first such read")
    qs = _queries(fb)
    reviewed = {e["query_fn"]: e for e in table("untracked_reads_reviewed.json")["reviewed"]}
    cg = CallGraph(fb)
    for bid, b in fb.pre.items():
        s = set()
        for c in b.calls():
            s |= c.names()
        cg.out.setdefault(bid, set()).update(s)
    n = 0
    for q, d in sorted(qs.items()):
        ex = d.get("execute")
        if not ex:
            continue
        eb = fb.body(ex)
        if eb is None:
            continue
        # the user function is the gluon::query::<name> function called by execute (directly or boxed)
        user = [c.res for c in eb.calls() if c.res.startswith("gluon::query::") and not c.res.startswith("gluon::query::Compilation")]
        for u in user:
            bodies = [x for x in (fb.body(u), fb.pre.get(u + "::{closure#0}")) if x is not None]
            if fb.body(u) is not None and fb.pre.get(u + "::{closure#0}") is not None:
                bodies = [fb.pre[u + "::{closure#0}"]]
            for ub in bodies:
                n += 1
                reach = cg.reach([ub.id], barrier=lambda nn: nn.startswith("gluon::query::Compilation::") or nn.startswith("gluon_salsa::"))
                reads = sorted({nn for nn in reach if any(nn.endswith(x) or x in nn for x in UNTRACKED) and nn != ub.id})
                reports = [c for c in ub.calls() if c.res.endswith("Runtime::report_untracked_read") or c.res.endswith("Runtime::report_synthetic_read")]
                if not reads:
                    rep.ok(R, "%s reads no untracked state" % u)
                    continue
                if reports:
                    first = reports[0]
                    # every call that can reach an untracked read is dominated by the report
                    offenders = []
                    for c in ub.calls():
                        if c is first or c.bb == first.bb:
                            continue
                        sub = cg.reach(list(c.names()), barrier=lambda nn: nn.startswith("gluon::query::Compilation::") or nn.startswith("gluon_salsa::"))
                        if any(any(nn.endswith(x) or x in nn for x in UNTRACKED) for nn in sub) and not ub.dominates(first.bb, c.bb):
                            offenders.append(c)
                    if offenders:
                        rep.violation(R, "read-before-report|%s" % u, "%s performs an untracked read (%s) that is not dominated by its report_*_read" % (u, offenders[0].res), offenders[0].where())
                    else:
                        rep.ok(R, "%s: %s dominates its untracked reads (%d kinds)" % (u, first.res.rsplit("::", 1)[1], len(reads)))
                else:
                    r = reviewed.get(u)
                    if r is None:
                        rep.violation(R, "unreported-untracked-read|%s" % u,
                                      "%s reads untracked database state (%s) and never reports an untracked read: its memo can go stale" % (u, ", ".join(x.rsplit("::", 2)[-2] + "::" + x.rsplit("::", 1)[-1] for x in reads[:4])), ub.where())
                    else:
                        rep.exception(R, u, r["reason"])
    rep.floor(R, "query functions examined", n, 8)


def r6d(fb, rep):
    R = "R6d"
    rep.rule(R, "cycle recovery present on the import cycle and reports CyclicDependency")
    qs = _queries(fb)
    need = [e["query"] for e in table("query_kinds.json")["queries"] if e.get("on_import_cycle")]
    for q in need:
        d = qs.get(q, {})
        if d.get("has_recover"):
            rb = fb.body(d["recover"])
            calls = {c.res for c in rb.calls()} if rb is not None else set()
            if any(x.startswith("gluon::query::recover_cycle") for x in calls):
                rep.ok(R, "%s overrides recover() with a recover_cycle* function" % q.rsplit("::", 1)[1])
            else:
                rep.violation(R, "recover-shape|%s" % q, "%s::recover does not call a recover_cycle function" % q, "")
        else:
            rep.violation(R, "no-cycle-recovery|%s" % q, "%s lies on the import cycle but has no cycle recovery: a cyclic import panics/hangs instead of reporting an error" % q, "")
    n = 0
    for bid, b in fb.bodies.items():
        if bid.startswith("gluon::query::recover_cycle") and "{closure" not in bid:
            calls = {c.res for c in b.calls()}
            delegates = any(x.startswith("gluon::query::recover_cycle") for x in calls)
            builds = bool(flow.blocks_constructing(b, "gluon::import::Error", "CyclicDependency"))
            n += 1
            if builds or delegates:
                rep.ok(R, "%s produces Error::CyclicDependency" % bid)
            else:
                rep.violation(R, "recover-no-error|%s" % bid, "%s no longer produces import::Error::CyclicDependency" % bid, b.where())
    rep.floor(R, "recover_cycle functions", n, 3)


def r6e(fb, rep):
    """a peeked query result is never used in place of running the query: `peek` returns whatever an *earlier revision* stored"""
    R = "R6e"
    rep.rule(R, "the importer's salvaged type comes from a module_type query that was run in this revision (never peek-then-skip)")
    n = 0
    for bid, b in fb.pre.items():
        if b.crate.name != "gluon" or "as gluon::import::Importer>::import" not in bid:
            continue
        q = [c for c in b.calls() if c.res.endswith("AsyncCompilation>::module_type") or c.res.endswith("::module_type") and "peek" not in c.res]
        peeks_here = [c for c in b.calls() if c.res.endswith("::peek_module_type")]
        peek_closures = [cl for cl in fb.closures_of(bid) if any(c.res.endswith("::peek_module_type") for c in cl.calls())]
        users = []
        for i, j, pl, rv, ln in b.assigns():
            if rv[0] == "agg" and rv[1][0] == "closure" and any(rv[1][1] == cl.id for cl in peek_closures):
                users.append(i)
        if not (peeks_here or users):
            continue
        n += 1
        qb = [c.bb for c in q]
        bad = False
        why = ""
        if not q:
            bad, why = True, "the module_type query is never run"
        else:
            for c in peeks_here:
                if not any(b.dominates(x, c.bb) for x in qb):
                    bad, why = True, "peek_module_type is consulted before (or instead of) running the query"
            for u in users:
                if u in b.reachable(0, avoid_blocks=qb):
                    bad, why = True, "the salvage closure can be reached without running the module_type query"
        if bad:
            rep.violation(R, "stale-peek|%s" % bid.split("::{closure")[0], "%s: %s: after a dependency is reloaded with an error of its own the importer is checked against the "
                          "type the dependency had in an earlier revision" % (bid.split("::{closure")[0], why), b.where())
        else:
            rep.ok(R, "%s: module_type(modulename) is awaited on every path before its result is peeked" % bid.split("::{closure")[0])
    rep.floor(R, "importers that peek module_type", n, 1)


def run(fb, rep, tier, cfg):
    rep.explanation = (
        "Static analysis of the salsa query group as rustc resolved it. R6a reads each query's Storage associated type "
        "(Memoized / Dependency / Input) and Key type and compares with a reasoned table, and restricts evaluation of compiled "
        "module closures (call_thunk_top) to the memoised global_inner query and the script executables; R6b: must-pass-through "
        "of ModuleTextQuery.invalidate after the stored source is overwritten, who-may-write State.inline_modules; R6c: each query "
        "function that can reach untracked state (State mutex, peek, file system) reports an untracked/synthetic read that "
        "dominates those reads, others are on a reviewed list; R6d: recover() is overridden on every query of the import cycle "
        "and builds import::Error::CyclicDependency. Equality with a fresh VM over all edit histories is not decided.")
    rep.assumptions += ["gluon-salsa's semantics of MemoizedStorage / invalidate / report_untracked_read are trusted (source read, not analysed)",
                        "virtual calls through `dyn Compilation` are query boundaries"]
    r6a(fb, rep)
    r6b(fb, rep)
    r6e(fb, rep)
    r6c(fb, rep)
    r6d(fb, rep)
