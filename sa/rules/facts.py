"""Fact base loader and CFG/dataflow primitives shared by all rule engines."""
import json
import os
import pickle
from collections import defaultdict, deque


class Crate:
    def __init__(self, d, path):
        self.name = d["crate"]
        self.tag = d["tag"]
        self.path = path
        self.types = d["types"]
        self.pre_types = d.get("pre_types") or []
        self.markers = d["markers"]
        self.adts = d["adts"]
        # attributes as written in the AST (helper attributes such as serde(..) do not survive lowering to HIR)
        ast = {a["path"]: a for a in (d.get("ast_attrs") or [])}
        for a in self.adts:
            x = ast.get(a["path"])
            a["ast_attrs_joined"] = x is not None
            if x is None:
                continue
            a["attrs"] = list(a.get("attrs", [])) + [s for s in x["attrs"] if s not in a.get("attrs", [])]
            vs = {v["name"]: v for v in x["variants"]}
            for v in a["variants"]:
                xv = vs.get(v["name"])
                if xv is None and len(x["variants"]) == 1 and len(a["variants"]) == 1:
                    xv = x["variants"][0]
                if xv is None:
                    continue
                v["attrs"] = list(v.get("attrs", [])) + xv["attrs"]
                fs = {f["name"]: f for f in xv["fields"]}
                for f in v["fields"]:
                    xf = fs.get(f["name"])
                    if xf is not None:
                        f["attrs"] = list(f.get("attrs", [])) + xf["attrs"]
        self.impls = d["impls"]
        self.bodies = [Body(b, self, self.types) for b in d["bodies"]]
        self.pre_bodies = [Body(b, self, self.pre_types) for b in d.get("pre_bodies", [])]
        self.mono = [Body(b, self, self.types) for b in d.get("mono", [])]


class Call:
    __slots__ = ("body", "bb", "desc", "args", "dest", "target", "unwind", "line", "exp")

    def __init__(self, body, bb, t):
        self.body = body
        self.bb = bb
        self.desc = t[1]
        self.args = t[2]
        if t[0] == "call":
            self.dest = t[3]
            self.target = t[4]
            self.unwind = t[5]
            self.line = t[6]
            self.exp = t[7]
        else:  # tailcall
            self.dest = None
            self.target = None
            self.unwind = None
            self.line = body.line
            self.exp = False

    @property
    def fn(self):
        return self.desc.get("fn")

    @property
    def res(self):
        """resolved callee path (falls back to the declared path)"""
        return self.desc.get("res") or self.desc.get("fn") or "<fnptr>"

    @property
    def rk(self):
        return self.desc.get("rk")

    def names(self):
        s = set()
        if self.desc.get("fn"):
            s.add(self.desc["fn"])
        if self.desc.get("res"):
            s.add(self.desc["res"])
        return s

    def is_ptr(self):
        return "ptr" in self.desc

    def where(self):
        return "%s:%s" % (self.body.file, self.line)

    def __repr__(self):
        return "<call %s @ %s bb%d>" % (self.res, self.body.id, self.bb)


class Body:
    def __init__(self, d, crate, types):
        self.d = d
        self.crate = crate
        self.types = types
        self.id = d["id"]
        self.kind = d.get("kind")
        self.file = d.get("file", "?")
        self.line = d.get("line", 0)
        self.blocks = d.get("blocks", [])
        self.opaque = d.get("opaque", False)
        self._succ = None
        self._pred = None
        self._dom = None
        self._calls = None

    def get(self, k, default=None):
        return self.d.get(k, default)

    # ---------------------------------------------------------------- types
    def ty(self, idx):
        return self.types[idx]

    def tstr(self, idx):
        return self.types[idx]["s"]

    def local_ty(self, local):
        return self.types[self.d["locals"][local]]

    def local_tstr(self, local):
        return self.local_ty(local)["s"]

    def ty_has(self, idx_or_row, marker, own=True):
        row = self.types[idx_or_row] if isinstance(idx_or_row, int) else idx_or_row
        ms = self.crate.markers
        if marker not in ms:
            return False
        i = ms.index(marker)
        return i in row.get("mo" if own else "ma", [])

    def ty_children(self, row):
        return [self.types[c] for c in row.get("c", [])]

    def strip_refs(self, row):
        while row.get("k") in ("ref", "refmut", "ptr"):
            row = self.types[row["c"][0]]
        return row

    # ---------------------------------------------------------------- CFG
    def term(self, bb):
        return self.blocks[bb]["t"]

    def stmts(self, bb):
        return self.blocks[bb]["s"]

    def is_cleanup(self, bb):
        return self.blocks[bb].get("cl", False)

    def succ(self, bb):
        """normal-flow successors (no unwind edges)"""
        if self._succ is None:
            self._succ = [self._compute_succ(i) for i in range(len(self.blocks))]
        return self._succ[bb]

    def _compute_succ(self, bb):
        t = self.blocks[bb]["t"]
        k = t[0]
        if k == "goto":
            return [t[1]]
        if k == "switch":
            out = []
            for _, b in t[2]:
                if b not in out:
                    out.append(b)
            if t[3] not in out:
                out.append(t[3])
            return out
        if k == "drop":
            return [t[2]]
        if k == "call":
            return [t[4]] if t[4] is not None else []
        if k == "assert":
            return [t[4]]
        if k == "yield":
            return [t[2]]
        return []

    def unwind_succ(self, bb):
        t = self.blocks[bb]["t"]
        k = t[0]
        u = None
        if k == "drop":
            u = t[3]
        elif k == "call":
            u = t[5]
        elif k == "assert":
            u = t[5]
        return [u] if isinstance(u, int) else []

    def preds(self, bb):
        if self._pred is None:
            p = [[] for _ in self.blocks]
            for i in range(len(self.blocks)):
                for s in self.succ(i):
                    p[s].append(i)
            self._pred = p
        return self._pred[bb]

    def reachable(self, start=0, avoid_blocks=(), avoid_edges=(), with_unwind=False):
        """blocks reachable from `start` (a block or iterable of blocks) not entering avoid_blocks and not
        using avoid_edges"""
        avoid_blocks = set(avoid_blocks)
        avoid_edges = set(avoid_edges)
        starts = [start] if isinstance(start, int) else list(start)
        seen = set()
        q = deque()
        for s in starts:
            if s not in avoid_blocks:
                seen.add(s)
                q.append(s)
        while q:
            b = q.popleft()
            nxt = list(self.succ(b))
            if with_unwind:
                nxt += self.unwind_succ(b)
            for s in nxt:
                if s in seen or s in avoid_blocks or (b, s) in avoid_edges:
                    continue
                seen.add(s)
                q.append(s)
        return seen

    # ---------------------------------------------------------------- path-sensitive reachability (bool threading)
    def _bool_locals(self):
        """locals of type bool that are only ever assigned constants, `Not` of such a local, or copies of one:
        the desugaring of `&&`, `||`, `matches!` and match guards merges their value through such locals"""
        if getattr(self, "_bl", None) is not None:
            return self._bl
        cand = {i for i, t in enumerate(self.d["locals"]) if self.types[t]["s"] == "bool"}
        changed = True
        while changed:
            changed = False
            for i, j, place, rv, line in self.assigns():
                l = place[0]
                if l not in cand:
                    continue
                ok = False
                if not place[1]:
                    if rv[0] == "use":
                        o = rv[1]
                        if o[0] == "k" and "int" in o[1]:
                            ok = True
                        elif o[0] in ("c", "m") and not o[1][1] and o[1][0] in cand:
                            ok = True
                    elif rv[0] == "un" and rv[1] == "Not":
                        o = rv[2]
                        if o[0] in ("c", "m") and not o[1][1] and o[1][0] in cand:
                            ok = True
                if not ok:
                    cand.discard(l)
                    changed = True
            for i, blk in enumerate(self.blocks):
                t = blk["t"]
                if t[0] == "call" and t[3][0] in cand:
                    cand.discard(t[3][0])
                    changed = True
        self._bl = cand
        return cand

    def reachable_threaded(self, start=0, avoid_blocks=(), avoid_edges=()):
        """like reachable(), but tracks the constant value of merge-only bool locals along each path and follows
        only the matching edge of a switch on such a local. Returns the set of reachable blocks."""
        # every bool local is tracked while its value is a known constant on the current path; an assignment from anything
        # else (a call result, a comparison) forgets it.  (`a && b() && c()` merges `false` through the same local that
        # receives c()'s result, so restricting the tracking to constant-only locals would lose the early-exit edges.)
        bl = {i for i, t in enumerate(self.d["locals"]) if self.types[t]["s"] == "bool"}
        avoid_blocks = set(avoid_blocks)
        avoid_edges = set(avoid_edges)
        starts = [start] if isinstance(start, int) else list(start)
        seen = set()
        q = deque()
        for s in starts:
            if s not in avoid_blocks:
                st = (s, frozenset())
                seen.add(st)
                q.append(st)
        out = set()
        while q:
            b, env = q.popleft()
            out.add(b)
            e = dict(env)
            for stt in self.blocks[b]["s"]:
                if stt[0] == "=" and not stt[1][1] and stt[1][0] in bl:
                    rv = stt[2]
                    l = stt[1][0]
                    if rv[0] == "use" and rv[1][0] == "k":
                        e[l] = 1 if rv[1][1].get("int") else 0
                    elif rv[0] == "use" and rv[1][0] in ("c", "m") and not rv[1][1][1]:
                        src = rv[1][1][0]
                        if src in e:
                            e[l] = e[src]
                        else:
                            e.pop(l, None)
                    elif rv[0] == "un" and rv[1] == "Not" and rv[2][0] in ("c", "m"):
                        src = rv[2][1][0]
                        if src in e:
                            e[l] = 1 - e[src]
                        else:
                            e.pop(l, None)
                    else:
                        e.pop(l, None)
                elif stt[0] == "sd" and stt[1] in e:
                    pass
            t = self.blocks[b]["t"]
            nxt = list(self.succ(b))
            if t[0] == "call" and t[3] is not None and not t[3][1] and t[3][0] in e:
                e.pop(t[3][0], None)
            if t[0] == "switch" and t[1][0] in ("c", "m") and not t[1][1][1] and t[1][1][0] in e:
                v = e[t[1][1][0]]
                tgt = None
                for val, bb in t[2]:
                    if val == v:
                        tgt = bb
                nxt = [tgt if tgt is not None else t[3]]
            if len(e) > 12:
                e = dict(list(e.items())[-12:])
            fe = frozenset(e.items())
            for s in nxt:
                if s in avoid_blocks or (b, s) in avoid_edges:
                    continue
                st = (s, fe)
                if st not in seen:
                    seen.add(st)
                    q.append(st)
        return out

    def return_blocks(self):
        return [i for i, b in enumerate(self.blocks) if b["t"][0] in ("ret", "tailcall")]

    def dominators(self):
        """dict bb -> set of dominators (normal flow, from bb0)"""
        if self._dom is not None:
            return self._dom
        reach = self.reachable(0)
        order = sorted(reach)
        dom = {b: set(order) for b in order}
        dom[0] = {0}
        changed = True
        while changed:
            changed = False
            for b in order:
                if b == 0:
                    continue
                ps = [p for p in self.preds(b) if p in reach]
                if not ps:
                    continue
                new = set.intersection(*[dom[p] for p in ps]) | {b}
                if new != dom[b]:
                    dom[b] = new
                    changed = True
        self._dom = dom
        return dom

    def dominates(self, a, b):
        d = self.dominators()
        return b in d and a in d[b]

    def sccs(self):
        """Tarjan SCCs over normal flow; returns list of sets (only non-trivial: size>1 or self-loop)"""
        index = {}
        low = {}
        st = []
        on = set()
        out = []
        counter = [0]
        import sys
        sys.setrecursionlimit(100000)

        def strong(v):
            index[v] = low[v] = counter[0]
            counter[0] += 1
            st.append(v)
            on.add(v)
            for w in self.succ(v):
                if w not in index:
                    strong(w)
                    low[v] = min(low[v], low[w])
                elif w in on:
                    low[v] = min(low[v], index[w])
            if low[v] == index[v]:
                comp = set()
                while True:
                    w = st.pop()
                    on.discard(w)
                    comp.add(w)
                    if w == v:
                        break
                if len(comp) > 1 or v in self.succ(v):
                    out.append(comp)

        for v in self.reachable(0):
            if v not in index:
                strong(v)
        return out

    # ---------------------------------------------------------------- events
    def calls(self):
        if self._calls is None:
            cs = []
            for i, b in enumerate(self.blocks):
                t = b["t"]
                if t[0] in ("call", "tailcall"):
                    cs.append(Call(self, i, t))
            self._calls = cs
        return self._calls

    def calls_to(self, pred):
        """calls whose declared or resolved callee satisfies pred(name)"""
        return [c for c in self.calls() if any(pred(n) for n in c.names())]

    def assigns(self):
        """yield (bb, idx, place, rvalue, line) for every assignment statement"""
        for i, b in enumerate(self.blocks):
            for j, st in enumerate(b["s"]):
                if st[0] == "=":
                    yield i, j, st[1], st[2], st[3]

    def defs_of(self, local):
        """definitions of a whole local: ('assign', bb, idx, rvalue) | ('call', bb, Call) | ('arg',)"""
        out = []
        if 1 <= local <= self.d.get("argc", 0):
            out.append(("arg", local))
        for i, b in enumerate(self.blocks):
            for j, st in enumerate(b["s"]):
                if st[0] == "=" and st[1][0] == local and not st[1][1]:
                    out.append(("assign", i, j, st[2]))
            t = b["t"]
            if t[0] == "call" and t[3][0] == local and not t[3][1]:
                out.append(("call", i, Call(self, i, t)))
        return out

    def where(self):
        return "%s:%s" % (self.file, self.line)


def op_place(op):
    """place of a copy/move operand, else None"""
    if op and op[0] in ("c", "m"):
        return op[1]
    return None


def op_local(op):
    p = op_place(op)
    return p[0] if p is not None else None


def op_const(op):
    if op and op[0] == "k":
        return op[1]
    return None


def place_fields(place):
    """list of (adt, variant, field) projections in a place"""
    return [(p[1], p[2], p[3]) for p in place[1] if isinstance(p, list) and p[0] == "f" and len(p) == 4]


def rvalue_operands(rv):
    k = rv[0]
    if k in ("use", "repeat"):
        return [rv[1]]
    if k == "cast":
        return [rv[2]]
    if k == "bin":
        return [rv[2], rv[3]]
    if k == "un":
        return [rv[2]]
    if k == "agg":
        return list(rv[2])
    return []


def rvalue_places(rv):
    """places read by an rvalue"""
    out = []
    for o in rvalue_operands(rv):
        p = op_place(o)
        if p is not None:
            out.append(p)
    if rv[0] in ("ref",):
        out.append(rv[2])
    if rv[0] in ("rawptr", "disc"):
        out.append(rv[1])
    return out


class FactBase:
    def __init__(self, crates):
        self.crates = crates
        self.bodies = {}
        self.dupes = defaultdict(list)
        for c in crates:
            for b in c.bodies:
                if b.id in self.bodies:
                    self.dupes[b.id].append(b)
                    continue
                self.bodies[b.id] = b
        self.pre = {}
        for c in crates:
            for b in c.pre_bodies:
                self.pre.setdefault(b.id, b)
        self.adts = {}
        for c in crates:
            for a in c.adts:
                a["_crate"] = c
                self.adts.setdefault(a["path"], a)
        self.impls = []
        seen = set()
        for c in crates:
            for im in c.impls:
                key = (c.name, im["path"], im.get("trait"), c.types[im["self"]]["s"])
                if key in seen:
                    continue
                seen.add(key)
                im["_crate"] = c
                self.impls.append(im)
        self._callers = None

    def body(self, id_):
        return self.bodies.get(id_)

    def find(self, pred):
        return [b for b in self.bodies.values() if pred(b)]

    def by_suffix(self, suffix):
        return [b for i, b in self.bodies.items() if i.endswith(suffix)]

    def callers(self):
        """map callee name (declared and resolved) -> list of Call"""
        if self._callers is None:
            m = defaultdict(list)
            for b in self.bodies.values():
                for c in b.calls():
                    for n in c.names():
                        m[n].append(c)
            self._callers = m
        return self._callers

    def calls_of(self, name):
        return self.callers().get(name, [])

    def impl_self_str(self, im):
        return im["_crate"].types[im["self"]]["s"]

    def impls_of(self, trait):
        return [im for im in self.impls if im.get("trait") == trait]

    def closures_of(self, body_id):
        """closure/coroutine bodies syntactically nested in body_id"""
        pre = body_id + "::{closure"
        return [b for i, b in self.bodies.items() if i.startswith(pre)]

    def promoted_of(self, body_id):
        pre = body_id + "::{promoted#"
        return [b for i, b in self.bodies.items() if i.startswith(pre)]

    def stats(self):
        nb = len(self.bodies)
        ncalls = sum(len(b.calls()) for b in self.bodies.values())
        return {"bodies": nb, "call_sites": ncalls, "crates": sorted({c.name for c in self.crates}),
                "adts": len(self.adts), "impls": len(self.impls)}


def load(dir_, crates=None, skip_generated=True):
    """Load fact files from dir_. `crates`: optional set of crate names to restrict to."""
    out = []
    files = sorted(f for f in os.listdir(dir_) if f.endswith(".json"))
    # biggest file of a crate first, so that duplicates (build-dependency copies) lose
    files.sort(key=lambda f: -os.path.getsize(os.path.join(dir_, f)))
    for f in files:
        name = f.rsplit("-", 1)[0]
        if crates is not None and name not in crates:
            continue
        p = os.path.join(dir_, f)
        pk = p[:-5] + ".pickle"
        d = None
        if os.path.exists(pk) and os.path.getmtime(pk) >= os.path.getmtime(p):
            try:
                with open(pk, "rb") as fh:
                    d = pickle.load(fh)
            except Exception:
                d = None
        if d is None:
            with open(p) as fh:
                d = json.load(fh)
            if skip_generated and name == "gluon_parser":
                # the LALRPOP-generated tables are 90% of the parser's MIR and no rule looks at them
                d["bodies"] = [b for b in d["bodies"] if "::grammar::" not in b["id"]]
            try:
                with open(pk + ".tmp", "wb") as fh:
                    pickle.dump(d, fh, protocol=pickle.HIGHEST_PROTOCOL)
                os.replace(pk + ".tmp", pk)
            except Exception:
                pass
        out.append(Crate(d, p))
    return FactBase(out)
