"""E3b — the VM stays usable after a failed evaluation: every host entry that starts the interpreter unwinds the
VM stack (reset_stack) on the error path before it returns the error.

Entries are found by role: functions outside the interpreter module (gluon_vm::thread) that call the raw evaluators
`ThreadInternal::call_function` / `ThreadInternal::resume` / `Execute::new`, plus the `*_top` wrappers inside it
(callers of `call_thunk` / `execute_io`).  For each entry: no error exit (a `?`-propagation or an `Err`/`Ready(Err)`
construction fed by the evaluator's result) may be reachable from the evaluator call without passing a reset site (a
call of reset_stack, or a call that is handed a closure which calls it)."""
from . import flow
from .common import table
from .facts import op_place

EVALUATORS = ("::call_function", "ThreadInternal::resume", "::call_thunk", "::execute_io", "Execute::<T>::new")


def _is_eval(name):
    if name.endswith("call_function_with_upvars"):
        return False
    return (name.endswith("ThreadInternal::call_function") or name.endswith("ThreadInternal>::call_function")
            or name.endswith("ThreadInternal::resume") or name.endswith("ThreadInternal>::resume")
            or name.endswith("ThreadInternal::call_thunk") or name.endswith("ThreadInternal>::call_thunk")
            or name.endswith("ThreadInternal::execute_io") or name.endswith("ThreadInternal>::execute_io")
            or name.endswith("thread::Execute::<T>::new"))


def _resets(fb, body_id, depth=0, seen=None):
    """does this body (or a closure nested in it, or a workspace helper it calls, depth<=2) call reset_stack?"""
    if seen is None:
        seen = set()
    if body_id in seen or depth > 2:
        return False
    seen.add(body_id)
    bs = [fb.body(body_id)] + [fb.pre.get(body_id)]
    for b in bs:
        if b is None:
            continue
        for c in b.calls():
            if c.res.endswith("thread::reset_stack"):
                return True
            if c.res.startswith("gluon") and _resets(fb, c.res, depth + 1, seen):
                return True
        for nb in fb.closures_of(body_id):
            if _resets(fb, nb.id, depth + 1, seen):
                return True
    return False


def run(fb, rep):
    R = "E3b"
    rep.rule(R, "host entries that start the interpreter reset the VM stack on every error exit")
    tab = table("stack_reset_exempt.json")
    exempt = {e["fn"]: e["reason"] for e in tab["exempt"]}
    entries = []
    pool = [b for b in fb.bodies.values() if b.kind != "coroutine_post"] + list(fb.pre.values())
    for b in pool:
        for c in b.calls():
            if any(_is_eval(n) for n in c.names()):
                entries.append((b, c))
    rep.floor(R, "evaluator call sites", len(entries), 8)
    n = 0
    for b, c in entries:
        # the interpreter's own trait-default forwarding (call_thunk_top's inner closure calls call_thunk etc.) is an entry
        # too; the evaluators' own implementations inside the interpreter module are not (they are what is being wrapped)
        if b.id.startswith("<gluon_vm::thread::Thread as gluon_vm::thread::ThreadInternal>::"):
            continue
        if b.id.startswith("<gluon_vm::thread::Execute<T> as core::future::future::Future>::poll"):
            continue  # the raw future; ExecuteTop / the callers of Execute::new are the entries
        n += 1
        key = b.id
        if key in exempt:
            rep.exception(R, key, exempt[key])
            continue
        # reset sites in this body
        sites = set()
        for d in b.calls():
            if d.res.endswith("thread::reset_stack"):
                sites.add(d.bb)
                continue
            if d.res.startswith("gluon") and d.res != b.id and not any(_is_eval(n2) for n2 in d.names()) and _resets(fb, d.res):
                sites.add(d.bb)
                continue
            for a in d.args:
                for s in flow.sources(b, a, depth=6):
                    if s[0] == "closure" and _resets(fb, s[1]):
                        sites.add(d.bb)
        # wrapper form: the evaluator's future is handed (with a resetting closure) to a combinator *after* the call
        start = c.target if c.target is not None else None
        if start is None:
            continue
        reach = b.reachable(start, avoid_blocks=sites)
        bad = []
        for d in b.calls():
            if d.bb in reach and d.fn and d.fn.endswith("FromResidual::from_residual"):
                bad.append(d)
        err_aggs = [i for i in flow.blocks_constructing(b, "core::result::Result", "Err") if i in reach]
        # an Err construction only counts when it forwards the evaluator's error (sources include the evaluator call)
        fed = []
        for i, j, place, rv, line in b.assigns():
            if i in err_aggs and rv[0] == "agg" and rv[1][0] == "adt" and rv[1][2] == "Err":
                srcs = flow.sources(b, rv[2][0])
                if any(s[0] == "call" and _is_eval(s[1]) for s in srcs):
                    fed.append((i, line))
        # the evaluator's result is handed straight back (closure / thin wrapper): the error leaves this body
        # unreset, so the enclosing function (and everything nested in it) must contain a reset
        returned = False
        if not sites:
            for rb in b.return_blocks():
                if rb in reach or rb == start:
                    srcs = flow.sources(b, 0, depth=40)
                    if any(s[0] == "call" and _is_eval(s[1]) for s in srcs):
                        returned = True
        if returned and not bad and not fed:
            root = b.get("root") or b.id.split("::{closure")[0]
            if not _resets(fb, root):
                rep.violation(R, "no-stack-reset|%s" % _norm(root),
                              "%s starts the interpreter (%s) and hands its error to %s, which never unwinds the VM stack" % (
                                  b.id, c.res.rsplit("::", 1)[1], root), c.where())
            else:
                rep.ok(R, "%s returns the evaluator's result to %s, which resets the stack" % (b.id, root))
            continue
        if bad or fed:
            where = bad[0].where() if bad else "%s:%s" % (b.file, fed[0][1])
            rep.violation(R, "no-stack-reset|%s" % _norm(key),
                          "%s starts the interpreter (%s) and can return its error without unwinding the VM stack (frames of the failed call stay; the next call on this thread resumes them)" % (
                              b.id, c.res.rsplit("::", 1)[1]), where)
        else:
            rep.ok(R, "%s: every error exit after %s passes reset_stack" % (b.id, c.res.rsplit("::", 1)[1]))
    rep.floor(R, "host entries examined", n, 6)
    # reset_stack itself: loops exit_scope until the requested level
    rs = fb.body("gluon_vm::thread::reset_stack")
    if rs is None:
        rep.anchor_lost(R, "thread::reset_stack")
    else:
        loops = rs.sccs()
        ex = [c for c in rs.calls() if c.res.endswith("::exit_scope")]
        if loops and ex and any(c.bb in comp for comp in loops for c in ex):
            rep.ok(R, "reset_stack: loops exit_scope while frames.len() > level")
        else:
            rep.violation(R, "reset-stack-shape", "reset_stack no longer pops frames in a loop", rs.where())
        # (after finding 33) a frame that is unwound takes its values with it: the same loop removes values from the value stack
        # (pop_many / clear / truncate).  exit_scope alone only pops `stack.frames`; the values of the failed run would stay on the
        # stack as GC roots and count against the stack limit of every later evaluation.
        vals = [c for c in rs.calls() if "stack::" in c.res and c.res.rsplit("::", 1)[-1] in ("pop_many", "clear", "truncate")]
        if loops and any(c.bb in comp for comp in loops for c in vals if any(e.bb in comp for e in ex)):
            rep.ok(R, "reset_stack: the unwinding loop also removes the values of each dropped frame")
        else:
            rep.violation(R, "reset-stack-keeps-values", "reset_stack pops the frames of a failed run but not their values: they stay on the value stack (rooted, and counted against the "
                          "stack limit) so the VM is not as good as fresh after a failure", rs.where())
    # the entries that push the callee and its arguments themselves also restore the value stack to its length before the call
    n_v = 0
    pool = list(fb.bodies.values()) + list(fb.pre.values())
    seen_ids = set()
    for b in pool:
        if b.id in seen_ids or b.kind == "coroutine_post":
            continue
        seen_ids.add(b.id)
        root = b.get("root") or b.id.split("::{closure")[0]
        in_scope = (root.startswith("gluon_vm::api::function::Function::<") and (root.endswith("::call_first") or root.endswith("::call_async"))) \
            or root.endswith("ThreadInternal::call_thunk_top") or root.endswith("ThreadInternal::execute_io_top")
        if not in_scope:
            continue
        resets = [c for c in b.calls() if c.res.endswith("thread::reset_stack") or c.res.endswith("thread::reset_stack_after_error")]
        if not resets:
            continue
        vcalls = [c.bb for c in b.calls() if c.res.endswith("thread::reset_stack_values")]
        rets = {i for i, blk in enumerate(b.blocks) if blk["t"][0] == "ret"}
        for c in resets:
            n_v += 1
            # error propagation of reset_stack's own failure (`?`) is not a normal completion of the unwinding
            if c.target is not None and rets & b.reachable(c.target, avoid_blocks=vcalls) and not _only_via_err_of(b, c, vcalls, rets):
                rep.violation(R, "entry-keeps-pushed-values|%s" % _norm(root), "%s unwinds the frames of a failed call but can return without restoring the value stack to its length before "
                              "the call (reset_stack_values): the function and arguments it pushed stay on the stack" % b.id, c.where())
            else:
                rep.ok(R, "%s: the value stack is restored after the frames are unwound" % b.id)
    rep.floor(R, "entry unwinding sites that restore the value stack", n_v, 10)
    # (after seed C06-4) *where* to unwind to is read before the call starts: the frame level / stack length handed to the reset
    # functions come from reads that dominate everything in the entry that can push frames or values for this call (the evaluator
    # calls, the closures that call them, the pushes of the callee and its arguments).  Read afterwards, the target is the stack
    # as the failed call left it and the reset removes nothing.
    n_o = 0
    seen_ids = set()
    for b in pool:
        if b.id in seen_ids or b.kind == "coroutine_post":
            continue
        seen_ids.add(b.id)
        root = b.get("root") or b.id.split("::{closure")[0]
        in_scope = (root.startswith("gluon_vm::api::function::Function::<") and (root.endswith("::call_first") or root.endswith("::call_async") or root.endswith("::call_any_first"))) \
            or root.endswith("ThreadInternal::call_thunk_top") or root.endswith("ThreadInternal::execute_io_top")
        if not in_scope:
            continue
        resets = [c for c in b.calls() if c.res.endswith("thread::reset_stack") or c.res.endswith("thread::reset_stack_after_error") or c.res.endswith("thread::reset_stack_values")]
        if not resets:
            continue
        # the read lives in this body or (for a closure) in the enclosing entry body, from which it is captured
        starts = []
        for c in b.calls():
            last = c.res.rsplit("::", 1)[-1]
            if _is_eval(c.res) or last in ("call_first", "call_any_first") or last == "vm_push" or (last == "push" and "thread::" in c.res):
                starts.append(c.bb)
        for i, j, pl, rv, ln in b.assigns():
            if rv[0] == "agg" and rv[1][0] in ("closure", "coroutine"):
                cb = fb.body(rv[1][1]) or fb.pre.get(rv[1][1])
                if cb is not None and any(x.res.rsplit("::", 1)[-1] in ("call_first", "call_any_first") or _is_eval(x.res) for x in cb.calls()):
                    starts.append(i)
        for c in resets:
            if len(c.args) < 2:
                continue
            src = flow.sources(b, c.args[1], depth=12)
            reads = [x for x in b.calls() if x.res.rsplit("::", 1)[-1] in ("frame_level", "len", "get_frames") and ("stack::" in x.res or "thread::" in x.res or "slice" in x.res)
                     and any(s_[0] == "call" and s_[1] == x.res for s_ in src)]
            if not reads:
                continue  # captured from the enclosing body (an upvar): judged there
            n_o += 1
            late = [x for x in reads if not all(b.dominates(x.bb, sbb) or x.bb == sbb for sbb in starts)]
            if late:
                rep.violation(R, "unwind-target-read-late|%s" % _norm(root), "%s reads the frame level / stack length it later unwinds to after the call may already have pushed frames or values: "
                              "after a failure the reset unwinds to the failed call's own position and removes nothing" % b.id, late[0].where())
            else:
                rep.ok(R, "%s: the unwind target is read before the call starts" % b.id)
    rep.floor(R, "unwind targets whose read site was examined", n_o, 20)


def _only_via_err_of(b, c, vcalls, rets):
    """True when every path from the reset call to a return that avoids reset_stack_values goes through the Err edge of a
    `?` applied to the reset call's own result (reset_stack itself failed: the stack could not be unwound)"""
    if c.dest is None:
        return False
    from .common import enum_switches_any
    der = flow.derived_locals(b, c.dest[0])
    # results of Try::branch on the reset result
    br = [x for x in b.calls() if x.res.endswith("Try>::branch") and x.args and op_place(x.args[0]) is not None and op_place(x.args[0])[0] in der]
    if not br:
        return False
    avoid_edges = []
    for x in br:
        for bb, place, targets, otherwise in enum_switches_any(b):
            if place[0] == x.dest[0]:
                # ControlFlow::Break = 1
                if 1 in targets:
                    avoid_edges.append((bb, targets[1]))
    return not (rets & b.reachable(c.target, avoid_blocks=vcalls, avoid_edges=avoid_edges))


def _norm(key):
    # the macro-generated impls differ only in arity: fn(), fn(A), fn(A, B) ... keep them distinct but stable
    return key
