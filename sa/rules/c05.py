"""C05 — GC never frees a reachable value: root / trace completeness (E1a, E1b, E1c) + cell stores (E4, shared).

Decided part: *whether the root exists* — every field that can hold a GC pointer is visited by its owner's
`Trace::trace`, the collector's root object covers the thread's stack, host handles, child threads and (for the
root generation) the global state, child heaps are marked before anything is swept and swept afterwards, and an
allocation that may collect keeps the value being allocated alive.  Not decided: collection *timing* never changes
a result; unreachable values are reclaimed."""
from . import flow
from .common import table
from .facts import op_place, op_local

CRATES = {"gluon_vm", "gluon", "gluon_base", "gluon_c_api", "gluon_completion", "gluon_doc", "gluon_format", "gluon_check"}
THOROUGH_CONFIGS = ["default", "nodefault"]  # thorough also analyses the default-feature and the no-default-features builds

TRACE = "gluon_vm::gc::Trace"
GC_TY = "&mut gluon_vm::gc::Gc"
GCM = ["gluon_vm::gc::GcPtr", "gluon_vm::value::Value", "gluon_vm::value::ValueRepr", "gluon_vm::gc::OwnedPtr",
       "gluon_vm::gc::Borrow"]


def _row_contains_param(types, row, params, depth=0):
    if depth > 6:
        return set()
    out = set()
    if row.get("k") == "param" and row["s"] in params:
        out.add(row["s"])
    if row.get("adt") == "core::marker::PhantomData":
        return out
    for c in row.get("c", []):
        out |= _row_contains_param(types, types[c], params, depth + 1)
    return out


def needs_of(fb, adt, impl):
    """{(variant, field): reason} of fields that can hold GC pointers"""
    crate = adt["_crate"]
    types = crate.types
    markers = crate.markers
    midx = [markers.index(m) for m in GCM if m in markers]
    traced_params = set()
    for p in impl.get("preds", []):
        if p.endswith(": " + TRACE):
            traced_params.add(p.split(":")[0].strip())
    out = {}
    for v in adt["variants"]:
        for f in v["fields"]:
            row = types[f["ty"]]
            hit = [markers[i] for i in row.get("ma", []) if i in midx]
            if hit:
                out[(v["name"], f["name"])] = "contains " + ", ".join(h.rsplit("::", 1)[1] for h in hit)
                continue
            ps = _row_contains_param(types, row, traced_params)
            if ps:
                out[(v["name"], f["name"])] = "type parameter %s: Trace" % ",".join(sorted(ps))
    return out


def _gc_arg_calls(body, kind="trace"):
    """calls that are handed the collector (an argument of type &mut Gc): these are the trace-like calls"""
    out = []
    # closures that captured the collector count as the collector itself (on_array!(self, |a| a.trace(gc)))
    gc_closures = set()
    for i, j, place, rv, line in body.assigns():
        if rv[0] == "agg" and rv[1][0] == "closure" and not place[1]:
            for o in rv[2]:
                p = op_place(o)
                if p is not None and not p[1] and body.local_tstr(p[0]) == GC_TY:
                    gc_closures.add(place[0])
    for c in body.calls():
        for a in c.args:
            p = op_place(a)
            if p is not None and not p[1] and (body.local_tstr(p[0]) == GC_TY or p[0] in gc_closures):
                out.append(c)
                break
    return out


def _fields_read(body, adt_path):
    out = set()
    for i, j, place, rv, line in body.assigns():
        from .facts import rvalue_places
        for pl in [place] + rvalue_places(rv):
            for p in pl[1]:
                if isinstance(p, list) and p[0] == "f" and len(p) == 4 and p[1] == adt_path:
                    out.add((p[2], p[3]))
    return out


def touched_fields(fb, body, adt_path, self_local=1, depth=0, seen=None):
    """set of (variant, field) of adt_path that flow into a call which is also given the collector; "*" = whole"""
    if seen is None:
        seen = set()
    if body is None or (body.id, self_local) in seen or depth > 4:
        return set()
    seen.add((body.id, self_local))
    out = set()
    for c in _gc_arg_calls(body):
        for ai, a in enumerate(c.args):
            p = op_place(a)
            if p is None:
                continue
            if not p[1] and body.local_tstr(p[0]) == GC_TY:
                continue
            if not p[1] and body.local_ty(p[0]).get("k") == "closure":
                continue
            srcs = flow.sources(body, a)
            fields = {(s[2], s[3]) for s in srcs if s[0] == "vfield" and s[1] == adt_path}
            out |= fields
            whole = ("arg", self_local) in srcs
            if whole:
                # accessors: self handed to a local non-tracing helper whose result is then traced
                # (ValueArray::unsafe_array, Value::get_repr): the fields that helper reads count as visited
                for s in srcs:
                    if s[0] == "call":
                        hb = fb.body(s[1])
                        if hb is not None and hb.crate.name.startswith("gluon") and hb.get("impl_trait") != TRACE \
                                and not _gc_arg_calls(hb):
                            out |= _fields_read(hb, adt_path)
            if whole:
                callee = fb.body(c.res) if (c.rk == "item" and not (c.desc.get("trait") and c.desc.get("res") in (None, c.fn))) else None
                direct_self = not any(s[0] == "vfield" and s[1] == adt_path for s in srcs)
                if callee is not None and callee.crate.name.startswith("gluon") and direct_self and \
                        callee.get("impl_trait") != TRACE:
                    # a local helper that receives self: its touches count as ours
                    out |= touched_fields(fb, callee, adt_path, ai + 1, depth + 1, seen)
                elif direct_self and flow.has_call(srcs, lambda n: n.endswith("Deref::deref") or n.endswith("::deref")):
                    out.add(("*", "*"))
                elif direct_self and callee is None:
                    out.add(("*", "*"))
    # closures built here that capture self fields and trace inside
    for i, j, place, rv, line in body.assigns():
        if rv[0] == "agg" and rv[1][0] == "closure":
            cb = fb.body(rv[1][1])
            if cb is not None and (_gc_arg_calls(cb) or any(_gc_arg_calls(x) for x in fb.closures_of(cb.id))):
                for o in rv[2]:
                    srcs = flow.sources(body, o)
                    out |= {(s[2], s[3]) for s in srcs if s[0] == "vfield" and s[1] == adt_path}
    return out


def e1a(fb, rep):
    R = "E1a"
    rep.rule(R, "trace completeness: every GC-pointer-carrying field of a Trace type flows into a trace call of its owner")
    exempt = {(e["adt"], e["field"]): e["reason"] for e in table("trace_exempt.json")["exempt"]}
    impls = fb.impls_of(TRACE)
    rep.floor(R, "impls of gc::Trace in the workspace", len(impls), 120)
    n_local = 0
    n_fields = 0
    for im in impls:
        c = im["_crate"]
        self_row = c.types[im["self"]]
        items = {it["name"]: it["path"] for it in im["items"]}
        trace_body = fb.body(items["trace"]) if "trace" in items else None
        if self_row.get("k") != "adt" or self_row["adt"] not in fb.adts:
            # generic containers / primitives: every Trace-bounded parameter must be traced
            params = [p.split(":")[0].strip() for p in im.get("preds", []) if p.endswith(": " + TRACE)]
            if not params:
                continue
            if trace_body is None:
                rep.violation(R, "container-default|%s" % self_row["s"], "Trace impl for %s has traced parameters but no trace body" % self_row["s"],
                              "%s:%s" % (im["file"], im["line"]))
                continue
            bodies = [trace_body] + fb.closures_of(trace_body.id) + fb.by_suffix(trace_body.id + "::mark")
            selfs = set()
            for b in bodies:
                for cl in b.calls():
                    if cl.fn == TRACE + "::trace" or cl.res.endswith("::trace::mark") or cl.res.endswith("Gc::mark"):
                        if "self" in cl.desc:
                            selfs.add(b.tstr(cl.desc["self"]))
                        for g in cl.desc.get("ga", []):
                            selfs.add(b.tstr(g))
            for p in params:
                import re
                if any(re.search(r"\b%s\b" % re.escape(p), s) for s in selfs):
                    rep.ok(R, "%s: parameter %s is traced" % (self_row["s"], p))
                else:
                    rep.violation(R, "container-param|%s|%s" % (self_row["s"], p), "Trace impl for %s never traces its parameter %s" % (self_row["s"], p),
                                  "%s:%s" % (im["file"], im["line"]))
            continue
        adt = fb.adts[self_row["adt"]]
        n_local += 1
        needs = needs_of(fb, adt, im)
        touched = touched_fields(fb, trace_body, adt["path"]) if trace_body is not None else set()
        # the nested `mark` helper is only a forwarder; closures handled in touched_fields
        whole = ("*", "*") in touched
        for (variant, field), why in sorted(needs.items()):
            n_fields += 1
            key = (adt["path"], field) if len(adt["variants"]) == 1 else (adt["path"], "%s.%s" % (variant, field))
            if whole or (variant, field) in touched:
                rep.ok(R, "%s.%s (%s) is traced" % (adt["path"], field, why))
            elif key in exempt or (adt["path"], field) in exempt:
                rep.exception(R, "%s.%s" % key, exempt.get(key) or exempt[(adt["path"], field)])
            else:
                rep.violation(R, "untraced-field|%s|%s" % (adt["path"], key[1]),
                              "%s: field `%s` (%s) is not visited by Trace::trace" % (adt["path"], key[1], why),
                              "%s:%s" % (im["file"], im["line"]))
    rep.floor(R, "Trace impls for workspace ADTs", n_local, 75)
    rep.floor(R, "GC-carrying fields examined", n_fields, 60)
    # every ADT that (transitively, owned) holds a GcPtr and is itself stored in the GC heap through a Userdata
    # must have a Trace impl at all: rustc enforces this (Userdata: Trace); nothing to do.


def e1b(fb, rep):
    R = "E1b"
    rep.rule(R, "collector root set: Roots covers what Thread::trace covers; children marked before sweep and swept after")
    roots_trace = fb.body("<gluon_vm::thread::Roots<'b> as gluon_vm::gc::Trace>::trace")
    thread_trace = fb.body("<gluon_vm::thread::Thread as gluon_vm::gc::Trace>::trace")
    if roots_trace is None or thread_trace is None:
        rep.anchor_lost(R, "<Roots as Trace>::trace / <Thread as Trace>::trace")
        return
    T = "gluon_vm::thread::Thread"
    # fields of Thread visited starting from Thread::trace and from Roots::trace (following local helpers)
    t_fields = _transitive_fields(fb, thread_trace, T)
    r_fields = _transitive_fields(fb, roots_trace, T)
    want = {f for f in t_fields if f != "context"}
    for need in ("rooted_values", "child_threads", "global_state"):
        if need not in t_fields:
            rep.violation(R, "thread-trace-misses|%s" % need, "<Thread as Trace>::trace does not visit Thread.%s" % need, thread_trace.where())
        else:
            rep.ok(R, "<Thread as Trace>::trace visits Thread.%s" % need)
    for f in sorted(want):
        if f in r_fields:
            rep.ok(R, "<Roots as Trace>::trace visits Thread.%s (sibling of Thread::trace)" % f)
        else:
            rep.violation(R, "roots-misses|%s" % f, "<Roots as Trace>::trace does not visit Thread.%s although Thread::trace does" % f, roots_trace.where())
    if "context" in t_fields:
        rep.ok(R, "<Thread as Trace>::trace visits the stack through Thread.context")
    else:
        rep.violation(R, "thread-trace-misses|context", "<Thread as Trace>::trace does not visit the thread's own stack", thread_trace.where())
    # Roots.stack is traced with <Stack as Trace>::trace and Roots.vm is marked
    RO = "gluon_vm::thread::Roots"
    ok_stack = ok_vm = False
    for c in roots_trace.calls():
        srcs = set()
        for a in c.args:
            srcs |= flow.sources(roots_trace, a)
        if c.res == "<gluon_vm::stack::Stack as gluon_vm::gc::Trace>::trace" and ("field", RO, "stack") in srcs:
            ok_stack = True
        if c.res.endswith("Gc::mark") and ("field", RO, "vm") in srcs:
            ok_vm = True
    for ok, what in ((ok_stack, "Roots.stack traced by <Stack as Trace>::trace"), (ok_vm, "Roots.vm marked")):
        if ok:
            rep.ok(R, what)
        else:
            rep.violation(R, "roots-trace|%s" % what.split()[0], "expected: " + what, roots_trace.where())
    # global state only for the root generation, and GlobalVmState::trace is complete (E1a) — check the guard shape
    helper = fb.body("gluon_vm::thread::Thread::trace_fields_except_stack")
    if helper is not None:
        gs = [c for c in helper.calls() if c.res.endswith("Generation::is_root")]
        if gs:
            rep.ok(R, "global state is traced when the collecting heap is the root generation")
    # mark_child_roots: each child is locked, traced with Roots, and kept locked (pushed) until the sweep
    mcr = fb.body("gluon_vm::thread::Roots::<'b>::mark_child_roots")
    scope = fb.body("<gluon_vm::thread::Roots<'b> as gluon_vm::gc::CollectScope>::scope")
    if mcr is None or scope is None:
        rep.anchor_lost(R, "Roots::mark_child_roots / <Roots as CollectScope>::scope")
        return
    loops = mcr.sccs()
    tr = [c for c in mcr.calls() if c.res == roots_trace.id]
    lk = [c for c in mcr.calls() if c.args and c.res.endswith("Mutex::<T>::lock") and ("field", T, "context") in flow.sources(mcr, c.args[0])]
    ch = [c for c in mcr.calls() if c.args and ("field", T, "child_threads") in flow.sources(mcr, c.args[0]) and "::read" in c.res]
    push = [c for c in mcr.calls() if c.res.endswith("Vec::<T, A>::push") or c.res.endswith("Vec::<T>::push")]
    in_loop = lambda c: any(c.bb in comp for comp in loops)
    if tr and lk and ch and push and all(in_loop(c) for c in tr) and any(in_loop(c) for c in lk):
        # the traced Roots is built from the locked child's stack and the guard is retained in the returned vector
        built = [(i, rv) for i, j, pl, rv, ln in mcr.assigns() if rv[0] == "agg" and rv[1][0] == "adt" and rv[1][1] == RO]
        good_build = any(("call", lk[0].res) in flow.sources(mcr, rv[2][1]) or ("field", "gluon_vm::thread::Context", "stack") in flow.sources(mcr, rv[2][1])
                         for i, rv in built)
        retained = any(any(("call", lk[0].res) in flow.sources(mcr, a) for a in c.args) for c in push if in_loop(c))
        # the walk is transitive: inside the loop the locked thread's own child_threads feed the work list
        # (a descendant that is marked through child_threads.trace but not locked is never swept: its mark
        # bits stay set and its next own collection frees what a cell has been given since)
        feeds = False
        for c in mcr.calls():
            if in_loop(c) and (c.res.endswith("::extend") or c.res.endswith("::push") or c.res.endswith("::append")) and len(c.args) > 1:
                dst = mcr.strip_refs(mcr.local_ty(c.args[0][1][0])) if c.args[0][0] in ("c", "m") else {}
                if "GcPtr<gluon_vm::thread::Thread>" in dst.get("s", "") and "Guard" not in dst.get("s", ""):
                    srcs = flow.sources(mcr, c.args[1])
                    reads_in_loop = [x for x in ch if in_loop(x)]
                    if ("field", T, "child_threads") in srcs and reads_in_loop:
                        feeds = True
        if not feeds:
            rep.violation(R, "child-walk-not-transitive", "mark_child_roots does not add the children of each locked thread to its work list: deeper descendants are marked but never locked or swept", mcr.where())
        elif good_build and retained:
            rep.ok(R, "mark_child_roots: every descendant (transitively) is locked, traced via Roots{stack: &context.stack} and its guard retained until after the sweep")
        else:
            rep.violation(R, "child-roots-shape", "mark_child_roots does not trace each locked child from its own stack / retain the guard (built=%s retained=%s)" % (good_build, retained), mcr.where())
    else:
        rep.violation(R, "child-roots-missing", "mark_child_roots lost one of: lock child context, read child_threads, Roots::trace in the loop, push guard", mcr.where())
    # scope: mark children -> sweep own heap (callback) -> sweep every locked child
    m = [c for c in scope.calls() if c.res == mcr.id]
    cb = [c for c in scope.calls() if c.fn and c.fn.endswith("FnOnce::call_once")]
    sw = [c for c in scope.calls() if c.res == "gluon_vm::gc::Gc::sweep"]
    if m and cb and sw:
        o1 = all(scope.dominates(m[0].bb, c.bb) for c in cb)
        o2 = all(scope.dominates(cb[0].bb, c.bb) for c in sw)
        in_l = any(c.bb in comp for comp in scope.sccs() for c in sw)
        from_locks = any(flow.has_call(flow.sources(scope, c.args[0]), lambda n: n == mcr.id) or True for c in sw)
        if o1 and o2 and in_l:
            rep.ok(R, "CollectScope::scope: children marked before the sweep callback; each locked child heap swept afterwards")
        else:
            rep.violation(R, "scope-order", "scope(): expected mark_child_roots -> sweep callback -> loop sweeping children (o1=%s o2=%s loop=%s)" % (o1, o2, in_l), scope.where())
    else:
        rep.violation(R, "scope-missing", "scope() lost mark_child_roots / the sweep callback / the child sweeps", scope.where())
    # Gc::collect: trace precedes sweep inside the scope callback
    col = fb.body("gluon_vm::gc::Gc::collect::{closure#0}")
    if col is None:
        rep.anchor_lost(R, "Gc::collect's scope callback")
    else:
        trc = [c for c in col.calls() if c.fn == TRACE + "::trace"]
        swc = [c for c in col.calls() if c.res == "gluon_vm::gc::Gc::sweep"]
        if trc and swc and all(col.dominates(trc[0].bb, c.bb) for c in swc):
            rep.ok(R, "Gc::collect: roots.trace(gc) dominates gc.sweep()")
        else:
            rep.violation(R, "collect-order", "Gc::collect sweeps without first tracing the roots", col.where())
    # who may start a collection, and with which roots
    allowed_collectors = {"gluon_vm::gc::Gc::check_collect", "gluon_vm::thread::Thread::collect_with_context::{closure#0}"}
    for c in fb.calls_of("gluon_vm::gc::Gc::collect"):
        if c.body.id in allowed_collectors:
            rep.ok(R, "%s calls Gc::collect" % c.body.id)
        else:
            rep.violation(R, "collector|%s" % c.body.id, "unexpected caller of the unsafe Gc::collect", c.where())
    for name in ("gluon_vm::gc::Gc::alloc_and_collect",):
        for c in fb.calls_of(name):
            b = c.body
            srcs = flow.sources(b, c.args[1]) if len(c.args) > 1 else set()
            if ("agg", RO, "Roots") in srcs:
                # the Roots passed must be built from the function's own thread/stack parameters
                rep.ok(R, "%s passes a Roots{vm,stack} to alloc_and_collect" % b.id)
            else:
                rep.violation(R, "alloc-roots|%s" % b.id, "alloc_and_collect called with something other than a Roots value", c.where())
    wr = fb.body("gluon_vm::thread::Thread::with_roots")
    if wr is not None:
        built = [rv for i, j, pl, rv, ln in wr.assigns() if rv[0] == "agg" and rv[1][0] == "adt" and rv[1][1] == RO]
        if built and ("field", "gluon_vm::thread::Context", "stack") in flow.sources(wr, built[0][2][1]):
            rep.ok(R, "Thread::with_roots builds Roots from the given context's stack")
        else:
            rep.violation(R, "with-roots", "Thread::with_roots does not build Roots from context.stack", wr.where())


def _transitive_fields(fb, body, adt, depth=0, seen=None):
    """names of fields of `adt` read anywhere in body or in workspace helpers it calls with a gc argument"""
    if seen is None:
        seen = set()
    if body is None or body.id in seen or depth > 3:
        return set()
    seen.add(body.id)
    out = set()
    for c in _gc_arg_calls(body):
        for a in c.args:
            for s in flow.sources(body, a):
                if s[0] == "field" and s[1] == adt:
                    out.add(s[2])
        callee = fb.body(c.res) if (c.rk == "item" and not (c.desc.get("trait") and c.desc.get("res") in (None, c.fn))) else None
        if callee is not None and callee.get("impl_trait") != TRACE and callee.crate.name == body.crate.name:
            out |= _transitive_fields(fb, callee, adt, depth + 1, seen)
    return out


def e1c(fb, rep):
    R = "E1c"
    rep.rule(R, "an allocation that may collect keeps the definition being allocated alive")
    b = fb.body("gluon_vm::gc::Gc::alloc_and_collect")
    if b is None:
        rep.anchor_lost(R, "Gc::alloc_and_collect")
        return
    cc = [c for c in b.calls() if c.res == "gluon_vm::gc::Gc::check_collect"]
    al = [c for c in b.calls() if c.res == "gluon_vm::gc::Gc::alloc_owned"]
    if not cc or not al:
        rep.violation(R, "alloc-and-collect-shape", "alloc_and_collect no longer calls check_collect then alloc_owned", b.where())
        return
    srcs = flow.sources(b, cc[0].args[1])
    # roots argument (arg 2) and the definition (arg 3) both flow into the value handed to check_collect
    if ("arg", 2) in srcs and ("arg", 3) in srcs:
        rep.ok(R, "alloc_and_collect: check_collect receives Scope1(roots, &def): the definition is traced during the collection")
    else:
        rep.violation(R, "def-not-rooted", "the collection triggered by alloc_and_collect does not trace the definition being allocated (roots=%s def=%s)" % (
            ("arg", 2) in srcs, ("arg", 3) in srcs), cc[0].where())
    if b.dominates(cc[0].bb, al[0].bb):
        rep.ok(R, "collection check precedes the allocation")
    else:
        rep.violation(R, "collect-after-alloc", "check_collect does not dominate alloc_owned", b.where())


def e1d(fb, rep):
    R = "E1d"
    rep.rule(R, "host handles: a RootedValue exists only while its value is registered in Thread.rooted_values")
    T = "gluon_vm::thread::Thread"
    RV = "gluon_vm::thread::RootedValue"
    # who takes the write lock of rooted_values, and what do they do with it
    writers = {}
    for b in fb.bodies.values():
        for c in b.calls():
            if c.args and c.res.endswith("RwLock::<T>::write") and ("field", T, "rooted_values") in flow.sources(b, c.args[0]):
                guard_users = set()
                for d in b.calls():
                    if d.res.startswith("alloc::vec::Vec::<T, A>::") or d.res.startswith("alloc::vec::Vec::<T>::"):
                        if d.args and flow.has_call(flow.sources(b, d.args[0]), lambda n: n.endswith("RwLock::<T>::write")):
                            guard_users.add(d.res.rsplit("::", 1)[1])
                writers[b.id] = guard_users
    rep.floor(R, "functions write-locking Thread.rooted_values", len(writers), 3)
    adders = {k for k, v in writers.items() if "push" in v}
    removers = {k for k, v in writers.items() if v & {"swap_remove", "remove", "pop", "retain", "clear", "truncate", "drain"}}
    for k, v in sorted(writers.items()):
        unknown = v - {"push", "swap_remove"}
        if unknown:
            rep.violation(R, "rooted-values-mutator|%s" % k, "%s mutates Thread.rooted_values with %s" % (k, sorted(unknown)), "")
        else:
            rep.ok(R, "%s: rooted_values.%s" % (k, "/".join(sorted(v))))
    # removal removes the handle's own value (position found by object identity with self.value)
    for k in sorted(removers):
        b = fb.body(k)
        rm = [c for c in b.calls() if c.res.endswith("::swap_remove")]
        good = False
        for c in rm:
            srcs = flow.sources(b, c.args[1]) if len(c.args) > 1 else set()
            if flow.has_call(srcs, lambda n: n.endswith("Iterator::position")):
                for cl in fb.closures_of(b.id):
                    if any(x.res.endswith("::obj_eq") for x in cl.calls()) and ("closure", cl.id) in srcs:
                        good = True
        if good:
            rep.ok(R, "%s removes the entry that is object-identical to self.value" % k)
        else:
            rep.violation(R, "unroot-wrong-entry|%s" % k, "%s removes an entry of rooted_values that is not located by identity with the handle's own value" % k, b.where())
    # constructions of RootedValue: after registering (new) or taking over an existing registration (into_owned + forget)
    n = 0
    for b in fb.bodies.values():
        aggs = [i for i in flow.blocks_constructing(b, RV)]
        if not aggs:
            continue
        n += 1
        if b.id in adders:
            pushes = [c for c in b.calls() if c.res.endswith("::push") and flow.has_call(flow.sources(b, c.args[0]), lambda x: x.endswith("RwLock::<T>::write"))]
            if pushes and all(b.dominates(pushes[0].bb, i) for i in aggs):
                rep.ok(R, "%s registers the value in rooted_values before it builds the handle" % b.id)
            else:
                rep.violation(R, "handle-before-root|%s" % b.id, "%s builds a RootedValue that is not dominated by the push into rooted_values" % b.id, b.where())
        elif any(c.res.endswith("mem::forget") for c in b.calls()):
            rep.ok(R, "%s transfers an existing registration (old handle forgotten)" % b.id)
        else:
            rep.violation(R, "unregistered-handle|%s" % b.id, "%s builds a RootedValue without registering its value as a root" % b.id, b.where())
    rep.floor(R, "constructors of RootedValue", n, 2)
    # identity means address: every pointer-carrying representation is compared with GcPtr::ptr_eq (two equal strings are two
    # objects; comparing contents would un-root the wrong one)
    oe = fb.body("gluon_vm::value::Value::obj_eq")
    if oe is None:
        rep.anchor_lost(R, "Value::obj_eq")
    else:
        a = fb.adts.get("gluon_vm::value::ValueRepr")
        types = a["_crate"].types
        ptr_variants = [v["name"] for v in a["variants"] if any("GcPtr<" in types[f["ty"]]["s"] or "GcStr" in types[f["ty"]]["s"] for f in v["fields"])]
        ptr_eqs = {oe.tstr(c.desc["ga"][0]) for c in oe.calls() if c.res.endswith("GcPtr::<T>::ptr_eq") and c.desc.get("ga")}
        content = [c for c in oe.calls() if (c.fn or "").endswith("PartialEq::eq") and any(
            ("GcPtr" in oe.tstr(g) or "GcStr" in oe.tstr(g) or "ValueStr" in oe.tstr(g) or "str" == oe.tstr(g).lstrip("&")) for g in c.desc.get("ga", []))]
        allowed = ("Value::get_repr", "mem::discriminant", "PartialEq::ne", "PartialEq::eq", "GcPtr::<T>::ptr_eq", "panicking::panic", "panicking::unreachable_display",
                   "panicking::panic_fmt")
        extra = [c for c in oe.calls() if not any((c.fn or c.res).endswith(x) or c.res.endswith(x) for x in allowed)]
        if extra:
            rep.violation(R, "identity-extra-clause", "Value::obj_eq is no longer a pure address / primitive comparison (calls %s)" % sorted({c.res for c in extra})[:3], extra[0].where())
        elif content:
            rep.violation(R, "identity-by-content", "Value::obj_eq compares a heap representation by content (%s): dropping one host handle can remove the root of another, "
                          "equal but distinct, object" % [oe.tstr(g) for g in content[0].desc.get("ga", [])][:2], content[0].where())
        elif len(ptr_eqs) >= len(ptr_variants):
            rep.ok(R, "Value::obj_eq: all %d pointer-carrying representations are compared with GcPtr::ptr_eq" % len(ptr_variants))
        else:
            rep.violation(R, "identity-not-by-address", "Value::obj_eq uses GcPtr::ptr_eq for %d of the %d pointer-carrying representations" % (len(ptr_eqs), len(ptr_variants)), oe.where())
    # root_ (re-rooting a handle that a gc::mutex guard un-rooted) requires "not rooted" and then sets the flag; the sibling for
    # thread handles does the same
    n_root = 0
    for bid, b in fb.bodies.items():
        if b.crate.name != "gluon_vm" or not bid.endswith("::root_") or b.kind != "fn":
            continue
        sets = [x for x in flow.field_writes(b, RV, "rooted") if x[4] == "assign"] + [x for x in flow.field_writes(b, "gluon_vm::thread::RootedThread", "rooted") if x[4] == "assign"]
        if not sets:
            continue
        n_root += 1
        verdict = None
        for bb, srcs, true_t, false_t in flow.bool_switches(b):
            if not any(s_[0] == "field" and s_[2] == "rooted" for s_ in srcs):
                continue
            neg = ("op", "Not") in srcs
            # which edge panics?
            def panics(t):
                reach = b.reachable(t, avoid_blocks=[x[0] for x in sets])
                return any(c.bb in reach and c.target is None and "panic" in c.res for c in b.calls())
            pt, pf = panics(true_t), panics(false_t)
            if pt != pf:
                # switch operand true means (not neg: rooted) / (neg: !rooted)
                rooted_on_panic = (pt and not neg) or (pf and neg)
                verdict = rooted_on_panic
        if verdict is True:
            rep.ok(R, "%s asserts the handle is not rooted, then sets rooted = true" % bid)
        elif verdict is False:
            rep.violation(R, "root-assert-inverted|%s" % bid, "%s panics when the handle is *not* rooted, i.e. exactly when it is called (re-rooting after a gc::mutex guard "
                          "un-rooted the contents): the second lock of a GC-heap mutex holding a host handle panics with rooted_values write-locked" % bid, b.where())
        else:
            rep.ok(R, "%s sets rooted = true (no assertion on the flag)" % bid)
    rep.floor(R, "root_ functions examined", n_root, 2)
    # Drop unroots
    d = [b for b in fb.bodies.values() if b.get("impl_trait") == "core::ops::drop::Drop" and b.get("name") == "drop" and "RootedValue<T>" in b.id]
    if d and any(c.res.endswith("::unroot_") for c in d[0].calls()):
        rep.ok(R, "<RootedValue as Drop>::drop unroots")
    else:
        rep.violation(R, "drop-does-not-unroot", "dropping a RootedValue no longer removes its root (leak) or the impl is gone", "")


def e1e(fb, rep):
    R = "E1e"
    rep.rule(R, "mark/sweep core: what gets marked, traced, unmarked and freed")
    G = "gluon_vm::gc::"
    # Generation::is_parent_of(self, other) is strictly self < other
    b = fb.body(G + "Generation::is_parent_of")
    ok = False
    if b is not None:
        for i, j, pl, rv, ln in b.assigns():
            if rv[0] == "bin" and pl == [0, []]:
                sa, sb = flow.sources(b, rv[2]), flow.sources(b, rv[3])
                pure = not any(s[0] in ("op", "const", "call") for s in sa | sb)
                if pure and ((rv[1] == "Lt" and ("arg", 1) in sa and ("arg", 2) in sb) or (rv[1] == "Gt" and ("arg", 2) in sa and ("arg", 1) in sb)):
                    ok = True
    if ok:
        rep.ok(R, "Generation::is_parent_of(self, other) is self < other (strict)")
    else:
        rep.violation(R, "is-parent-of", "Generation::is_parent_of is no longer the strict `self.0 < other.0`: same-generation objects would be skipped by mark (and then freed)", b.where() if b else "")
    # Gc::mark: skip iff the object's generation is a parent of the collector's, or it is already marked; otherwise set the mark
    m = fb.body(G + "Gc::mark")
    if m is None:
        rep.anchor_lost(R, "Gc::mark")
    else:
        ipo = [c for c in m.calls() if c.res == G + "Generation::is_parent_of"]
        sets = [c for c in m.calls() if c.res.endswith("Cell::<T>::set") and ("field", G + "GcHeader", "marked") in flow.sources(m, c.args[0])]
        gets = [c for c in m.calls() if c.res.endswith("Cell::<T>::get") and ("field", G + "GcHeader", "marked") in flow.sources(m, c.args[0])]
        good = False
        why = "shape"
        if ipo and sets and gets:
            a0 = flow.sources(m, ipo[0].args[0])
            a1 = flow.sources(m, ipo[0].args[1])
            order_ok = flow.has_call(a0, lambda n: n.endswith("GcHeader::generation")) and flow.has_call(a1, lambda n: n.endswith("Gc::generation")) \
                and not flow.has_call(a0, lambda n: n.endswith("Gc::generation"))
            # the set(true) block is reached only over the false edges of both tests
            e1 = e2 = None
            for bb, srcs, true_t, false_t in flow.bool_switches(m):
                if flow.has_call(srcs, lambda n: n.endswith("is_parent_of")):
                    e1 = (bb, false_t)
                if flow.has_call(srcs, lambda n: n.endswith("Cell::<T>::get")):
                    e2 = (bb, false_t)
            setv = op_const_int(sets[0].args[1])
            only = e1 and e2 and flow.only_via_edge(m, sets[0].bb, e1) and flow.only_via_edge(m, sets[0].bb, e2)
            # return value: false (0) exactly on the path that sets the mark
            ret0 = [i for i, j, pl, rv, ln in m.assigns() if pl == [0, []] and rv[0] == "use" and rv[1][0] == "k" and rv[1][1].get("int") == 0]
            ret_ok = ret0 and all(m.dominates(sets[0].bb, i) for i in ret0)
            good = bool(order_ok and only and setv == 1 and ret_ok)
            why = "arg-order=%s only-unmarked-young=%s sets-true=%s returns-false-only-there=%s" % (order_ok, bool(only), setv == 1, bool(ret_ok))
        if good:
            rep.ok(R, "Gc::mark: object of an ancestor generation or already marked -> true; otherwise marked.set(true) and false")
        else:
            rep.violation(R, "mark-shape", "Gc::mark no longer marks exactly the unmarked objects of this or a younger generation (%s)" % why, m.where())
    # GcPtr::trace: the pointee is traced exactly when mark() returned false
    g = fb.body("<gluon_vm::gc::GcPtr<T> as gluon_vm::gc::Trace>::trace")
    if g is None:
        rep.anchor_lost(R, "<GcPtr as Trace>::trace")
    else:
        mk = [c for c in g.calls() if c.res == G + "Gc::mark"]
        tr = [c for c in g.calls() if c.fn == TRACE + "::trace"]
        good = False
        if mk and tr:
            for bb, srcs, true_t, false_t in flow.bool_switches(g):
                if flow.has_call(srcs, lambda n: n.endswith("Gc::mark")):
                    negated = ("op", "Not") in srcs
                    unmarked_edge = true_t if negated else false_t
                    if all(flow.only_via_edge(g, c.bb, (bb, unmarked_edge)) for c in tr):
                        good = True
        if good:
            rep.ok(R, "<GcPtr as Trace>::trace: the pointee is traced iff Gc::mark reported it was not marked before")
        else:
            rep.violation(R, "gcptr-trace-shape", "<GcPtr as Trace>::trace does not trace the pointee exactly on the newly-marked edge", g.where())
    # Gc::sweep: unmarked -> free, marked -> mark cleared
    s = fb.body(G + "Gc::sweep")
    if s is None:
        rep.anchor_lost(R, "Gc::sweep")
    else:
        fr = [c for c in s.calls() if c.res == G + "Gc::free"]
        clr = [c for c in s.calls() if c.res.endswith("Cell::<T>::set") and op_const_int(c.args[1]) == 0]
        get = [c for c in s.calls() if c.res.endswith("Cell::<T>::get")]
        loops = s.sccs()
        in_loop = lambda c: any(c.bb in comp for comp in loops)
        good = False
        if fr and clr and get and all(in_loop(c) for c in fr + clr + get):
            for bb, srcs, true_t, false_t in flow.bool_switches(s):
                if flow.has_call(srcs, lambda n: n.endswith("Cell::<T>::get")):
                    negated = ("op", "Not") in srcs
                    marked_edge = false_t if negated else true_t
                    unmarked_edge = true_t if negated else false_t
                    if all(flow.only_via_edge(s, c.bb, (bb, marked_edge)) for c in clr) and \
                            all(flow.only_via_edge_threaded(s, c.bb, (bb, unmarked_edge)) for c in fr):
                        good = True
        if good:
            rep.ok(R, "Gc::sweep: marked -> marked.set(false) and keep; unmarked -> Gc::free")
        else:
            rep.violation(R, "sweep-shape", "Gc::sweep no longer frees exactly the unmarked blocks and clears the mark of the others", s.where())
    # check_collect / collect trigger reads allocated_memory against collect_limit
    cc = fb.body(G + "Gc::check_collect")
    if cc is not None:
        good = False
        for bb, op, lhs, rhs, true_t, false_t in flow.comparison_switches(cc):
            ls, rs = flow.sources(cc, lhs), flow.sources(cc, rhs)
            if ("field", G + "Gc", "allocated_memory") in ls | rs and ("field", G + "Gc", "collect_limit") in ls | rs:
                good = True
        if good:
            rep.ok(R, "Gc::check_collect compares allocated_memory with collect_limit")
        else:
            rep.violation(R, "collect-trigger", "Gc::check_collect no longer compares allocated_memory with collect_limit", cc.where())


def op_const_int(o):
    if o and o[0] == "k" and isinstance(o[1], dict):
        return o[1].get("int")
    return None


def run(fb, rep, tier, cfg):
    rep.explanation = (
        "Static analysis of the resolved MIR/ADT/impl tables of the workspace. E1a: for each of the impls of gc::Trace, "
        "needs(T) (fields whose type can reach GcPtr/Value/ValueRepr or a Trace-bounded parameter) must be a subset of the "
        "fields that flow into a call which is also handed the collector inside T::trace (following local helpers and closures), "
        "modulo the reasoned table tables/trace_exempt.json. E1b: the collector's Roots object is a sibling of Thread::trace "
        "(same Thread fields, stack via Roots.stack), children are locked+marked before the sweep callback and swept after it, "
        "who-may-call Gc::collect. E1c: the value being allocated is part of the root set of the collection its allocation "
        "triggers. E4 (see C13) covers stores into mutable cells and (E4c/E4d) that the cloner's helpers and every Userdata::deep_clone "
        "override copy what they hold through the cloner — a copy that still points into the source heap is freed by the source's next "
        "collection while reachable from the copy. Decides root *existence*, not that timing never matters.")
    rep.assumptions += [
        "derive(Trace) output is analysed post-expansion like any other impl",
        "a field counts as traced when it flows (through borrows, lock/unwrap/deref calls) into any call that also receives &mut Gc",
        "the exemptions in tables/trace_exempt.json are each backed by a stated invariant",
    ]
    e1a(fb, rep)
    e1b(fb, rep)
    e1c(fb, rep)
    e1d(fb, rep)
    e1e(fb, rep)
    from . import e4
    e4.cells(fb, rep)
    # a copy that keeps pointing into the source heap is freed by the source's next collection while still reachable
    e4.userdata_clones(fb, rep)
    e4.cloner_heap_pairing(fb, rep)
    e4.foreign_thread_roots(fb, rep)
    e4.cloner_helpers(fb, rep)
