"""E11 — primitive-operator tables (sibling agreement).

R11a (C01)  name -> instruction (Compiler::compile_primitive) -> helper + Rust operation (ExecuteContext::execute_)
            must equal the meaning of the name `#<Ty><op>`: Int/Byte arithmetic is *checked* (overflow and division by
            zero are failures of the reference semantics), Float is the IEEE operation, comparisons are Lt/Eq on the
            named type (Char shares the Int comparisons); `&&`/`||` evaluate the right operand behind a conditional jump.
R11b (C02)  the primitive operators the type checker accepts are a subset of those the compiler handles (anything else
            reaches an internal compiler error on an accepted program)."""
from . import flow
from .common import enum_switches, variant_names
from .facts import op_place, op_const

INSTR = "gluon_vm::types::Instruction"

# meaning of a primitive name: (helper, operation, operand type)
ARITH = {"+": "add", "-": "sub", "*": "mul", "/": "div"}
CMP = {"<": "Lt", "==": "Eq"}
TY = {"Int": "i64", "Byte": "u8", "Float": "f64", "Char": "i64"}


def _promoted_str(fb, b, idx):
    if fb is None:
        return None
    pb = fb.body("%s::{promoted#%d}" % (b.id, idx))
    if pb is None:
        return None
    for i, j, pl, rv, ln in pb.assigns():
        for o in ([rv[1]] if rv[0] == "use" else []):
            k = op_const(o)
            if k is not None and "str" in k:
                return k["str"]
    return None


def _str_match_table(b, prefix="#", fb=None):
    """{string literal: block reached when `s == literal`} from the lowered `match s { "lit" => .. }` and from
    `s == "lit"` comparisons (whose literal lives in a promoted constant)"""
    out = {}
    for c in b.calls():
        if not (c.res.endswith("PartialEq for str>::eq") or c.res.endswith("PartialEq>::eq") or
                c.res.endswith("PartialEq<&B> for &A>::eq")):
            continue
        lit = None
        for a in c.args:
            k = op_const(a)
            if k is not None and "str" in k:
                lit = k["str"]
            elif fb is not None:
                for s in flow.sources(b, a, depth=4):
                    if s[0] == "promoted":
                        lit = _promoted_str(fb, b, s[1]) or lit
        if lit is None:
            continue
        # switch on the result
        if c.target is None:
            continue
        t = b.term(c.target)
        if t[0] != "switch":
            continue
        true_t = None
        for val, bb in t[2]:
            if val != 0:
                true_t = bb
        if true_t is None:
            true_t = t[3]
        out[lit] = true_t
    return out


def _first_instruction_agg(b, start, limit=6):
    """follow straight-line flow from `start` to the first aggregate construction of an Instruction variant"""
    cur = start
    for _ in range(limit):
        for st in b.stmts(cur):
            if st[0] == "=" and st[2][0] == "agg" and st[2][1][0] == "adt" and st[2][1][1] == INSTR:
                return st[2][1][2]
        s = b.succ(cur)
        if len(s) != 1:
            return None
        cur = s[0]
    return None


def compiler_table(fb):
    b = fb.body("gluon_vm::compiler::Compiler::<'a>::compile_primitive")
    if b is None:
        return None, None
    tab = {}
    for lit, blk in _str_match_table(b).items():
        if lit.startswith("#"):
            tab[lit] = _first_instruction_agg(b, blk)
    return b, tab


def interpreter_table(fb):
    """{Instruction variant: (helper, op, operand type)}"""
    b = fb.body("gluon_vm::thread::ExecuteContext::<'b, 'gc>::execute_")
    if b is None:
        return None, None
    names = variant_names(fb, INSTR)
    main = [(i, m, o) for i, m, o in enum_switches(b, INSTR) if len(m) >= 20]
    if not main:
        return b, None
    sw, m, other = main[0]
    tab = {}
    by_target = {}
    for idx, t in m.items():
        by_target.setdefault(t, []).append(idx)
    for idx, t in m.items():
        vn = names[idx]
        others = [x for x in m.values() if x != t] + [other]
        excl = b.reachable(t, avoid_blocks=[sw]) - b.reachable(others, avoid_blocks=[sw])
        for c in b.calls():
            if c.bb in excl and c.res.startswith("gluon_vm::thread::binop_"):
                helper = c.res.rsplit("::", 1)[1]
                opnd = c.args[2] if len(c.args) > 2 else None
                desc = None
                if opnd is not None:
                    srcs = flow.sources(b, opnd)
                    fn = [s[1] for s in srcs if s[0] == "fnref"]
                    cl = [s[1] for s in srcs if s[0] == "closure"]
                    if fn:
                        desc = ("fn", fn[0])
                    elif cl:
                        cb = fb.body(cl[0])
                        ops = [rv[1] for i, j, pl, rv, ln in cb.assigns() if rv[0] == "bin"] if cb else []
                        argt = cb.local_tstr(2) if cb is not None and len(cb.d["locals"]) > 2 else "?"
                        desc = ("closure", ops, argt)
                    else:
                        k = op_const(opnd)
                        if k is not None and "fn" in k:
                            desc = ("fn", k.get("res") or k["fn"])
                        elif k is not None and "closure" in k:
                            cb = fb.body(k["closure"])
                            ops = [rv[1] for i, j, pl, rv, ln in cb.assigns() if rv[0] == "bin"] if cb else []
                            argt = cb.local_tstr(2) if cb is not None and len(cb.d["locals"]) > 2 else "?"
                            desc = ("closure", ops, argt)
                tab[vn] = (helper, desc)
    return b, tab


def _expected(name):
    """('#Int+') -> (helper, check(desc) -> bool, text)"""
    body = name[1:]
    ty = "".join(ch for ch in body if ch.isalpha())
    op = body[len(ty):]
    rt = TY.get(ty)
    if rt is None:
        return None
    if op in ARITH:
        if ty in ("Int", "Byte"):
            helper = "binop_int" if ty == "Int" else "binop_byte"
            want = "<impl %s>::checked_%s" % (rt, ARITH[op])
            return helper, (lambda d: d is not None and d[0] == "fn" and d[1].endswith(want)), "%s(%s)" % (helper, want)
        if ty == "Float":
            tr = {"add": "Add", "sub": "Sub", "mul": "Mul", "div": "Div"}[ARITH[op]]
            want = "core::ops::arith::%s" % tr
            return "binop_f64", (lambda d: d is not None and d[0] == "fn" and want in d[1] and ("f64" in d[1])), "binop_f64(<f64 as %s>::%s)" % (tr, ARITH[op])
        return None
    if op in CMP:
        want = CMP[op]
        return "binop_bool", (lambda d: d is not None and d[0] == "closure" and d[1] == [want] and d[2] == rt), "binop_bool(|l: %s, r| l %s r)" % (rt, op)
    return None


def r11a(fb, rep):
    R = "R11a"
    rep.rule(R, "primitive operator tables agree: name -> instruction -> checked Rust operation on the named type")
    cb, ctab = compiler_table(fb)
    ib, itab = interpreter_table(fb)
    if cb is None or not ctab:
        rep.anchor_lost(R, "Compiler::compile_primitive string table")
        return
    if ib is None or not itab:
        rep.anchor_lost(R, "execute_ arithmetic arms")
        return
    rep.floor(R, "primitive operator names in compile_primitive", len(ctab), 18)
    rep.floor(R, "arithmetic/comparison arms in execute_", len(itab), 18)
    for name in sorted(ctab):
        instr = ctab[name]
        exp = _expected(name)
        if instr is None:
            rep.violation(R, "no-instruction|%s" % name, "compile_primitive: `%s` does not select an instruction" % name, cb.where())
            continue
        if exp is None:
            rep.violation(R, "unknown-primitive|%s" % name, "compile_primitive handles `%s` whose name has no reference meaning" % name, cb.where())
            continue
        helper, pred, text = exp
        got = itab.get(instr)
        if got is None:
            rep.violation(R, "no-arm|%s|%s" % (name, instr), "execute_ has no arithmetic arm for %s (selected by `%s`)" % (instr, name), ib.where())
            continue
        if got[0] == helper and pred(got[1]):
            rep.ok(R, "`%s` -> %s -> %s" % (name, instr, text))
        else:
            rep.violation(R, "wrong-operation|%s" % name,
                          "`%s` compiles to %s which executes %s(%s); the name means %s" % (name, instr, got[0], got[1], text), ib.where())
    # None (overflow / division by zero) becomes an error value in binop_int / binop_byte
    for h in ("binop_int", "binop_byte"):
        inner = [x for x in fb.bodies.values() if x.id.startswith("gluon_vm::thread::%s::{closure#0}" % h)]
        ok = False
        for x in inner:
            if any(c.res.endswith("Option::<T>::ok_or_else") for c in x.calls()):
                for y in fb.closures_of(x.id):
                    if flow.blocks_constructing(y, "gluon_vm::Error", "Message"):
                        ok = True
        if ok:
            rep.ok(R, "%s: a None result (overflow, division by zero) becomes Error::Message" % h)
        else:
            rep.violation(R, "overflow-not-error|%s" % h, "%s no longer turns a None result into an error" % h, "")
    # short-circuit operators: rhs compiled behind a conditional jump
    for opname in ("&&", "||"):
        tab = _str_match_table(cb, fb=fb)
        blk = tab.get(opname)
        if blk is None:
            rep.violation(R, "no-short-circuit|%s" % opname, "compile_primitive has no case for `%s`" % opname, cb.where())
            continue
        others = [v for k, v in tab.items() if k != opname]
        region = cb.reachable(blk) - set()
        comp = [c for c in cb.calls() if c.bb in region and c.res.endswith("Compiler::<'a>::compile")]
        cj = [i for i in flow.blocks_constructing(cb, INSTR, "CJump") if i in region]
        # exactly two operand compilations: lhs before the conditional jump, rhs after it
        excl = cb.reachable(blk) - cb.reachable(others) if False else region
        mine = [c for c in comp if c.bb in (cb.reachable(blk) - cb.reachable([v for k, v in tab.items() if k != opname and v != blk and not cb.dominates(blk, v)]))]
        comp = mine or comp
        if len(comp) == 2 and cj and cb.dominates(comp[0].bb, cj[0]) and cb.dominates(cj[0], comp[1].bb):
            rep.ok(R, "`%s`: compile(lhs); emit(CJump); compile(rhs) — rhs is evaluated conditionally" % opname)
        else:
            rep.violation(R, "short-circuit-shape|%s" % opname, "`%s` no longer compiles its right operand behind a conditional jump" % opname, cb.where())


def accepted_set(fb):
    """primitive operator names the checker types. Two recognised forms:
    (A) the Infix arm compares the whole name against literals `#Ty<op>`;
    (B) it parses a BuiltinType name and compares the suffix against operator literals (cross product)."""
    tc = [b for b in fb.bodies.values() if b.id.endswith("Typecheck::<'a, 'ast>::typecheck_") or b.id.endswith("::typecheck_")]
    tc = [b for b in tc if b.crate.name == "gluon_check" and "typecheck::Typecheck" in b.id]
    if not tc:
        return None, None, None
    b = max(tc, key=lambda x: len(x.blocks))
    lits = _str_match_table(b)
    # also literals compared in closures / helper functions called only from the infix arm are not followed
    full = {l for l in lits if l.startswith("#") and len(l) > 1}
    ops = {l for l in lits if l in ("+", "-", "*", "/", "==", "<", ">", "<=", ">=", "!=", "%")}
    fs = fb.body("<gluon_base::types::BuiltinType as core::str::traits::FromStr>::from_str")
    tys = set()
    if fs is not None:
        tys = {l for l in _str_match_table(fs) if l.isalpha()}
    if full:
        return b, "A", full
    return b, "B", {"#%s%s" % (t, o) for t in tys for o in ops}


def r11b(fb, rep):
    R = "R11b"
    rep.rule(R, "primitive operators accepted by the checker are handled by the compiler")
    cb, ctab = compiler_table(fb)
    tb, form, acc = accepted_set(fb)
    if cb is None or not ctab:
        rep.anchor_lost(R, "Compiler::compile_primitive string table")
        return
    if tb is None or not acc:
        rep.anchor_lost(R, "the checker's primitive-operator case (typecheck_, Expr::Infix)")
        return
    rep.floor(R, "primitive operator names accepted by the checker", len(acc), 12)
    handled = set(ctab)
    missing = sorted(acc - handled)
    for n in sorted(acc & handled):
        rep.ok(R, "`%s` accepted by the checker and handled by compile_primitive" % n)
    if missing:
        rep.violation(R, "accepted-not-handled",
                      "the checker types %d primitive operators the compiler does not handle (an accepted program then hits `ice!(Undefined variable)`): %s" % (
                          len(missing), " ".join(missing)), tb.where())
    rep.extra["checker_form"] = form


def r11c(fb, rep):
    """R11c — recursive value groups: each member's CloseData closes *its own* pre-allocated slot.

    `rec let` groups of values are compiled by pre-allocating every member (`NewRecord` / `NewVariant`) and, once the member's
    fields are on the stack, patching the construction into `CloseData { index }` which copies the fields into the cell at stack
    slot `index`.  The two branches that do this (record / variant) are siblings: both must address slot `stack_start + i` where
    i is the member's position in the group (the enumerate index).  A branch that drops the position closes the first member's
    cell with every member's fields (silent wrong value / wrong-shape error)."""
    R = "R11c"
    rep.rule(R, "every CloseData built for a recursive value group addresses stack_start + the member's own position")
    b = fb.body("gluon_vm::compiler::Compiler::<'a>::compile_")
    if b is None:
        rep.anchor_lost(R, "Compiler::compile_")
        return
    sigs = []
    for i, j, pl, rv, ln in b.assigns():
        if rv[0] == "agg" and rv[1][0] == "adt" and rv[1][1] == "gluon_vm::types::Instruction" and rv[1][2] == "CloseData":
            srcs = flow.sources(b, rv[2][0], depth=10)
            pos = flow.has_call(srcs, lambda n: "Enumerate" in n and n.endswith("::next"))
            add = any(s[0] == "op" and s[1].startswith("Add") for s in srcs)
            sigs.append((ln, pos, add))
    rep.floor(R, "CloseData constructions in compile_", len(sigs), 2)
    for ln, pos, add in sigs:
        if pos and add:
            rep.ok(R, "compile_ (line %s): CloseData { index: stack_start + i }" % ln)
        else:
            rep.violation(R, "close-data-index|%s" % ("no-position" if not pos else "no-offset"),
                          "a CloseData built in Compiler::compile_ does not address `stack_start + <member position>` (position=%s, sum=%s) while its sibling does: "
                          "the member's fields are written into another member's cell" % (pos, add), "%s:%s" % (b.file, ln))


def r11d(fb, rep):
    """R11d — the identifier-replacement map of the core translator stays closed under composition.

    `FixupMatches` rewrites `match x with | y -> e` into `e[y := x]` by recording y -> x in `ident_replacements` and dropping the
    match.  If x was itself the bound variable of an eliminated match (x -> w is already recorded) the new entry must point at
    w: x is no longer bound anywhere.  Rule: the target the rewrite inserts for a *scrutinee identifier* has been looked up in
    the same map first (normalise before insert)."""
    R = "R11d"
    rep.rule(R, "FixupMatches inserts replacement targets that are normalised through the map")
    bs = [b for b in fb.bodies.values() if b.crate.name == "gluon_vm" and "FixupMatches" in b.id and b.id.endswith("::visit_expr")]
    if len(bs) != 1:
        rep.anchor_lost(R, "FixupMatches::visit_expr")
        return
    b = bs[0]
    ins = [c for c in b.calls() if "HashMap" in c.res and c.res.rsplit("::", 1)[1] == "insert"]
    if not ins:
        rep.anchor_lost(R, "insert into ident_replacements in FixupMatches::visit_expr")
        return
    for c in ins:
        srcs = flow.sources(b, c.args[2], depth=12) if len(c.args) > 2 else set()
        if flow.has_call(srcs, lambda n: "HashMap" in n and n.rsplit("::", 1)[1] in ("get", "get_mut", "remove", "entry")):
            rep.ok(R, "FixupMatches: replacement target looked up in the map before it is inserted (%s)" % c.where())
        else:
            rep.violation(R, "replacement-not-normalised", "FixupMatches records `y -> x` with the scrutinee's raw name: when x is itself a replaced variable (its match was "
                          "eliminated) later uses of y name an unbound variable (ice: Undefined variable)", c.where())


def r11e(fb, rep):
    """R11e — record patterns of several alternatives are aligned by field *name*.

    The pattern-match compiler merges the record patterns heading a group of equations into one core pattern (the union of their
    fields in first-seen order, one fresh variable per merged field) and then prepends each equation's own sub-patterns to its
    remaining columns.  The sub-patterns must be matched to the merged fields by name; pairing them by position
    (`ast::pattern_values(fields).zip(core_fields)`) is only right when every alternative lists the same fields in the same order."""
    R = "R11e"
    rep.rule(R, "the sub-patterns of record alternatives are matched to the merged pattern's fields by name, not by position")
    bs = [b for bid, b in fb.bodies.items() if b.crate.name == "gluon_vm" and "PatternTranslator" in bid and "::compile_record" in bid]
    if not bs:
        rep.anchor_lost(R, "PatternTranslator::compile_record")
        return
    n = 0
    for b in bs:
        for c in b.calls():
            if (c.fn or "").endswith("Iterator::zip") and c.args and flow.has_call(flow.sources(b, c.args[0], depth=8), lambda x: x.endswith("ast::pattern_values")):
                n += 1
                rep.violation(R, "record-alternatives-aligned-by-position", "PatternTranslator::compile_record pairs an alternative's field sub-patterns with the merged core pattern's "
                              "fields by position (pattern_values(..).zip(core_fields)): alternatives that list their fields in another order, or name other fields, test and bind the "
                              "wrong columns", c.where())
    if not n:
        rep.ok(R, "compile_record: no positional pairing of an alternative's fields with the merged pattern")


def r11f(fb, rep):
    """R11f — the recursion check accepts only recursive *values* the compiler can close.

    A zero-argument `rec` binding is compiled by pre-allocating its cell and patching the one final `ConstructRecord` /
    `ConstructVariant` into `CloseData` (anything else is an `ice!`).  `recursion_check::check_tail` must therefore accept only tail
    forms that end in exactly one such construction: record, tuple and constructor application, behind let/block/type-binding
    wrappers.  A lambda ends in no construction, `if`/`match` in one per branch (only the last is patched)."""
    R = "R11f"
    rep.rule(R, "check_tail accepts only tail forms that compile to a single final construction")
    from .common import enum_switches, variant_names
    EXPR = "gluon_base::ast::Expr"
    b = fb.body("gluon_check::recursion_check::Checker::check_tail")
    if b is None:
        rep.anchor_lost(R, "recursion_check::Checker::check_tail")
        return
    names = variant_names(fb, EXPR)
    sws = [(bb, m, o) for bb, m, o in enum_switches(b, EXPR) if len(m) >= 4]
    if not sws:
        rep.anchor_lost(R, "match on the tail expression in check_tail")
        return
    bb, m, other = sws[0]
    errs = set(flow.blocks_constructing(b, "gluon_check::recursion_check::Error", "LastExprMustBeConstructor"))
    closable = {"Block", "LetBindings", "TypeBindings", "Record", "Tuple", "App", "Annotated", "MacroExpansion"}
    rets = set(b.return_blocks())
    n = 0
    for idx, tgt in sorted(m.items()):
        vn = names[idx]
        others = [t for i, t in m.items() if t != tgt] + ([other] if other is not None else [])
        region = b.reachable(tgt, avoid_blocks=[bb]) - b.reachable(others, avoid_blocks=[bb])
        accepts = bool(b.reachable(tgt, avoid_blocks=list(errs) + [bb]) & rets)
        n += 1
        if accepts and vn not in closable:
            rep.violation(R, "rec-tail-accepted-but-not-closable|%s" % vn, "recursion_check::check_tail accepts a recursive value whose tail is Expr::%s, which the compiler's recursive-value "
                          "case cannot close (it patches exactly one final ConstructRecord/ConstructVariant; otherwise ice! or an uninitialised cell)" % vn, b.where())
        elif accepts:
            rep.ok(R, "Expr::%s tail: closable" % vn)
    rep.floor(R, "tail forms with an arm of their own", n, 5)


def r11g(fb, rep):
    """R11g — a run of constructor alternatives is complete when it names every *constructor* of the type.
    `PatternTranslator::compile_constructor` groups the alternatives by constructor and omits the fall-through to the
    following (catch-all) alternatives when the run is complete.  The test must compare the number of constructors of the type
    (`row_iter().count()`) with the number of distinct constructors named (the size of the grouping map), not with the number
    of alternatives: `| A 1 -> .. | A x -> .. | _ -> d` on a two-constructor type has two alternatives and one constructor; judged
    complete, `B 7` falls into the first alternative's body (wrong value or stack corruption)."""
    R = "R11g"
    rep.rule(R, "constructor-match completeness counts distinct constructors, not alternatives")
    b = next((x for i, x in fb.bodies.items() if i.endswith("PatternTranslator::<'a, 'e>::compile_constructor") and x.kind == "fn"), None)
    if b is None:
        b = next((x for i, x in fb.bodies.items() if "PatternTranslator" in i and i.endswith("::compile_constructor") and x.kind == "fn"), None)
    if b is None:
        rep.anchor_lost(R, "PatternTranslator::compile_constructor")
        return
    n = 0
    for i, j, pl, rv, ln in b.assigns():
        if rv[0] != "bin" or rv[1] not in ("Eq", "Ne"):
            continue
        l, r_ = flow.sources(b, rv[2], depth=12), flow.sources(b, rv[3], depth=12)
        is_count = lambda s_: flow.has_call(s_, lambda x: x.endswith("Iterator::count") or x.endswith("::count"))
        if not (is_count(l) or is_count(r_)):
            continue
        other = r_ if is_count(l) else l
        n += 1
        from_map = flow.has_call(other, lambda x: "HashMap" in x and x.rsplit("::", 1)[-1] == "len") or flow.has_call(other, lambda x: x.endswith("Vec::<T, A>::len") or x.endswith("Vec::<T>::len"))
        from_param = any(s_[0] == "arg" for s_ in other)
        if from_map and not from_param:
            rep.ok(R, "compile_constructor: completeness = (number of grouped constructors == number of constructors of the type)")
        else:
            rep.violation(R, "completeness-counts-alternatives", "compile_constructor compares the constructor count of the type with %s instead of the number of distinct constructors named "
                          "by the alternatives: a run that repeats a constructor can be judged complete and the fall-through to the catch-all alternative is omitted"
                          % ("a quantity derived from its `equations` parameter (the number of alternatives)" if from_param else "another quantity"), "%s:%s" % (b.file, ln))
    rep.floor(R, "completeness comparisons in compile_constructor", n, 1)
