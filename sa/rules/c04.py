"""C04 — optimisation never changes what a program does (engine E10).

With the inliner compiled out (`const INLINE: bool = false`, pinned below) the optimiser is
RecognizeUnnecessaryAllocation + dead-code elimination, and the only thing that protects an effect from removal is
that the dependency graph *pins* the enclosing bindings when it meets a call.
R10a  pinning is total over calls: from the `Expr::Call` arm of DepGraph::visit_expr every path to a return passes
      the pinning loop, unless it passed the test that the callee is an identifier starting with `#` (a built-in
      arithmetic operation — the one exemption the property grants).
R10b  every removal in the eliminator is decided by the used set (the dropping returns are reachable only over the
      not-used edge of an `is_used` test).
R10c  RecognizeUnnecessaryAllocation re-binds every field expression (no filtering adaptor in the fold; each
      `let` gets the field's own expression).
Not decided: semantic equivalence in general; order of host calls."""
from . import flow
from .common import enum_switches, variant_index
from .facts import op_place, op_const

CRATES = {"gluon_vm"}
THOROUGH_CONFIGS = ["default", "nodefault"]  # thorough also analyses the default-feature and the no-default-features builds
EXPR = "gluon_vm::core::Expr"


def _is_used_switch_edges(fb, b):
    """edges (bb, target) taken when the used-set test says *not used*"""
    out = set()
    any_closures = set()
    for nb in fb.closures_of(b.id):
        if any(c.res.endswith("::is_used") for c in nb.calls()):
            any_closures.add(nb.id)
    for bb, srcs, true_t, false_t in flow.bool_switches(b):
        direct = flow.has_call(srcs, lambda n: n.endswith("::is_used"))
        via_any = flow.has_call(srcs, lambda n: n.endswith("Iterator::any") or n.endswith("::any")) and \
            any(s[0] == "closure" and s[1] in any_closures for s in srcs)
        if direct or via_any:
            negated = ("op", "Not") in srcs
            out.add((bb, true_t if negated else false_t))
    return out


def r10a(fb, rep):
    R = "R10a"
    rep.rule(R, "every call pins its enclosing bindings against dead-code elimination (except `#` built-ins)")
    b = fb.body("<gluon_vm::core::dead_code::DepGraph<'e> as gluon_vm::core::optimize::Visitor<'e, 'e>>::visit_expr")
    if b is None:
        cands = [x for x in fb.bodies.values() if "dead_code::DepGraph" in x.id and x.id.endswith("::visit_expr")]
        b = cands[0] if len(cands) == 1 else None
    if b is None:
        rep.anchor_lost(R, "DepGraph's Visitor::visit_expr")
        return
    ci = variant_index(fb, EXPR, "Call")
    sw = [(i, m, o) for i, m, o in enum_switches(b, EXPR) if len(m) >= 3]
    if ci is None or not sw:
        rep.anchor_lost(R, "match on core::Expr in DepGraph::visit_expr")
        return
    sw_bb, m, other = sw[0]
    T = m.get(ci)
    if T is None or T == other:
        rep.violation(R, "call-arm-missing", "DepGraph::visit_expr has no arm for Expr::Call: no call is pinned", b.where())
        return
    region = b.reachable(T)
    # pin region: loops (SCCs) reachable from the Call arm that contain Graph::add_edge
    pin = set()
    for comp in b.sccs():
        if comp & region and any(c.bb in comp and c.res.endswith("Graph::<N, E, Ty, Ix>::add_edge") for c in b.calls()):
            pin |= comp
    if not pin:
        rep.violation(R, "no-pin-loop", "the Expr::Call arm contains no loop adding edges between the enclosing scopes", b.where())
        return
    # exemption edge: `name.starts_with('#')` evaluated to true
    exempt_edges = set()
    for bb, srcs, true_t, false_t in flow.bool_switches(b):
        if bb in region and flow.has_call(srcs, lambda n: "starts_with" in n) and ("const", 35) in srcs:
            negated = ("op", "Not") in srcs
            exempt_edges.add((bb, false_t if negated else true_t))
    if not exempt_edges:
        rep.exception(R, "no-#-test", "no built-in exemption test found: every call must be pinned")
    rets = set(b.return_blocks())
    escaped = b.reachable_threaded(T, avoid_blocks=pin, avoid_edges=exempt_edges) & rets
    if escaped:
        # describe which callee shapes escape: the nested switch on the callee's discriminant
        ii = variant_index(fb, EXPR, "Ident")
        shapes = []
        for i, mm, oo in enum_switches(b, EXPR):
            if i in region and i != sw_bb:
                if ii in mm and oo in b.reachable_threaded(oo, avoid_blocks=pin, avoid_edges=exempt_edges):
                    shapes.append("callee that is not an identifier (record projection `m.f x`, applied lambda, ...)")
        rep.violation(R, "call-unpinned|%s" % ("non-ident-callee" if shapes else "path"),
                      "DepGraph::visit_expr: a call can be visited without pinning its enclosing bindings%s — dead-code elimination may drop `let _ = <call>`" % (
                          (": " + shapes[0]) if shapes else ""), b.where(), path=sorted(escaped))
    else:
        rep.ok(R, "DepGraph::visit_expr: from the Expr::Call arm every path to return passes the pinning loop or the `#` built-in test")
    # the pinning walks outwards over enclosing *expression* bindings and the arm still walks the call's children
    walks = [c for c in b.calls() if c.bb in region and c.res.endswith("optimize::walk_expr")]
    if walks:
        rep.ok(R, "the Call arm still visits the call's sub-expressions (walk_expr)")
    else:
        rep.violation(R, "call-children-unvisited", "the Call arm no longer walks the call's sub-expressions", b.where())


def r10b(fb, rep):
    R = "R10b"
    rep.rule(R, "every removal site of the eliminator is reached only over the not-used edge of a used-set test")
    cands = [x for x in fb.bodies.values() if "dead_code::dead_code_elimination" in x.id and x.id.endswith("::visit_expr")]
    if len(cands) != 1:
        rep.anchor_lost(R, "DeadCodeEliminator::visit_expr")
        return
    b = cands[0]
    keep_calls = {c.bb for c in b.calls() if c.res.endswith("merge::merge") or c.res.endswith("optimize::walk_expr_alloc")
                  or c.res.endswith("::walk_closures")}
    notused = _is_used_switch_edges(fb, b)
    rep.floor(R, "used-set tests in the eliminator", len(notused), 2)
    rets = set(b.return_blocks())
    free_drop = b.reachable_threaded(0, avoid_blocks=keep_calls, avoid_edges=notused) & rets
    if free_drop:
        rep.violation(R, "removal-without-used-test", "the eliminator can return a rewritten expression that drops a sub-expression without consulting the used set", b.where(), path=sorted(free_drop))
    else:
        rep.ok(R, "all dropping returns of the eliminator lie behind a not-used edge (%d tests)" % len(notused))
    # and conversely: behind each not-used edge nothing is kept by accident is not a safety matter; skip
    # the used set handed to the eliminator is DepGraph::used_bindings of the same expression
    opt = fb.body("gluon_vm::core::optimize::optimize")
    if opt is None:
        rep.anchor_lost(R, "core::optimize::optimize")
        return
    dce = [c for c in opt.calls() if c.res.endswith("dead_code::dead_code_elimination")]
    ub = [c for c in opt.calls() if c.res.endswith("DepGraph::<'a>::used_bindings")]
    ok = bool(dce) and bool(ub)
    for d in dce:
        us = flow.sources(opt, d.args[0])
        if not flow.has_call(us, lambda n: n.endswith("DepGraph::<'a>::used_bindings")):
            ok = False
    # same expression: the expr handed to used_bindings and to the elimination have the same sources
    if ok and dce and ub:
        e1 = {s for s in flow.sources(opt, ub[0].args[1]) if s[0] == "call"}
        e2 = {s for s in flow.sources(opt, dce[0].args[2]) if s[0] == "call"}
        if e1 != e2:
            ok = False
    if ok:
        rep.ok(R, "optimize(): dead_code_elimination(used_bindings(expr), expr) on the same expression")
    else:
        rep.violation(R, "used-set-mismatch", "optimize() eliminates with a used set that was not computed from the same expression", opt.where())
    inl = fb.body("gluon_vm::core::optimize::optimize::INLINE")
    if inl is None:
        rep.anchor_lost(R, "const INLINE in core::optimize::optimize")
    else:
        val = None
        for i, j, place, rv, line in inl.assigns():
            if place == [0, []] and rv[0] == "use":
                k = op_const(rv[1])
                if k is not None and "int" in k:
                    val = k["int"]
        if val == 0:
            rep.ok(R, "const INLINE = false: the inliner/interpreter pass is compiled out, E10 covers the whole optimiser")
        else:
            rep.violation(R, "inliner-enabled", "anchor changed — the inliner is enabled (INLINE != false); E10 does not cover it, claim withdrawn", inl.where())


def r10c(fb, rep):
    R = "R10c"
    rep.rule(R, "RecognizeUnnecessaryAllocation re-binds every field expression")
    cands = [x for x in fb.bodies.values() if "RecognizeUnnecessaryAllocation" in x.id and x.id.endswith("::visit_expr")]
    if len(cands) != 1:
        rep.anchor_lost(R, "RecognizeUnnecessaryAllocation::visit_expr")
        return
    b = cands[0]
    bad = [c for c in b.calls() if c.fn and c.fn.startswith("core::iter::traits::iterator::Iterator::") and
           c.fn.rsplit("::", 1)[1] in ("filter", "filter_map", "take", "skip", "step_by", "take_while", "skip_while", "nth", "last")]
    folds = [c for c in b.calls() if c.fn and c.fn.endswith("Iterator::fold")]
    zips = [c for c in b.calls() if c.fn and c.fn.endswith("Iterator::zip")]
    # ... in declaration order: the lets are built inside-out by one fold over the reversed field list; anything that permutes the
    # list (sort*, reverse, swap, rotate) changes the order in which the field initialisers (and their calls) run
    perm = [c for c in b.calls() if any(c.res.endswith(x) or ("::" + x + "::") in c.res or c.res.rsplit("::", 1)[1].startswith(x) for x in
                                        ("sort", "reverse", "swap", "rotate_left", "rotate_right", "select_nth", "shuffle"))
            and ("slice::<impl [T]>" in c.res or "Vec::<T" in c.res or "VecDeque" in c.res)]
    revs = [c for c in b.calls() if c.fn and c.fn.endswith("Iterator::rev")]
    if bad:
        rep.violation(R, "fields-filtered", "the field re-binding drops fields: %s" % bad[0].fn, bad[0].where())
    elif perm or len(revs) != 1:
        rep.violation(R, "fields-reordered", "the field re-binding does not keep the declaration order of the record's fields (%s): the initialisers of a literal that is "
                      "projected directly would run in another order than without optimisation" % ([c.res.rsplit("::", 2)[-1] for c in perm] or "rev() x %d" % len(revs)),
                      (perm[0] if perm else b).where())
    elif folds and zips:
        rep.ok(R, "row_iter().zip(exprs) ... fold(make_let): no filtering adaptor")
    else:
        rep.violation(R, "rebind-shape", "the fold over all record fields is gone", b.where())
    mk = fb.body(b.id + "::make_let")
    if mk is None:
        rep.anchor_lost(R, "make_let")
        return
    ok = False
    build = set()
    for i, j, place, rv, line in mk.assigns():
        if rv[0] == "agg" and rv[1][0] == "adt" and rv[1][1] == "gluon_vm::core::Named" and rv[1][2] == "Expr":
            if ("arg", 5) in flow.sources(mk, rv[2][0]):
                ok = True
                build.add(i)
    if ok:
        rep.ok(R, "make_let binds Named::Expr(<the field's own expression>)")
    else:
        rep.violation(R, "make-let-expr", "make_let no longer binds the field's expression", mk.where())
        return
    # ... on every path: a return that bypasses the binding drops the field's expression (and the calls in it)
    lets = set(flow.blocks_constructing(mk, "gluon_vm::core::Expr", "Let"))
    skip = mk.reachable(0, avoid_blocks=build) & set(mk.return_blocks())
    skip_let = mk.reachable(0, avoid_blocks=lets) & set(mk.return_blocks()) if lets else set(mk.return_blocks())
    if skip or skip_let:
        rep.violation(R, "make-let-skips-field", "make_let can return without binding the field's expression in a new Expr::Let: a field the "
                      "pattern does not name would be dropped together with the calls in its initialiser", mk.where(), path=sorted(skip | skip_let))
    else:
        rep.ok(R, "make_let: every return passes the construction of Expr::Let(Named::Expr(field expr), next)")


def run(fb, rep, tier, cfg):
    rep.explanation = (
        "Static analysis of gluon_vm's MIR. R10a: in DepGraph::visit_expr, from the switch edge of variant Expr::Call every "
        "(bool-threaded) path to a return passes the loop that adds edges between the enclosing scopes, unless it took the true "
        "edge of `name.starts_with('#')`; R10b: the eliminator's dropping returns are reachable only over not-used edges of "
        "is_used tests, the used set comes from DepGraph::used_bindings of the same expression, and INLINE is false; R10c: the "
        "allocation-removal rewrite re-binds every field. This is the necessary condition 'no effectful call is unpinned'; "
        "semantic equivalence of the optimised program in general is not decided.")
    rep.assumptions += ["only calls (and pattern-match failures, which DepGraph pins separately) can have effects in core IR",
                        "bool threading follows constant-assigned merge locals only"]
    r10a(fb, rep)
    r10b(fb, rep)
    r10c(fb, rep)
    r10d(fb, rep)


def r10d(fb, rep):
    """R10d — only closures stop the pinning walk.  `DepGraph` pins an effectful call to its enclosing *expression* bindings up to
    the nearest `BindType::Closure` scope (a closure's body runs when it is called, not where it is bound).  Rule: in
    `DepGraph::visit_expr` the scope entered for a `Named::Expr` binding always carries the constant `BindType::Expr`; only the
    `Named::Recursive` arm (closures) enters `BindType::Closure` scopes.  A `Named::Expr` binding classified as a closure — for
    instance because its value *starts* with a local function definition — is never pinned, and `let _ = <block with a call>`
    is dropped together with its host calls."""
    R = "R10d"
    rep.rule(R, "expression bindings are entered as BindType::Expr scopes; only closures stop the pinning walk")
    b = fb.body("<gluon_vm::core::dead_code::DepGraph<'e> as gluon_vm::core::optimize::Visitor<'e, 'e>>::visit_expr")
    if b is None:
        rep.anchor_lost(R, "DepGraph's Visitor::visit_expr")
        return
    NAMED = "gluon_vm::core::Named"
    BT = "gluon_vm::core::dead_code::BindType"
    ei, ri = variant_index(fb, NAMED, "Expr"), variant_index(fb, NAMED, "Recursive")
    sw = [(i, m, o) for i, m, o in enum_switches(b, NAMED)]
    if ei is None or ri is None or not sw:
        rep.anchor_lost(R, "match on core::Named in DepGraph::visit_expr")
        return
    n = 0
    for sw_bb, m, other in sw:
        te, tr = m.get(ei, other), m.get(ri, other)
        if te is None or tr is None or te == tr:
            continue
        region = b.reachable(te, avoid_blocks=[sw_bb]) - b.reachable(tr, avoid_blocks=[sw_bb])
        for c in b.calls():
            if c.bb in region and (c.res.endswith("DepGraph::<'a>::scope") or c.res.endswith("DepGraph::<'a>::scope_idx")) and len(c.args) >= 3:
                n += 1
                src = flow.sources(b, c.args[2], depth=10)
                kinds = {s[2] for s in src if s[0] == "agg" and len(s) >= 3 and s[1] == BT}
                other_src = [s for s in src if s[0] in ("call", "arg", "field")]
                if kinds == {"Expr"} and not other_src:
                    rep.ok(R, "visit_expr: a Named::Expr binding is entered as a BindType::Expr scope")
                else:
                    rep.violation(R, "expr-binding-entered-as-%s" % ("closure" if "Closure" in kinds else "computed-kind"), "DepGraph::visit_expr enters the scope of a Named::Expr binding with a bind type that is "
                                  "not the constant BindType::Expr (%s): calls inside such a binding are not pinned and dead-code elimination may drop them" % (sorted(kinds) or "computed"), c.where())
    rep.floor(R, "scopes entered for Named::Expr bindings", n, 1)
