"""E3g — two host-side panic sites that scripts can reach outside the primitive barrier (C06).

(1) Waker vtables.  `Function::call` polls the VM once with a hand-made waker (`block_on_sync`).  A Gluon function that
    suspends (`yield`, waiting for another thread) wakes the waker before it returns `Pending`; a vtable entry that panics
    (`unreachable!()`) turns that into a host panic in the middle of the call.  Rule: no function stored in a `RawWakerVTable`
    of the workspace (the closures of a `static VTABLE` whose type is `RawWakerVTable`) contains an unconditional panic.
(2) `Drop for Thread` removes the thread from its parent's slab.  `Thread::new_thread` builds the `Thread` with the sentinel
    index `usize::MAX` and registers it only after it was allocated; when the allocation fails (memory limit) the unregistered
    value is dropped and `Slab::remove(usize::MAX)` panics while the parent's context is locked — the context is poisoned and,
    inside the `new_thread` primitive, the re-lock behind the barrier aborts the process.  Rule (contradiction form): the field is
    initialised with a sentinel in `new_thread`, so its use as a key in `drop` must lie behind a comparison of the field with a
    constant whose "equal" edge avoids the removal."""
from . import flow
from .facts import op_place


def run(fb, rep):
    R = "E3g"
    rep.rule(R, "hand-made waker vtables do not panic; Drop for Thread does not remove an unregistered thread")
    # (1)
    n = 0
    for bid, b in sorted(fb.bodies.items()):
        if "::VTABLE::{closure#" not in bid or b.crate.name not in ("gluon_vm", "gluon"):
            continue
        root = bid.split("::{closure")[0]
        rb = fb.body(root)
        n += 1
        panics = [c for c in b.calls() if c.res.startswith("core::panicking::") and c.target is None]
        if panics:
            rep.violation(R, "waker-vtable-panics|%s" % bid.replace("gluon_vm::", ""), "%s (an entry of a RawWakerVTable) panics unconditionally: a future that wakes its waker before returning "
                          "Pending (yield, a cross-thread wait) panics in the host" % bid, panics[0].where())
        else:
            rep.ok(R, "%s: no panic" % bid)
    rep.floor(R, "waker vtable entries examined", n, 4)
    # (2)
    d = fb.body("<gluon_vm::thread::Thread as core::ops::drop::Drop>::drop")
    nt = fb.body("gluon_vm::thread::Thread::new_thread")
    if d is None or nt is None:
        rep.anchor_lost(R, "Drop for Thread / Thread::new_thread")
        return
    TH = "gluon_vm::thread::Thread"
    # does new_thread initialise thread_index with a constant (sentinel)?
    sentinel = False
    a = fb.adts.get(TH)
    names = [f["name"] for f in a["variants"][0]["fields"]] if a else []
    for i, j, pl, rv, ln in nt.assigns():
        if rv[0] == "agg" and rv[1][0] == "adt" and rv[1][1] == TH and "thread_index" in names:
            src = flow.sources(nt, rv[2][names.index("thread_index")], depth=8)
            if any(s[0] == "const" for s in src) or flow.has_call(src, lambda x: x.endswith("max_value")):
                sentinel = True
    rem = [c for c in d.calls() if c.res.startswith("slab::Slab::<T>::") and c.res.rsplit("::", 1)[-1] in ("remove", "try_remove")]
    if not rem:
        rep.anchor_lost(R, "the removal from the parent's slab in Drop for Thread")
        return
    if not sentinel:
        rep.ok(R, "Thread::new_thread no longer builds the thread with a sentinel index")
        return
    ok = False
    for c in rem:
        if c.res.endswith("::try_remove"):
            ok = True
            continue
        for bb, lhs, rhs, opn, true_t, false_t in _cmp(d):
            if ("field", TH, "thread_index") in lhs | rhs and (any(s[0] == "const" for s in lhs | rhs) or flow.has_call(lhs | rhs, lambda x: x.endswith("max_value"))):
                differ = true_t if opn == "Ne" else false_t
                if flow.only_via_edge(d, c.bb, (bb, differ)):
                    ok = True
    if ok:
        rep.ok(R, "Drop for Thread removes the thread from its parent only when its index is not the sentinel new_thread starts with")
    else:
        rep.violation(R, "drop-removes-unregistered-thread", "Thread::new_thread builds the thread with a sentinel thread_index and registers it only after a fallible allocation, but Drop for "
                      "Thread uses the index as a slab key unconditionally: when the allocation fails (memory limit) the drop panics with the parent's context locked", rem[0].where())


def _cmp(b):
    """(bb, sources(lhs), sources(rhs), op, true_target, false_target) for switches on an Eq/Ne comparison"""
    out = []
    for i, blk in enumerate(b.blocks):
        t = blk["t"]
        if t[0] != "switch":
            continue
        p = op_place(t[1])
        if p is None or p[1]:
            continue
        for dfn in b.defs_of(p[0]):
            if dfn[0] == "assign" and dfn[3][0] == "bin" and dfn[3][1] in ("Eq", "Ne"):
                tg = dict((v, x) for v, x in t[2])
                false_t = tg.get(0, t[3])
                true_t = t[3] if 0 in tg else tg.get(1)
                out.append((i, flow.sources(b, dfn[3][2], depth=6), flow.sources(b, dfn[3][3], depth=6), dfn[3][1], true_t, false_t))
    return out


def script_sized_allocations(fb, rep):
    """E3i — a primitive never sizes an allocation directly by one of its integer arguments.  An allocation failure is not a
    panic: `handle_alloc_error` aborts the process, the barrier of E3a cannot contain it (`io.read_file file 1152921504606846976`).
    Rule: in the standard-library primitives (`src/std_lib/*`, `vm/src/primitives.rs`) the size operand of `Vec::with_capacity`,
    `vec![x; n]`, `reserve*`, `resize`, `String::with_capacity`, `str::repeat` must not flow from a function argument unless a
    `min` (a clamp) lies on the way."""
    R = "E3i"
    rep.rule(R, "std-library primitives do not size an allocation by a script-supplied integer without clamping it")
    SZ = ("::with_capacity", "vec::from_elem", "::reserve", "::reserve_exact", "::resize", "::repeat")
    n = n_arg = 0
    for b in fb.bodies.values():
        if b.crate.name not in ("gluon_vm", "gluon") or "::tests::" in b.id or b.kind == "promoted":
            continue
        if not ("/std_lib/" in b.file or b.file.endswith("vm/src/primitives.rs")):
            continue
        n += 1
        for c in b.calls():
            if not any(c.res.endswith(x) for x in SZ) or not ("alloc::" in c.res or "vec::" in c.res or "string::" in c.res or "str::" in c.res):
                continue
            for a in c.args:
                if a[0] not in ("c", "m") or b.local_tstr(a[1][0]) not in ("usize", "u64", "i64", "isize", "u32"):
                    continue
                src = flow.sources(b, a, depth=12)
                if not any(s[0] == "arg" for s in src):
                    continue
                n_arg += 1
                if flow.has_call(src, lambda x: x.endswith("::min") or x.endswith("::clamp")):
                    rep.ok(R, "%s: the size handed to %s is clamped" % (b.id, c.res.rsplit("::", 1)[-1]))
                else:
                    rep.violation(R, "allocation-sized-by-argument|%s" % b.id, "%s sizes an allocation (%s) directly by one of its arguments: a huge value aborts the process in the "
                                  "allocator instead of failing the call" % (b.id, c.res.rsplit("::", 2)[-2] + "::" + c.res.rsplit("::", 1)[-1]), c.where())
    rep.floor(R, "std-library primitive bodies examined", n, 500)
