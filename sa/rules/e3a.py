"""E3a — panic containment at the `extern "C"` primitive boundary (C06).

Every primitive is an `extern "C" fn(&Thread) -> Status`; a Rust panic cannot unwind out of such a frame (the process
aborts). The rule therefore is a *barrier* rule:
R3a-1  in every `VmFunction::unpack_and_call` instance the call of the primitive's target (the indirect call of `self`)
       lies inside a closure that is handed to `std::panic::catch_unwind`; the body outside the closure does not call it.
R3a-2  every `extern "C" fn(&Thread) -> Status` of the library crates reaches its target only through
       `VmFunction::unpack_and_call` (the `primitive!` wrapper) or is a reviewed hand-written primitive.
R3a-3  the code that runs *outside* the barrier inside such a frame (argument marshalling in unpack_and_call, the
       hand-written primitives) has no unconditional panic site (unwrap / expect / panic! / index / arithmetic assert)
       beyond a reviewed table.
Not decided: panics while an asynchronous primitive's future is polled (that happens outside the extern "C" frame and
unwinds to the host as an ordinary Rust panic); allocation failure."""
import re

from . import flow
from .common import table
from .facts import op_place

VMF = "gluon_vm::api::function::VmFunction"


def _is_user_call(b, c, self_local=1):
    """indirect call of `self` (fn pointer) or Fn/FnMut/FnOnce::call on something derived from self"""
    if c.is_ptr():
        srcs = flow.sources(b, c.desc["ptr"], depth=8)
        return ("arg", self_local) in srcs or any(s[0] == "field" for s in srcs) or True
    if c.fn and c.fn.startswith("core::ops::function::Fn") and c.args:
        return True
    return False


def _norm(fid):
    fid = re.sub(r"fn\([A-Z, ]*\) -> (R|gluon_vm::api::IO<R>)", "fn(..) -> R", fid)
    fid = re.sub(r"Fn\([A-Z, ]*\) -> (R|gluon_vm::api::IO<R>)", "Fn(..) -> R", fid)
    return fid


def _panic_sites(fb, b, skip_blocks=()):
    """yield (kind, detail, where) for unconditional panic sites of body b"""
    for i, blk in enumerate(b.blocks):
        if i in skip_blocks or blk.get("cl"):
            continue
        t = blk["t"]
        if t[0] == "assert":
            yield (t[3][0] + ("(%s)" % t[3][1] if t[3][0] == "Overflow" else ""), "", "%s:%s" % (b.file, t[6]))
        elif t[0] == "call":
            nm = (t[1].get("res") or t[1].get("fn") or "")
            if nm.endswith("Option::<T>::unwrap") or nm.endswith("Result::<T, E>::unwrap"):
                at = b.local_tstr(t[2][0][1][0]) if t[2] and t[2][0][0] in ("c", "m") else ""
                if "PoisonError" in at:
                    continue  # lock poisoning: only after an earlier panic
                yield ("unwrap", at[:70], "%s:%s" % (b.file, t[6]))
            elif nm.endswith("::expect") and ("Option" in nm or "Result" in nm):
                yield ("expect", "", "%s:%s" % (b.file, t[6]))
            elif nm.startswith("core::panicking::") and t[4] is None:
                yield ("panic", nm.rsplit("::", 1)[1], "%s:%s" % (b.file, t[6]))


def run(fb, rep, tier="quick"):
    R = "E3a"
    rep.rule(R, "panic containment: primitive targets run inside catch_unwind; code outside the barrier has no unreviewed panic site")
    reviewed = {e["site"]: e["reason"] for e in table("primitive_boundary_reviewed.json")["reviewed"]}
    hand_ok = {e["fn"]: e["reason"] for e in table("primitive_boundary_reviewed.json")["hand_written"]}
    # ---------------------------------------------------------------- R3a-1
    ups = [b for b in fb.bodies.values() if b.get("impl_trait") == VMF and b.get("name") == "unpack_and_call"]
    rep.floor(R, "VmFunction::unpack_and_call instances", len(ups), 16)
    n_barrier = 0
    for b in ups:
        calls = b.calls()
        forwards = [c for c in calls if c.fn == VMF + "::unpack_and_call"]
        outer_user = [c for c in calls if _is_user_call(b, c)]
        cu = [c for c in calls if c.res == "std::panic::catch_unwind" or c.res.endswith("panic::catch_unwind")]
        if forwards and not outer_user:
            rep.ok(R, "%s forwards to the inner VmFunction" % _norm(b.id))
            continue
        if outer_user:
            rep.violation(R, "target-outside-barrier|%s" % _norm(b.id),
                          "%s calls the primitive's target outside std::panic::catch_unwind: a panic in any primitive aborts the process" % b.id, outer_user[0].where())
            continue
        # the user call must be in a closure that flows into catch_unwind
        inside = False
        for cb in fb.closures_of(b.id):
            if any(_is_user_call(cb, c) for c in cb.calls()):
                for c in cu:
                    srcs = set()
                    for a in c.args:
                        srcs |= flow.sources(b, a, depth=8)
                    if ("closure", cb.id) in srcs:
                        inside = True
        if inside:
            n_barrier += 1
            rep.ok(R, "%s: the target is called inside the closure passed to catch_unwind" % _norm(b.id))
        else:
            rep.violation(R, "no-barrier|%s" % _norm(b.id), "%s never calls its target inside catch_unwind" % b.id, b.where())
        # the Err(payload) result of catch_unwind is turned into Status::Error (not re-raised)
        if cu:
            res = [c for c in calls if c.res.endswith("panic::resume_unwind") or c.res.endswith("::unwrap") and "Box<dyn core::any::Any" in (b.local_tstr(c.args[0][1][0]) if c.args and c.args[0][0] in ("c", "m") else "")]
            if res:
                rep.violation(R, "barrier-rethrows|%s" % _norm(b.id), "%s re-raises the caught panic" % b.id, res[0].where())
        # R3a-3 census outside the closure
        for kind, detail, where in _panic_sites(fb, b):
            key = "%s|%s" % (_norm(b.id).split(" as ")[0].lstrip("<") if False else "unpack_and_call", kind)
            if key in reviewed:
                rep.exception(R, key, reviewed[key])
            else:
                rep.violation(R, "unreviewed-panic-site|%s" % key, "marshalling code outside the barrier can panic (%s %s) in %s" % (kind, detail, b.id), where)
    rep.floor(R, "unpack_and_call instances with the barrier", n_barrier, 14)
    # ---------------------------------------------------------------- R3a-2
    ext = [b for b in fb.bodies.values() if (b.get("abi") or "").startswith("C") and b.crate.name in ("gluon_vm", "gluon", "gluon_repl")
           and "gluon_vm::thread::Thread) -> gluon_vm::thread::Status" in (b.get("sig") or "")]
    rep.floor(R, "extern \"C\" fn(&Thread) -> Status in the library crates", len(ext), 270)
    n_wrap = 0
    for b in ext:
        calls = b.calls()
        if any(c.fn == VMF + "::unpack_and_call" for c in calls) and all(
                c.fn == VMF + "::unpack_and_call" or c.res.startswith("core::") or c.res.startswith("<") and "unpack_and_call" in c.res for c in calls):
            n_wrap += 1
            rep.ok(R, None)
            continue
        if any(c.fn == VMF + "::unpack_and_call" for c in calls):
            n_wrap += 1
            rep.ok(R, None)
            continue
        key = b.id
        if key not in hand_ok:
            rep.violation(R, "hand-written-extern|%s" % key, "%s is an extern \"C\" primitive that does not go through unpack_and_call (no panic barrier) and is not reviewed" % key, b.where())
            continue
        rep.exception(R, key, hand_ok[key])
        for kind, detail, where in _panic_sites(fb, b):
            k2 = "%s|%s" % (key, kind)
            if k2 in reviewed:
                rep.exception(R, k2, reviewed[k2])
            else:
                rep.violation(R, "unreviewed-panic-site|%s" % k2, "hand-written primitive %s can panic (%s %s) outside any barrier" % (key, kind, detail), where)
    rep.ok(R, "%d primitive! wrappers only call VmFunction::unpack_and_call" % n_wrap)
    rep.floor(R, "primitive! wrappers", n_wrap, 270)
