"""E5 — lock-order graph (C14).

Lock class = (owner ADT, field) of the mutex/rwlock being locked, recovered from the receiver of the lock call; when the
owner is not visible (guard received as a parameter) the class is recovered from the guard's payload type when that payload
is unique to one lock field of the workspace.
Held set = live locals whose type owns a lock guard (driver marker), by a forward may-dataflow (gen at assignment, kill at
drop / StorageDead / whole-value move).  Function summaries: may-acquire (transitive over resolved calls), returns-holding.
Edge A -> B for every site that may acquire B while A is held.  Violation = a cycle in the class graph that is not covered by
a reasoned instance order in tables/lock_instance_order.json."""
from collections import defaultdict

from . import flow
from .common import table
from .facts import op_place, Call

GUARD_MARKERS = ["std::sync::poison::mutex::MutexGuard", "std::sync::poison::rwlock::RwLockReadGuard",
                 "std::sync::poison::rwlock::RwLockWriteGuard", "lock_api::mutex::MutexGuard", "lock_api::rwlock::RwLockReadGuard",
                 "lock_api::rwlock::RwLockWriteGuard", "gluon_vm::gc::mutex::MutexGuard", "futures_util::lock::mutex::MutexGuard"]
LOCK_ADTS = ("std::sync::poison::mutex::Mutex", "std::sync::poison::rwlock::RwLock", "lock_api::mutex::Mutex", "lock_api::rwlock::RwLock",
             "gluon_vm::gc::mutex::Mutex", "futures_util::lock::mutex::Mutex")
ACQUIRE = {
    "std::sync::poison::mutex::Mutex::<T>::lock": "w", "std::sync::poison::mutex::Mutex::<T>::try_lock": "t",
    "std::sync::poison::rwlock::RwLock::<T>::read": "r", "std::sync::poison::rwlock::RwLock::<T>::write": "w",
    "std::sync::poison::rwlock::RwLock::<T>::try_read": "t", "std::sync::poison::rwlock::RwLock::<T>::try_write": "t",
    "lock_api::mutex::Mutex::<R, T>::lock": "w", "lock_api::rwlock::RwLock::<R, T>::read": "r", "lock_api::rwlock::RwLock::<R, T>::write": "w",
    "lock_api::rwlock::RwLock::<R, T>::upgradable_read": "r", "gluon_vm::gc::mutex::Mutex::<T>::lock": "w",
    "futures_util::lock::mutex::Mutex::<T>::lock": "w",
}
CRATES = {"gluon_vm", "gluon"}


class Locks:
    def __init__(self, fb):
        self.fb = fb
        self.pool = {}
        for b in fb.bodies.values():
            if b.kind != "coroutine_post" and b.crate.name in CRATES:
                self.pool[b.id] = b
        for bid, b in fb.pre.items():
            if b.crate.name in CRATES:
                self.pool[bid] = b
        # lock fields of the workspace: payload type string -> [(adt, field)]
        self.fields = {}
        self.shared = {}
        self.by_payload = defaultdict(list)
        for p, a in fb.adts.items():
            types = a["_crate"].types
            for v in a["variants"]:
                for f in v["fields"]:
                    row = types[f["ty"]]
                    r = row
                    # Arc<Mutex<T>>, Option<Mutex<T>> ...
                    for _ in range(3):
                        if r.get("k") == "adt" and r["adt"] in LOCK_ADTS:
                            break
                        if r.get("k") == "adt" and r.get("c"):
                            r = types[r["c"][0]] if r["adt"].startswith(("alloc::sync::Arc", "core::option::Option", "alloc::boxed::Box")) else r  # first generic argument (the last one is the allocator)
                            if r is row:
                                break
                        else:
                            break
                    if r.get("k") == "adt" and r["adt"] in LOCK_ADTS:
                        payload = types[r["c"][-1]]["s"] if r.get("c") else "?"
                        self.fields[(p, f["name"])] = payload
                        self.by_payload[payload].append((p, f["name"]))
                        if row.get("k") == "adt" and row["adt"].startswith("alloc::sync::Arc"):
                            # an Arc'd lock can be one object behind several fields (Sender.queue / Receiver.queue)
                            self.shared.setdefault(payload, set()).add("%s.%s" % (p.rsplit("::", 1)[1], f["name"]))
        self._guard_idx = {}
        self._classes_cache = {}
        self.raw = []         # (body, held local, class A, acquiring call, class B, via)
        self.direct = {}      # body id -> [(Call, class, mode)]
        self.summ_acq = {}    # body id -> set(class)
        self.ret_hold = {}    # body id -> set(class)

    # ------------------------------------------------------------------ helpers
    def is_guard_ty(self, body, row, own=True):
        ms = body.crate.markers
        key = "mo" if own else "ma"
        have = row.get(key, [])
        return any(m in ms and ms.index(m) in have for m in GUARD_MARKERS)

    def payload_classes_of_row(self, body, row, depth=0, seen=None):
        """lock classes of the guards a value of this type owns, via the guard's payload type (unique payload -> field)"""
        out = set()
        if depth > 5:
            return out
        if row.get("k") == "adt":
            if row["adt"] in GUARD_MARKERS:
                payload = body.types[row["c"][-1]]["s"] if row.get("c") else "?"
                fs = self.by_payload.get(payload, [])
                if len(fs) == 1:
                    out.add("%s.%s" % (fs[0][0].rsplit("::", 1)[1], fs[0][1]))
                else:
                    out.add("<%s>" % payload)
                return out
            a = self.fb.adts.get(row["adt"])
            if a is not None:
                types = a["_crate"].types

                class _B:  # minimal body-like view over the ADT's crate types
                    pass
                vb = _B()
                vb.types = types
                for v in a["variants"]:
                    for f in v["fields"]:
                        out |= self.payload_classes_of_row(vb, types[f["ty"]], depth + 1)
        for c in row.get("c", []):
            out |= self.payload_classes_of_row(body, body.types[c], depth + 1)
        return out

    def payload_class(self, tstr):
        """class from a guard type string, via unique payload"""
        import re
        m = re.search(r"Guard<(?:'[a-z_]+, )?(?:[a-z_:A-Z]+RawMutex, |[a-z_:A-Z]+RawRwLock, )?(.*)>", tstr)
        cands = []
        for payload, fs in self.by_payload.items():
            if ("Guard<'_, %s>" % payload) in tstr or ("Guard<'a, %s>" % payload) in tstr or ("Guard<'b, %s>" % payload) in tstr \
                    or ("Guard<'vm, %s>" % payload) in tstr or ("Guard<'static, %s>" % payload) in tstr or (", %s>" % payload) in tstr and "Guard<" in tstr:
                cands += fs
        cands = sorted(set(cands))
        if len(cands) == 1:
            return "%s.%s" % (cands[0][0].rsplit("::", 1)[1], cands[0][1])
        return None

    def class_of_receiver(self, body, op):
        srcs = flow.sources(body, op, depth=14)
        fs = [(s[1], s[2]) for s in srcs if s[0] == "field" and (s[1], s[2]) in self.fields]
        if fs:
            fs = sorted(set(fs))
            # innermost lock field: prefer the one whose payload type is not itself an owner of another candidate
            return ["%s.%s" % (a.rsplit("::", 1)[1], f) for a, f in fs]
        # receiver is a parameter / local mutex: class by its type
        p = op_place(op)
        if p is not None:
            row = body.strip_refs(body.local_ty(p[0]))
            if row.get("k") == "adt" and row["adt"] in LOCK_ADTS:
                payload = body.types[row["c"][-1]]["s"] if row.get("c") else "?"
                fsx = self.by_payload.get(payload, [])
                if len(fsx) == 1:
                    return ["%s.%s" % (fsx[0][0].rsplit("::", 1)[1], fsx[0][1])]
                return ["<%s>" % payload]
        return ["<unknown>"]

    # ------------------------------------------------------------------ phase 1: direct acquisitions
    def scan(self):
        for bid, b in self.pool.items():
            acc = []
            for c in b.calls():
                mode = ACQUIRE.get(c.res) or ACQUIRE.get(c.fn or "")
                if mode and c.args:
                    for cl in self.class_of_receiver(b, c.args[0]):
                        acc.append((c, cl, mode))
            self.direct[bid] = acc

    # ------------------------------------------------------------------ phase 2: summaries
    def summarise(self):
        names = {bid: {cl for _, cl, mode in acc if mode != "t"} for bid, acc in self.direct.items()}
        callees = {}
        for bid, b in self.pool.items():
            s = set()
            for c in b.calls():
                for n in c.names():
                    if n in self.pool:
                        s.add(n)
                    # async fn call constructs the coroutine whose body is <fn>::{closure#0}
                    if n + "::{closure#0}" in self.pool and self.pool[n + "::{closure#0}"].kind == "coroutine":
                        s.add(n + "::{closure#0}")
            polls_here = b.kind == "coroutine" or any(
                (c.fn or "").endswith("Future::poll") or "block_on" in c.res for c in b.calls())
            for i, j, place, rv, line in b.assigns():
                if rv[0] == "agg" and rv[1][0] == "closure" and rv[1][1] in self.pool:
                    # a closure that is only boxed / stored (poll functions, hooks) does not run here
                    locs = flow.derived_locals(b, place[0]) if not place[1] else {place[0]}
                    users = [c for c in b.calls() if any(op_place(a) is not None and op_place(a)[0] in locs for a in c.args)]
                    stored_only = users and all(any(x in c.res for x in ("Box::<T>::new", "Arc::<T>::new", "Rc::<T>::new", "::push", "::insert", "::from")) for c in users)
                    if not stored_only:
                        s.add(rv[1][1])
                # an `async` block is only *constructed* here; it runs where it is polled
                if rv[0] == "agg" and rv[1][0] == "coroutine" and rv[1][1] in self.pool and polls_here:
                    s.add(rv[1][1])
            callees[bid] = s
        self.callees = callees
        acq = {bid: set(v) for bid, v in names.items()}
        changed = True
        while changed:
            changed = False
            for bid in self.pool:
                for cal in callees[bid]:
                    new = acq[cal] - acq[bid]
                    if new:
                        acq[bid] |= new
                        changed = True
        self.summ_acq = acq
        # returns-holding: the return type owns a guard
        for bid, b in self.pool.items():
            rt = b.local_ty(0)
            if self.is_guard_ty(b, rt, own=True):
                cls = set()
                for c, cl, mode in self.direct[bid]:
                    cls.add(cl)
                if not cls:
                    pc = self.payload_class(rt["s"])
                    if pc:
                        cls.add(pc)
                    for cal in callees[bid]:
                        cls |= self.ret_hold.get(cal, set())
                self.ret_hold[bid] = cls
        # second pass so that wrappers of wrappers resolve
        for _ in range(3):
            for bid, b in self.pool.items():
                if bid in self.ret_hold and not self.ret_hold[bid]:
                    for cal in callees[bid]:
                        self.ret_hold[bid] |= self.ret_hold.get(cal, set())

    # ------------------------------------------------------------------ phase 3: held sets and edges
    def guard_locals(self, b):
        out = {}
        for i, t in enumerate(b.d["locals"]):
            row = b.types[t]
            if self.is_guard_ty(b, row, own=True):
                out[i] = row["s"]
        return out

    def classes_of_local(self, b, l, tstr):
        key = (b.id, l)
        if key in self._classes_cache:
            return self._classes_cache[key]
        cls = set()
        srcs = flow.sources(b, l, depth=14)
        for s in srcs:
            if s[0] == "call":
                if s[1] in ACQUIRE:
                    # find the call to get its receiver
                    for c, cl, mode in self.direct.get(b.id, []):
                        if c.res == s[1] or c.fn == s[1]:
                            if c.dest is not None and (c.dest[0] == l or c.dest[0] in _back_locals(b, l)):
                                cls.add(cl)
                elif s[1] in self.ret_hold:
                    cls |= self.ret_hold[s[1]]
        if not cls:
            cls |= self.payload_classes_of_row(b, b.local_ty(l))
        if not cls:
            cls.add("<guard %s>" % tstr[:60])
        self._classes_cache[key] = cls
        return cls

    def release_functions(self):
        """functions that take `&mut` to a guard owner and *clear* the guard before doing anything else
        (ActiveThread::release_for): at their call sites the caller's lock of that class is not held while
        the callee runs. Verified structurally: an assignment of a guard-free value to a guard-owning field of
        the parameter dominates every call of the body. Returns {fn id: set(classes released)}"""
        out = {}
        for bid, b in self.pool.items():
            argc = b.get("argc", 0)
            for a in range(1, argc + 1):
                row = b.local_ty(a)
                if row.get("k") != "refmut" or not self.is_guard_ty(b, row, own=False):
                    continue
                cls = {c_ for c_ in self.payload_classes_of_row(b, row) if not c_.startswith("<")}
                if not cls:
                    continue
                clear_bbs = []
                for i, j, place, rv, line in b.assigns():
                    if place[0] == a and place[1] and place[1][0] == "*" and len(place[1]) == 2 and isinstance(place[1][1], list):
                        src = rv
                        if rv[0] == "use" and op_place(rv[1]) is not None and not op_place(rv[1])[1]:
                            ds = b.defs_of(op_place(rv[1])[0])
                            if len(ds) == 1 and ds[0][0] == "assign":
                                src = ds[0][3]
                        if src[0] == "agg" and src[1][0] == "adt" and src[1][1] == "core::option::Option" and src[1][2] == "None":
                            clear_bbs.append(i)
                if clear_bbs and all(any(b.dominates(cb, c.bb) for cb in clear_bbs) for c in b.calls()):
                    out[bid] = cls
        return out

    def unreleased_summaries(self):
        """like summ_acq, but acquisitions of class X that only happen inside a releaser-of-X scope (the releaser itself
        or a closure handed to it) are left out: re-acquiring X there is not nested in the caller's hold of X"""
        rel = self.releasers
        direct = {bid: {cl for _, cl, mode in acc if mode != "t"} for bid, acc in self.direct.items()}
        # per body: callee -> classes to subtract
        sub = {}
        for bid, b in self.pool.items():
            m = {}
            for c in b.calls():
                for n in c.names():
                    if n in rel:
                        m[n] = rel[n]
                        for a in c.args:
                            for s in flow.sources(b, a, depth=5):
                                if s[0] == "closure" and s[1] in self.pool:
                                    m[s[1]] = m.get(s[1], set()) | rel[n]
            sub[bid] = m
        acq = {bid: set(v) - (rel.get(bid, set())) for bid, v in direct.items()}
        changed = True
        while changed:
            changed = False
            for bid in self.pool:
                for cal in self.callees[bid]:
                    add = acq[cal] - sub[bid].get(cal, set()) - rel.get(bid, set())
                    new = add - acq[bid]
                    if new:
                        acq[bid] |= new
                        changed = True
        return acq

    def edges(self):
        """yield (A, B, body, where, via)"""
        out = []
        self.releasers = self.release_functions()
        self.summ_unrel = self.unreleased_summaries()
        for bid, b in self.pool.items():
            gl = self.guard_locals(b)
            # parameters that *borrow* a guard owner count as entered-holding
            entered = set()
            argc = b.get("argc", 0)
            for a in range(1, argc + 1):
                row = b.local_ty(a)
                if self.is_guard_ty(b, row, own=False) and not self.is_guard_ty(b, row, own=True):
                    entered |= {c_ for c_ in self.payload_classes_of_row(b, row) if not c_.startswith("<")}
            if not gl and not entered:
                continue
            # may-hold dataflow over blocks: set of guard locals live at block entry
            nb = len(b.blocks)
            IN = [set() for _ in range(nb)]
            OUT = [set() for _ in range(nb)]
            start = {a for a in gl if 1 <= a <= argc}
            IN[0] = set(start)
            work = list(range(nb))
            it = 0
            first = [True] * nb
            while work and it < 20000:
                it += 1
                i = work.pop(0)
                cur = set(IN[i])
                self._transfer(b, i, cur, gl, None, None)
                if cur != OUT[i] or first[i]:
                    first[i] = False
                    OUT[i] = cur
                    for s in b.succ(i):
                        flow_out = OUT[i] - self._dead_on_edge(b, i, s, OUT[i])
                        if not flow_out <= IN[s]:
                            IN[s] |= flow_out
                            if s not in work:
                                work.append(s)
            for i in range(nb):
                if b.is_cleanup(i):
                    continue
                cur = set(IN[i])
                self._transfer(b, i, cur, gl, out, entered)
        return out

    def _dead_on_edge(self, b, i, s, held):
        """guard-owning enum locals (Result / Option / Poll) that are known to be in a guard-free variant on edge i -> s"""
        t = b.blocks[i]["t"]
        if t[0] != "switch":
            return set()
        p = op_place(t[1])
        if p is None or p[1]:
            return set()
        dead = set()
        for d in b.defs_of(p[0]):
            if d[0] == "assign" and d[3][0] == "disc":
                pl = d[3][1]
                if pl[1] or pl[0] not in held:
                    continue
                row = b.local_ty(pl[0])
                adt = row.get("adt", "")
                kids = [b.types[c] for c in row.get("c", [])]
                # variant index -> payload row (None = no payload)
                if adt == "core::result::Result" and len(kids) == 2:
                    payload = {0: kids[0], 1: kids[1]}
                elif adt == "core::option::Option" and kids:
                    payload = {0: None, 1: kids[0]}
                elif adt == "core::task::poll::Poll" and kids:
                    payload = {0: kids[0], 1: None}
                elif adt == "core::ops::control_flow::ControlFlow" and len(kids) == 2:
                    payload = {0: kids[1], 1: kids[0]}
                else:
                    continue
                vals = [v for v, bb in t[2] if bb == s]
                if s == t[3] and not vals:
                    known = {v for v, bb in t[2]}
                    vals = [v for v in payload if v not in known]
                if vals and all((payload.get(v) is None) or not self.is_guard_ty(b, payload[v], own=True) for v in vals):
                    dead.add(pl[0])
        return dead

    def _transfer(self, b, i, cur, gl, out, entered):
        blk = b.blocks[i]
        for st in blk["s"]:
            if st[0] == "sd":
                cur.discard(st[1])
            elif st[0] == "=":
                place, rv = st[1], st[2]
                # moves out of a guard local kill it
                for o in _moved_operands(rv):
                    if o[0] in cur:
                        cur.discard(o[0])  # whole value or its (only) guard payload moved out
                if not place[1] and place[0] in gl and rv[0] != "ref":
                    cur.add(place[0])
        t = blk["t"]
        if t[0] == "drop":
            if not t[1][1]:
                cur.discard(t[1][0])
        elif t[0] in ("call",):
            c = Call(b, i, t)
            # what may this call acquire?
            acq = []
            mode = ACQUIRE.get(c.res) or ACQUIRE.get(c.fn or "")
            if mode and c.args:
                acq = [(cl, "direct") for cl in self.class_of_receiver(b, c.args[0])] if mode != "t" else []
            else:
                for n in c.names():
                    if n in self.summ_acq:
                        acq += [(cl, n) for cl in self.summ_acq[n]]
                    if n + "::{closure#0}" in self.summ_acq and self.pool[n + "::{closure#0}"].kind == "coroutine":
                        acq += [(cl, n) for cl in self.summ_acq[n + "::{closure#0}"]]
            # arguments moved into the call release the caller's hold (mem::drop, into_owned ...)
            moved = set()
            for a in c.args:
                if a[0] == "m" and not a[1][1] and a[1][0] in cur:
                    moved.add(a[1][0])
            held_locals = cur - moved
            if out is not None and acq:
                held = set(entered or ())
                for l in held_locals:
                    held |= self.classes_of_local(b, l, gl[l])
                # the callee gives up these classes before it (re)acquires anything
                for n in c.names():
                    held -= self.releasers.get(n, set())
                if b.id in self.releasers:
                    held -= self.releasers[b.id]
                for l in held_locals:
                    for A in self.classes_of_local(b, l, gl[l]):
                        for B, via in acq:
                            self.raw.append((b, l, A, c, B, via))
                for A in held:
                    for B, via in acq:
                        if A == B and via != "direct":
                            tgt = via if via in self.summ_unrel else via + "::{closure#0}"
                            if B not in self.summ_unrel.get(tgt, {B}):
                                continue  # the callee re-acquires B only after releasing the caller's hold
                        out.append((A, B, b.id, c.where(), via))
            cur -= moved
            if c.dest is not None and not c.dest[1] and c.dest[0] in gl:
                cur.add(c.dest[0])
        elif t[0] == "yield":
            pass


def _owner_key(b, op, lock_fields, depth=10):
    """(root local, field-name prefix) of the object whose lock field `op` refers to; None if not understood.
    `&(*_t).context` -> (_t, ()); `&(*_1).a.b_lock` -> (_1, ('a',)); a plain `&Thread` argument -> (root, ())"""
    p = op_place(op)
    if p is None:
        return None
    local, projs = p[0], list(p[1])
    prefix = []
    for _ in range(depth):
        names = [pr[3] for pr in projs if isinstance(pr, list) and pr[0] == "f" and len(pr) == 4]
        fields = [(pr[1], pr[3]) for pr in projs if isinstance(pr, list) and pr[0] == "f" and len(pr) == 4]
        if fields and fields[-1] in lock_fields:
            names = names[:-1]
        prefix = names + prefix
        ds = [d for d in b.defs_of(local)]
        if len(ds) != 1:
            return (local, tuple(prefix))
        d = ds[0]
        if d[0] == "assign":
            rv = d[3]
            if rv[0] == "ref":
                local, projs = rv[2][0], list(rv[2][1])
                continue
            if rv[0] == "rawptr":
                local, projs = rv[1][0], list(rv[1][1])
                continue
            if rv[0] in ("use", "cast"):
                q = op_place(rv[1] if rv[0] == "use" else rv[2])
                if q is None:
                    return (local, tuple(prefix))
                local, projs = q[0], list(q[1])
                continue
            return (local, tuple(prefix))
        if d[0] == "call":
            c = d[2]
            if c.args and (c.res.endswith("::deref") or c.res.endswith("::deref_mut") or c.res.endswith("::as_ref") or c.res.endswith("::borrow")):
                q = op_place(c.args[0])
                if q is None:
                    return (local, tuple(prefix))
                local, projs = q[0], list(q[1])
                prefix = ["<deref>"] + prefix
                continue
            return (local, tuple(prefix))
        return (local, tuple(prefix))
    return (local, tuple(prefix))


def _moved_operands(rv):
    out = []
    k = rv[0]
    ops = []
    if k in ("use", "repeat"):
        ops = [rv[1]]
    elif k == "cast":
        ops = [rv[2]]
    elif k == "agg":
        ops = list(rv[2])
    for o in ops:
        if o[0] == "m":
            out.append(o[1])
    return out


def _back_locals(b, l, depth=6):
    """locals from which `l` is derived by moves/unwraps (small backward closure)"""
    out = {l}
    for _ in range(depth):
        new = set()
        for x in out:
            for d in b.defs_of(x):
                if d[0] == "assign":
                    for p in ([op_place(o) for o in ([d[3][1]] if d[3][0] == "use" else (d[3][2] if d[3][0] == "agg" else []))]):
                        if p is not None:
                            new.add(p[0])
                elif d[0] == "call":
                    for a in d[2].args:
                        p = op_place(a)
                        if p is not None:
                            new.add(p[0])
        if new <= out:
            break
        out |= new
    return out


def _guard_part(b, row, depth=0):
    """a type string that mentions the guard inside row (for payload lookup)"""
    return row["s"] if depth == 0 else row["s"]


def sccs(nodes, succ):
    index, low, st, on, out = {}, {}, [], set(), []
    counter = [0]
    import sys
    sys.setrecursionlimit(10000)

    def strong(v):
        index[v] = low[v] = counter[0]
        counter[0] += 1
        st.append(v)
        on.add(v)
        for w in succ.get(v, ()):
            if w not in index:
                strong(w)
                low[v] = min(low[v], low[w])
            elif w in on:
                low[v] = min(low[v], index[w])
        if low[v] == index[v]:
            comp = set()
            while True:
                w = st.pop()
                on.discard(w)
                comp.add(w)
                if w == v:
                    break
            out.append(comp)
    for v in nodes:
        if v not in index:
            strong(v)
    return out


def run(fb, rep):
    R = "E5"
    rep.rule(R, "lock-order graph over (owner, field) lock classes is acyclic modulo reasoned instance orders")
    L = Locks(fb)
    L.scan()
    L.summarise()
    n_sites = sum(len(v) for v in L.direct.values())
    classes = sorted({cl for v in L.direct.values() for _, cl, _ in v})
    rep.floor(R, "direct lock acquisition sites", n_sites, 80)
    rep.floor(R, "lock classes", len(classes), 15)
    edges = L.edges()
    graph = defaultdict(set)
    sites = defaultdict(list)
    for A, B, bid, where, via in edges:
        graph[A].add(B)
        sites[(A, B)].append((bid, where, via))
    rep.extra["lock_classes"] = classes
    rep.extra["lock_order_edges"] = sorted("%s -> %s (%d sites)" % (a, b_, len(sites[(a, b_)])) for a in graph for b_ in graph[a])
    rep.extra["returns_holding"] = {k: sorted(v) for k, v in sorted(L.ret_hold.items()) if v}
    tab = table("lock_instance_order.json")
    ordered = {(e["from"], e["to"]): e for e in tab["instance_orders"]}
    ignore_nodes = set(tab.get("not_a_shared_lock", []))
    nodes = set(graph) | {b_ for v in graph.values() for b_ in v}
    # self edges
    for a in sorted(nodes):
        if a in graph.get(a, ()):
            if (a, a) in ordered:
                # every site of the self edge must be one of the listed functions
                okfns = set(ordered[(a, a)].get("sites", []))
                for bid, where, via in sites[(a, a)]:
                    root = bid.split("::{closure")[0]
                    if okfns and root not in okfns and bid not in okfns:
                        rep.violation(R, "self-order-site|%s|%s" % (a, root), "%s is re-acquired while held in %s, which is not covered by the instance order recorded for it" % (a, root), where)
                rep.exception(R, "%s -> %s" % (a, a), ordered[(a, a)]["reason"])
            elif a.startswith("<") or a in ignore_nodes:
                continue
            else:
                bid, where, via = sites[(a, a)][0]
                rep.violation(R, "self-deadlock|%s" % a, "%s may be acquired while an instance of it is already held (in %s via %s)" % (a, bid, via), where)
    # ordered cross edges: only at the listed sites
    for (a, b_), e in sorted(ordered.items()):
        if a == b_ or b_ not in graph.get(a, ()):
            continue
        okfns = set(e.get("sites", []))
        for bid, where, via in sites[(a, b_)]:
            root = bid.split("::{closure")[0]
            if okfns and root not in okfns and bid not in okfns:
                rep.violation(R, "order-site|%s->%s|%s" % (a, b_, root), "%s -> %s occurs in %s, which is not covered by the instance order recorded for that edge" % (a, b_, root), where)
    succ = {a: {b_ for b_ in graph[a] if b_ != a and (a, b_) not in ordered and not b_.startswith("<") and not a.startswith("<")} for a in graph}
    comps = [c for c in sccs(sorted(nodes), succ) if len(c) > 1]
    for comp in comps:
        key = " <-> ".join(sorted(comp))
        ex = []
        for a in sorted(comp):
            for b_ in sorted(succ.get(a, ())):
                if b_ in comp:
                    bid, where, via = sites[(a, b_)][0]
                    ex.append("%s -> %s in %s (%s)" % (a, b_, bid, where))
        rep.violation(R, "lock-cycle|%s" % key, "lock classes can be acquired in both orders: " + "; ".join(ex[:6]), "")
    if not comps:
        rep.ok(R, "lock-order graph: %d classes, %d edges, no unordered cycle" % (len(nodes), sum(len(v) for v in graph.values())))
    for (a, b_), e in sorted(ordered.items()):
        if a != b_ and b_ in graph.get(a, ()):
            rep.exception(R, "%s -> %s" % (a, b_), e["reason"])
    same_instance_order(L, rep)
    collector_edges(L, rep, graph, sites)
    return L


def collector_edges(L, rep, graph, sites):
    """E5c — locks taken by the collector.  `Trace for Mutex<T>` / `RwLock<T>` *block* on the lock (`self.lock()` / `self.read()`),
    and tracing is dispatched through `dyn Userdata` / generic `Trace` calls the call graph cannot follow.  A collecting thread
    holds its own `Thread.context` (and, through `mark_child_roots`, the context of every descendant) for the whole mark phase,
    so every lock field that some `Trace::trace` visits is acquired *under Thread.context*: the edges `Thread.context -> C` are
    added for each such class C and the graph is re-checked.  A primitive that holds C and then locks a context (its own
    thread's: the ancestor's collector holds it) deadlocks against a concurrent collection."""
    R = "E5c"
    rep.rule(R, "no lock that the collector takes while tracing is held by code that then locks a thread context")
    from . import c05
    fb = L.fb
    traced = {}
    for im in fb.impls_of(c05.TRACE):
        c = im["_crate"]
        row = c.types[im["self"]]
        if row.get("k") != "adt" or row["adt"] not in fb.adts:
            continue
        adt = fb.adts[row["adt"]]
        items = {it["name"]: it["path"] for it in im["items"]}
        tb = fb.body(items["trace"]) if "trace" in items else None
        if tb is None:
            continue
        touched = c05.touched_fields(fb, tb, adt["path"])
        whole = ("*", "*") in touched
        for v in adt["variants"]:
            for f in v["fields"]:
                if (adt["path"], f["name"]) in L.fields and (whole or (v["name"], f["name"]) in touched):
                    traced["%s.%s" % (adt["path"].rsplit("::", 1)[1], f["name"])] = tb.id
    # Arc'd locks of one payload type are (potentially) one lock object: the collector taking one takes the others
    for payload, group in L.shared.items():
        if len(group) > 1 and group & set(traced):
            for g in group:
                traced.setdefault(g, next(traced[x] for x in group if x in traced))
    holder = "Thread.context"
    own = {k for k in traced if k.startswith("Thread.")}
    cells = sorted(set(traced) - own)
    rep.floor(R, "lock fields visited by a Trace impl", len(traced), 4)
    rep.extra["locks_taken_by_the_collector"] = sorted(traced)
    g2 = {a: set(b_) for a, b_ in graph.items()}
    for cl in cells:
        g2.setdefault(holder, set()).add(cl)
    bad = 0
    for cl in cells:
        # is Thread.context reachable from cl ?
        seen, work = set(), [cl]
        while work:
            x = work.pop()
            if x in seen:
                continue
            seen.add(x)
            # the thread tree's own locks are ordered by the instance orders of E5; follow only non-Thread classes
            work.extend(y for y in g2.get(x, ()) if not y.startswith("<") and (not y.startswith("Thread.") or y == holder) and x != holder)
        if holder in seen - {cl}:
            # first hop for the report
            hops = [(a, b_) for a in seen for b_ in g2.get(a, ()) if b_ == holder and (a, b_) in sites and not a.startswith("Thread.")]
            bad += 1
            for a, b_ in hops[:3]:
                for bid, where, via in sites[(a, b_)][:4]:
                    root = bid.split("::{closure")[0]
                    rep.violation(R, "held-while-locking-context|%s|%s" % (cl, root),
                                  "%s locks a thread context while holding %s; the collector (which holds that context while marking) blocks on %s when it traces "
                                  "the cell (%s): a concurrent collection by the thread or an ancestor deadlocks" % (bid, a, cl, traced[cl]), where)
    if not bad:
        rep.ok(R, "collector-taken locks %s are never held while a thread context is locked" % cells)

def same_instance_order(L, rep):
    """E5b — the instance orders of the table are about *different* objects (ancestor/descendant).  Two locks of ONE object
    (both receivers are fields of the same owner expression, the owner not re-assigned in between) must be taken in one
    order everywhere; no exemption applies to these edges."""
    R = "E5b"
    rep.rule(R, "two locks of one object are acquired in the same order at every site (no instance-order exemption applies)")
    lock_fields = set(L.fields)
    graph = defaultdict(set)
    sites = defaultdict(list)
    n = 0
    for b, l, A, c, B, via in L.raw:
        if A == B or A.startswith("<") or B.startswith("<"):
            continue
        # the acquisition that produced the held local
        ev = None
        back = _back_locals(b, l)
        for c0 in b.calls():
            if c0.dest is None or c0.dest[1] or c0.dest[0] not in back or not c0.args:
                continue
            if (ACQUIRE.get(c0.res) or ACQUIRE.get(c0.fn or "")) or any(n_ in L.ret_hold and L.ret_hold[n_] for n_ in c0.names()):
                ev = c0
        if ev is None or ev.target is None:
            continue
        ka = _owner_key(b, ev.args[0], lock_fields)
        if via == "direct":
            kb = _owner_key(b, c.args[0], lock_fields)
        elif c.args and any(B in L.ret_hold.get(n_, ()) or B in {cl for _, cl, m in L.direct.get(n_, []) if m != "t"} for n_ in c.names()):
            kb = _owner_key(b, c.args[0], lock_fields)   # a method that locks a field of its receiver
        else:
            kb = None
        if ka is None or kb is None or ka != kb:
            continue
        root = ka[0]
        redefs = set()
        for d in b.defs_of(root):
            if d[0] != "arg":
                redefs.add(d[1])
        if c.bb != ev.target and c.bb not in b.reachable(ev.target, avoid_blocks=redefs - {ev.bb}):
            continue
        n += 1
        graph[A].add(B)
        sites[(A, B)].append((b.id, c.where()))
    rep.extra["same_instance_edges"] = sorted("%s -> %s (%s)" % (a, b_, ", ".join(sorted({s[0].rsplit("::", 1)[-1] for s in sites[(a, b_)]}))) for a in graph for b_ in graph[a])
    rep.floor(R, "same-object lock pairs", n, 2)
    nodes = set(graph) | {b_ for v in graph.values() for b_ in v}
    comps = [c for c in sccs(sorted(nodes), graph) if len(c) > 1]
    for comp in comps:
        ex = []
        for a in sorted(comp):
            for b_ in sorted(graph.get(a, ())):
                if b_ in comp:
                    bid, where = sites[(a, b_)][0]
                    ex.append("%s -> %s in %s (%s)" % (a, b_, bid, where))
        rep.violation(R, "same-object-order|%s" % " <-> ".join(sorted(comp)),
                      "two locks of the same object are acquired in both orders: " + "; ".join(ex[:6]), "")
    if not comps:
        rep.ok(R, "same-object lock pairs: %d sites, %d ordered class pairs, one order each" % (n, sum(len(v) for v in graph.values())))
