#!/usr/bin/env python3
"""query helper: q.py callers <substr> | body <id-substr> | ids <substr>"""
import sys, os, json
HERE = os.path.dirname(os.path.abspath(__file__)); sys.path.insert(0, HERE)
import harness
from rules import facts
def fmt_place(b,p):
    s="_%d"%p[0]
    for pr in p[1]:
        if pr=="*": s="(*%s)"%s
        elif isinstance(pr,list) and pr[0]=="f": s+= "."+(pr[3] if len(pr)==4 else str(pr[1]))
        elif isinstance(pr,list) and pr[0]=="d": s="(%s as %s)"%(s,pr[1])
        elif isinstance(pr,list) and pr[0]=="i": s+="[_%d]"%pr[1]
        else: s+="[%s]"%(pr,)
    return s
def fmt_op(b,o):
    if o[0] in("c","m"): return ("move " if o[0]=="m" else "")+fmt_place(b,o[1])
    k=o[1]
    if "fn" in k: return "fn:"+ (k.get("res") or k["fn"])
    if "int" in k: return "const %s"%k["int"]
    if "str" in k: return "const %r"%k["str"]
    if "promoted" in k: return "promoted#%d"%k["promoted"]
    if "closure" in k: return "closure:"+k["closure"]
    if "item" in k: return "item:"+k["item"]
    return "const<%s>"%(b.tstr(k["ty"]) if "ty" in k else "?")
def fmt_rv(b,rv):
    k=rv[0]
    if k=="use": return fmt_op(b,rv[1])
    if k=="ref": return ("&mut " if rv[1] else "&")+fmt_place(b,rv[2])
    if k=="rawptr": return "&raw "+fmt_place(b,rv[1])
    if k=="cast": return "%s as %s (%s)"%(fmt_op(b,rv[2]), b.tstr(rv[3]), rv[1])
    if k=="bin": return "%s(%s, %s)"%(rv[1],fmt_op(b,rv[2]),fmt_op(b,rv[3]))
    if k=="un": return "%s(%s)"%(rv[1],fmt_op(b,rv[2]))
    if k=="disc": return "discriminant(%s)"%fmt_place(b,rv[1])
    if k=="agg": return "%s{%s}"%("::".join(rv[1][1:]) if len(rv[1])>1 else rv[1][0], ", ".join(fmt_op(b,o) for o in rv[2]))
    return str(rv)
def dump(b):
    print("== %s [%s] %s:%s argc=%s"%(b.id,b.kind,b.file,b.line,b.get("argc")))
    for i,t in enumerate(b.d["locals"]): print("   _%d: %s"%(i,b.tstr(t)[:160]))
    for i,blk in enumerate(b.blocks):
        print(" bb%d%s:"%(i," (cleanup)" if blk.get("cl") else ""))
        for st in blk["s"]:
            if st[0]=="=": print("    %s = %s   // L%s"%(fmt_place(b,st[1]),fmt_rv(b,st[2]),st[3]))
            elif st[0]=="setdisc": print("    discriminant(%s) = %s"%(fmt_place(b,st[1]),st[2]))
            elif st[0]=="sd": print("    StorageDead(_%d)"%st[1])
        t=blk["t"]
        if t[0]=="call":
            d=t[1]; nm=d.get("res") or d.get("fn") or ("ptr "+fmt_op(b,d["ptr"]))
            print("    %s = %s(%s) -> %s unwind %s [%s] // L%s"%(fmt_place(b,t[3]),nm,", ".join(fmt_op(b,o) for o in t[2]),t[4],t[5],d.get("rk"),t[6]))
        elif t[0]=="switch": print("    switch %s %s otherwise %s"%(fmt_op(b,t[1]),t[2],t[3]))
        elif t[0]=="drop": print("    drop(%s) -> %s unwind %s"%(fmt_place(b,t[1]),t[2],t[3]))
        elif t[0]=="assert": print("    assert(%s == %s, %s) -> %s // L%s"%(fmt_op(b,t[1]),t[2],t[3][0:2],t[4],t[6]))
        else: print("    %s"%(t,))
if __name__=="__main__":
    d=harness.extract(os.environ.get("CFG","ser"), mono=os.environ.get("MONO")=="1")
    crates=set(os.environ["CRATES"].split(",")) if os.environ.get("CRATES") else None
    fb=facts.load(d,crates)
    cmd=sys.argv[1]; arg=sys.argv[2]
    if cmd=="ids":
        for i in sorted(fb.bodies):
            if arg in i: print(i, fb.bodies[i].where())
    elif cmd=="callers":
        for n,cs in sorted(fb.callers().items()):
            if arg in n:
                for c in cs: print(n,"  <-  ",c.body.id,c.where())
    elif cmd=="body":
        pool = fb.pre if os.environ.get("PRE") else fb.bodies
        for i,b in pool.items():
            if (arg==i) or (not sys.argv[3:] and arg in i): dump(b)
    elif cmd=="adt":
        for p,a in fb.adts.items():
            if arg in p: print(json.dumps({k:v for k,v in a.items() if k!="_crate"},indent=1))
