// Minimal JSON value + writer (zero dependencies).
use std::fmt::Write;

#[derive(Clone, Debug)]
pub enum J {
    Null,
    B(bool),
    N(i128),
    S(String),
    A(Vec<J>),
    O(Vec<(&'static str, J)>),
}

pub fn s<T: Into<String>>(x: T) -> J {
    J::S(x.into())
}
pub fn n<T: TryInto<i128>>(x: T) -> J {
    J::N(x.try_into().ok().unwrap_or(-1))
}
pub fn arr(v: Vec<J>) -> J {
    J::A(v)
}

impl J {
    pub fn write(&self, out: &mut String) {
        match self {
            J::Null => out.push_str("null"),
            J::B(b) => out.push_str(if *b { "true" } else { "false" }),
            J::N(i) => {
                let _ = write!(out, "{}", i);
            }
            J::S(st) => write_str(st, out),
            J::A(v) => {
                out.push('[');
                for (i, x) in v.iter().enumerate() {
                    if i > 0 {
                        out.push(',');
                    }
                    x.write(out);
                }
                out.push(']');
            }
            J::O(v) => {
                out.push('{');
                for (i, (k, x)) in v.iter().enumerate() {
                    if i > 0 {
                        out.push(',');
                    }
                    write_str(k, out);
                    out.push(':');
                    x.write(out);
                }
                out.push('}');
            }
        }
    }
}

fn write_str(st: &str, out: &mut String) {
    out.push('"');
    for c in st.chars() {
        match c {
            '"' => out.push_str("\\\""),
            '\\' => out.push_str("\\\\"),
            '\n' => out.push_str("\\n"),
            '\r' => out.push_str("\\r"),
            '\t' => out.push_str("\\t"),
            c if (c as u32) < 0x20 => {
                let _ = write!(out, "\\u{:04x}", c as u32);
            }
            c => out.push(c),
        }
    }
    out.push('"');
}
