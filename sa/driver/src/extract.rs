use crate::json::*;
use rustc_data_structures::fx::{FxHashMap, FxHashSet};
use rustc_hir::def::DefKind;
use rustc_hir::def_id::{DefId, LocalDefId};
use rustc_middle::mir::*;
use rustc_middle::ty::print::{with_no_trimmed_paths, with_no_visible_paths, with_resolve_crate_name};
use rustc_middle::ty::{self, TypeVisitableExt, EarlyBinder, GenericArgsRef, Instance, InstanceKind, Ty, TyCtxt, TypingEnv};
use rustc_span::Span;
use std::collections::VecDeque;

macro_rules! pp {
    ($e:expr) => {
        with_resolve_crate_name!(with_no_trimmed_paths!(with_no_visible_paths!($e)))
    };
}

pub struct Cx<'tcx> {
    tcx: TyCtxt<'tcx>,
    types: FxHashMap<Ty<'tcx>, usize>,
    type_rows: Vec<J>,
    markers: Vec<String>,
    marker_ids: FxHashMap<DefId, usize>,
    marker_cache: FxHashMap<(Ty<'tcx>, bool), u64>,
    path_cache: FxHashMap<DefId, String>,
    crate_name: String,
}

struct BodyCtx<'a, 'tcx> {
    body: &'a Body<'tcx>,
    env: TypingEnv<'tcx>,
    mono: Option<Instance<'tcx>>,
    // instances discovered (for the mono walk)
    callees: Vec<Instance<'tcx>>,
}

impl<'tcx> Cx<'tcx> {
    fn new(tcx: TyCtxt<'tcx>) -> Self {
        let markers: Vec<String> = std::env::var("SA_MARKERS")
            .unwrap_or_default()
            .split(',')
            .filter(|x| !x.is_empty())
            .map(|x| x.to_string())
            .collect();
        Cx {
            tcx,
            types: FxHashMap::default(),
            type_rows: Vec::new(),
            markers,
            marker_ids: FxHashMap::default(),
            marker_cache: FxHashMap::default(),
            path_cache: FxHashMap::default(),
            crate_name: tcx.crate_name(rustc_hir::def_id::LOCAL_CRATE).to_string(),
        }
    }

    pub fn path(&mut self, did: DefId) -> String {
        if let Some(p) = self.path_cache.get(&did) {
            return p.clone();
        }
        let mut p = pp!(self.tcx.def_path_str(did));
        // items declared in sibling blocks of one function share a pretty path; make it unique
        // with the def-path disambiguators of its value/type-namespace components
        let mut suffix = String::new();
        for comp in self.tcx.def_path(did).data.iter() {
            use rustc_hir::definitions::DefPathData;
            if comp.disambiguator > 0 && matches!(comp.data, DefPathData::ValueNs(_) | DefPathData::TypeNs(_)) {
                suffix.push_str(&format!("#{}", comp.disambiguator));
            }
        }
        p.push_str(&suffix);
        self.path_cache.insert(did, p.clone());
        p
    }

    fn ty_str(&self, ty: Ty<'tcx>) -> String {
        pp!(ty.to_string())
    }

    fn marker_of(&mut self, did: DefId) -> Option<usize> {
        if let Some(i) = self.marker_ids.get(&did) {
            return if *i == usize::MAX { None } else { Some(*i) };
        }
        let p = self.path(did);
        let r = self.markers.iter().position(|m| *m == p);
        self.marker_ids.insert(did, r.unwrap_or(usize::MAX));
        r
    }

    /// bitset of markers transitively contained in `ty`; `through_ptr` = also follow refs/raw ptrs
    fn contains(&mut self, ty: Ty<'tcx>, through_ptr: bool, stack: &mut Vec<Ty<'tcx>>) -> u64 {
        if self.markers.is_empty() {
            return 0;
        }
        if let Some(b) = self.marker_cache.get(&(ty, through_ptr)) {
            return *b;
        }
        if stack.contains(&ty) || stack.len() > 40 {
            return 0;
        }
        stack.push(ty);
        let tcx = self.tcx;
        let mut bits = 0u64;
        match *ty.kind() {
            ty::Adt(adt, args) => {
                if let Some(i) = self.marker_of(adt.did()) {
                    bits |= 1 << i;
                }
                if !adt.is_phantom_data() {
                    for a in args.iter() {
                        if let Some(t) = a.as_type() {
                            bits |= self.contains(t, through_ptr, stack);
                        }
                    }
                    // only walk the fields of workspace-local ADTs (std internals are covered by args)
                    let krate = tcx.crate_name(adt.did().krate).to_string();
                    if krate.starts_with("gluon") || krate.starts_with("sa_fixtures") {
                        for v in adt.variants() {
                            for f in &v.fields {
                                let fty = f.ty(tcx, args);
                                bits |= self.contains(fty, through_ptr, stack);
                            }
                        }
                    }
                }
            }
            ty::Ref(_, t, _) => {
                // `through_ptr` follows references only; raw pointers never own or keep alive
                if through_ptr {
                    bits |= self.contains(t, through_ptr, stack);
                }
            }
            ty::Array(t, _) | ty::Slice(t) | ty::Pat(t, _) => bits |= self.contains(t, through_ptr, stack),
            ty::Tuple(ts) => {
                for t in ts.iter() {
                    bits |= self.contains(t, through_ptr, stack);
                }
            }
            ty::Closure(_, args) => {
                for t in args.as_closure().upvar_tys().iter() {
                    bits |= self.contains(t, through_ptr, stack);
                }
            }
            ty::Coroutine(_, args) => {
                for t in args.as_coroutine().upvar_tys().iter() {
                    bits |= self.contains(t, through_ptr, stack);
                }
            }
            _ => {}
        }
        stack.pop();
        if stack.is_empty() {
            self.marker_cache.insert((ty, through_ptr), bits);
        }
        bits
    }

    fn bits_to_j(&self, bits: u64) -> J {
        let mut v = Vec::new();
        for i in 0..self.markers.len() {
            if bits & (1 << i) != 0 {
                v.push(n(i));
            }
        }
        J::A(v)
    }

    pub fn ty(&mut self, ty: Ty<'tcx>) -> usize {
        if let Some(i) = self.types.get(&ty) {
            return *i;
        }
        // reserve slot first (recursive types)
        let idx = self.type_rows.len();
        self.types.insert(ty, idx);
        self.type_rows.push(J::Null);
        let mut row: Vec<(&'static str, J)> = vec![("s", s(self.ty_str(ty)))];
        let mut children: Vec<J> = Vec::new();
        let kind = match *ty.kind() {
            ty::Adt(adt, args) => {
                row.push(("adt", s(self.path(adt.did()))));
                for a in args.iter() {
                    if let Some(t) = a.as_type() {
                        children.push(n(self.ty(t)));
                    }
                }
                "adt"
            }
            ty::Ref(_, t, m) => {
                children.push(n(self.ty(t)));
                if m.is_mut() {
                    "refmut"
                } else {
                    "ref"
                }
            }
            ty::RawPtr(t, _) => {
                children.push(n(self.ty(t)));
                "ptr"
            }
            ty::Array(t, _) => {
                children.push(n(self.ty(t)));
                "array"
            }
            ty::Slice(t) => {
                children.push(n(self.ty(t)));
                "slice"
            }
            ty::Tuple(ts) => {
                for t in ts.iter() {
                    children.push(n(self.ty(t)));
                }
                "tuple"
            }
            ty::Closure(did, args) => {
                row.push(("def", s(self.path(did))));
                for t in args.as_closure().upvar_tys().iter() {
                    children.push(n(self.ty(t)));
                }
                "closure"
            }
            ty::Coroutine(did, args) => {
                row.push(("def", s(self.path(did))));
                for t in args.as_coroutine().upvar_tys().iter() {
                    children.push(n(self.ty(t)));
                }
                "coroutine"
            }
            ty::CoroutineClosure(did, _) => {
                row.push(("def", s(self.path(did))));
                "coroutine_closure"
            }
            ty::FnDef(did, args) => {
                row.push(("def", s(self.path(did))));
                for a in args.iter() {
                    if let Some(t) = a.as_type() {
                        children.push(n(self.ty(t)));
                    }
                }
                "fndef"
            }
            ty::FnPtr(..) => "fnptr",
            ty::Dynamic(..) => "dyn",
            ty::Param(_) => "param",
            ty::Alias(..) => "alias",
            ty::Bool | ty::Char | ty::Int(_) | ty::Uint(_) | ty::Float(_) | ty::Str | ty::Never => "prim",
            _ => "other",
        };
        row.push(("k", s(kind)));
        if !children.is_empty() {
            row.push(("c", J::A(children)));
        }
        if !self.markers.is_empty() {
            let own = self.contains(ty, false, &mut Vec::new());
            let any = self.contains(ty, true, &mut Vec::new());
            if own != 0 {
                row.push(("mo", self.bits_to_j(own)));
            }
            if any != 0 {
                row.push(("ma", self.bits_to_j(any)));
            }
        }
        self.type_rows[idx] = J::O(row);
        idx
    }

    fn loc(&self, span: Span) -> (String, usize, bool) {
        let sm = self.tcx.sess.source_map();
        let exp = span.from_expansion();
        // attribute macro-expanded code to the outermost call site
        let sp = span.source_callsite();
        let l = sm.lookup_char_pos(sp.lo());
        (format!("{}", l.file.name.prefer_local_unconditionally()), l.line, exp)
    }

    // ------------------------------------------------------------------ places / operands

    fn mono_ty(&self, bc: &BodyCtx<'_, 'tcx>, ty: Ty<'tcx>) -> Ty<'tcx> {
        match bc.mono {
            Some(inst) => inst
                .try_instantiate_mir_and_normalize_erasing_regions(self.tcx, bc.env, EarlyBinder::bind(ty))
                .unwrap_or(ty),
            None => ty,
        }
    }

    fn place(&mut self, bc: &BodyCtx<'_, 'tcx>, p: &Place<'tcx>) -> J {
        let tcx = self.tcx;
        let mut pty = rustc_middle::mir::PlaceTy::from_ty(bc.body.local_decls[p.local].ty);
        let mut projs = Vec::new();
        for elem in p.projection.iter() {
            let j = match elem {
                ProjectionElem::Deref => s("*"),
                ProjectionElem::Field(f, _) => {
                    let base = self.mono_ty(bc, pty.ty);
                    match *base.kind() {
                        ty::Adt(adt, _) => {
                            let vidx = pty.variant_index.unwrap_or(rustc_abi::FIRST_VARIANT);
                            if vidx.as_usize() < adt.variants().len() {
                                let v = adt.variant(vidx);
                                let fname = if f.as_usize() < v.fields.len() {
                                    v.fields[f].name.to_string()
                                } else {
                                    format!("{}", f.as_usize())
                                };
                                arr(vec![s("f"), s(self.path(adt.did())), s(v.name.to_string()), s(fname)])
                            } else {
                                arr(vec![s("f"), n(f.as_usize())])
                            }
                        }
                        _ => arr(vec![s("f"), n(f.as_usize())]),
                    }
                }
                ProjectionElem::Index(l) => arr(vec![s("i"), n(l.as_usize())]),
                ProjectionElem::ConstantIndex { offset, from_end, .. } => {
                    arr(vec![s("ci"), n(offset), J::B(from_end)])
                }
                ProjectionElem::Subslice { .. } => s("ss"),
                ProjectionElem::Downcast(name, v) => {
                    let nm = match name {
                        Some(sy) => sy.to_string(),
                        None => format!("{}", v.as_usize()),
                    };
                    arr(vec![s("d"), s(nm)])
                }
                _ => s("?"),
            };
            projs.push(j);
            pty = pty.projection_ty(tcx, elem);
        }
        arr(vec![n(p.local.as_usize()), J::A(projs)])
    }

    fn args_j(&mut self, args: GenericArgsRef<'tcx>) -> J {
        let mut v = Vec::new();
        for a in args.iter() {
            if let Some(t) = a.as_type() {
                v.push(n(self.ty(t)));
            }
        }
        J::A(v)
    }

    fn constant(&mut self, bc: &mut BodyCtx<'_, 'tcx>, c: &ConstOperand<'tcx>) -> J {
        let tcx = self.tcx;
        let cty = self.mono_ty(bc, c.const_.ty());
        match *cty.kind() {
            ty::FnDef(did, args) => {
                return self.fn_desc(bc, did, args);
            }
            ty::Closure(did, _) => {
                return J::O(vec![("closure", s(self.path(did)))]);
            }
            _ => {}
        }
        let mut row: Vec<(&'static str, J)> = Vec::new();
        row.push(("ty", n(self.ty(cty))));
        match c.const_ {
            Const::Unevaluated(u, _) => {
                if let Some(p) = u.promoted {
                    row.push(("promoted", n(p.as_usize())));
                    row.push(("of", s(self.path(u.def))));
                    return J::O(row);
                } else {
                    row.push(("item", s(self.path(u.def))));
                }
            }
            _ => {}
        }
        if cty.is_integral() || cty.is_bool() || cty.is_char() {
            if let Some(si) = c.const_.try_eval_scalar_int(tcx, bc.env) {
                let size = si.size();
                let v: i128 = if cty.is_signed() { si.to_int(size) } else { si.to_uint(size) as i128 };
                row.push(("int", n(v)));
            }
        } else if let ty::Ref(_, inner, _) = *cty.kind() {
            if inner.is_str() {
                let cv = match c.const_ {
                    Const::Val(cv, _) => Some(cv),
                    other => other.eval(tcx, bc.env, c.span).ok(),
                };
                if let Some(cv) = cv {
                    if let Some(bytes) = cv.try_get_slice_bytes_for_diagnostics(tcx) {
                        row.push(("str", s(String::from_utf8_lossy(bytes).to_string())));
                    }
                }
            }
        }
        J::O(row)
    }

    fn fn_desc(&mut self, bc: &mut BodyCtx<'_, 'tcx>, did: DefId, args: GenericArgsRef<'tcx>) -> J {
        let tcx = self.tcx;
        let mut row: Vec<(&'static str, J)> = Vec::new();
        row.push(("fn", s(self.path(did))));
        row.push(("ga", self.args_j(args)));
        if let Some(tr) = tcx.trait_of_assoc(did) {
            row.push(("trait", s(self.path(tr))));
            if let Some(t) = args.get(0).and_then(|a| a.as_type()) {
                row.push(("self", n(self.ty(t))));
            }
        }
        if tcx.intrinsic(did).is_some() {
            row.push(("intrinsic", J::B(true)));
        }
        // resolve
        let resolvable = !args.has_non_region_param() || bc.mono.is_none();
        if resolvable {
            let args_e = tcx.erase_and_anonymize_regions(args);
            match Instance::try_resolve(tcx, bc.env, did, args_e) {
                Ok(Some(inst)) => {
                    let (rk, rdid) = match inst.def {
                        InstanceKind::Item(d) => ("item", Some(d)),
                        InstanceKind::Virtual(d, _) => ("virtual", Some(d)),
                        InstanceKind::ClosureOnceShim { call_once, .. } => ("closure_once_shim", Some(call_once)),
                        InstanceKind::FnPtrShim(d, _) => ("fnptr_shim", Some(d)),
                        InstanceKind::ReifyShim(d, _) => ("reify_shim", Some(d)),
                        InstanceKind::DropGlue(d, _) => ("drop_glue", Some(d)),
                        InstanceKind::CloneShim(d, _) => ("clone_shim", Some(d)),
                        InstanceKind::Intrinsic(d) => ("intrinsic", Some(d)),
                        InstanceKind::VTableShim(d) => ("vtable_shim", Some(d)),
                        _ => ("other", None),
                    };
                    row.push(("rk", s(rk)));
                    if let Some(d) = rdid {
                        row.push(("res", s(self.path(d))));
                    }
                    if let InstanceKind::DropGlue(_, Some(t)) = inst.def {
                        row.push(("drop_ty", n(self.ty(t))));
                    }
                    if inst.args != args_e {
                        row.push(("rga", self.args_j(inst.args)));
                    }
                    if bc.mono.is_some() {
                        row.push(("inst", s(inst_id(self, inst))));
                    }
                    bc.callees.push(inst);
                }
                Ok(None) => row.push(("rk", s("unresolved"))),
                Err(_) => row.push(("rk", s("error"))),
            }
        } else {
            row.push(("rk", s("unresolved")));
        }
        J::O(row)
    }

    fn operand(&mut self, bc: &mut BodyCtx<'_, 'tcx>, o: &Operand<'tcx>) -> J {
        match o {
            Operand::Copy(p) => arr(vec![s("c"), self.place(bc, p)]),
            Operand::Move(p) => arr(vec![s("m"), self.place(bc, p)]),
            Operand::Constant(c) => arr(vec![s("k"), self.constant(bc, c)]),
            _ => arr(vec![s("k"), J::O(vec![("rt", J::B(true))])]),
        }
    }

    fn rvalue(&mut self, bc: &mut BodyCtx<'_, 'tcx>, rv: &Rvalue<'tcx>) -> J {
        match rv {
            Rvalue::Use(o, ..) => arr(vec![s("use"), self.operand(bc, o)]),
            Rvalue::Repeat(o, _) => arr(vec![s("repeat"), self.operand(bc, o)]),
            Rvalue::Ref(_, bk, p) => {
                let m = matches!(bk, BorrowKind::Mut { .. });
                arr(vec![s("ref"), J::B(m), self.place(bc, p)])
            }
            Rvalue::RawPtr(_, p) => arr(vec![s("rawptr"), self.place(bc, p)]),
            Rvalue::Cast(kind, o, t) => {
                let k = match kind {
                    CastKind::PointerCoercion(pc, _) => format!("{:?}", pc),
                    other => format!("{:?}", other),
                };
                let t = self.mono_ty(bc, *t);
                arr(vec![s("cast"), s(k), self.operand(bc, o), n(self.ty(t))])
            }
            Rvalue::BinaryOp(op, b) => {
                let (a, c) = &**b;
                arr(vec![s("bin"), s(format!("{:?}", op)), self.operand(bc, a), self.operand(bc, c)])
            }
            Rvalue::UnaryOp(op, o) => arr(vec![s("un"), s(format!("{:?}", op)), self.operand(bc, o)]),
            Rvalue::Discriminant(p) => arr(vec![s("disc"), self.place(bc, p)]),
            Rvalue::Aggregate(kind, ops) => {
                let kd = match &**kind {
                    AggregateKind::Array(_) => arr(vec![s("array")]),
                    AggregateKind::Tuple => arr(vec![s("tuple")]),
                    AggregateKind::Adt(did, v, _, _, _) => {
                        let adt = self.tcx.adt_def(*did);
                        let vn = adt.variant(*v).name.to_string();
                        arr(vec![s("adt"), s(self.path(*did)), s(vn)])
                    }
                    AggregateKind::Closure(did, _) => arr(vec![s("closure"), s(self.path(*did))]),
                    AggregateKind::Coroutine(did, _) => arr(vec![s("coroutine"), s(self.path(*did))]),
                    AggregateKind::CoroutineClosure(did, _) => arr(vec![s("coroutine_closure"), s(self.path(*did))]),
                    AggregateKind::RawPtr(..) => arr(vec![s("rawptr")]),
                };
                let mut v = Vec::new();
                for o in ops.iter() {
                    v.push(self.operand(bc, o));
                }
                arr(vec![s("agg"), kd, J::A(v)])
            }
            Rvalue::CopyForDeref(p) => arr(vec![s("use"), arr(vec![s("c"), self.place(bc, p)])]),
            Rvalue::ThreadLocalRef(d) => arr(vec![s("tls"), s(self.path(*d))]),
            _ => arr(vec![s("other"), s(format!("{:?}", rv).chars().take(60).collect::<String>())]),
        }
    }

    fn assert_kind(&mut self, bc: &mut BodyCtx<'_, 'tcx>, m: &AssertMessage<'tcx>) -> J {
        match m {
            AssertKind::BoundsCheck { len, index } => {
                arr(vec![s("BoundsCheck"), self.operand(bc, len), self.operand(bc, index)])
            }
            AssertKind::Overflow(op, a, b) => {
                arr(vec![s("Overflow"), s(format!("{:?}", op)), self.operand(bc, a), self.operand(bc, b)])
            }
            AssertKind::OverflowNeg(a) => arr(vec![s("OverflowNeg"), self.operand(bc, a)]),
            AssertKind::DivisionByZero(a) => arr(vec![s("DivisionByZero"), self.operand(bc, a)]),
            AssertKind::RemainderByZero(a) => arr(vec![s("RemainderByZero"), self.operand(bc, a)]),
            other => arr(vec![s("Other"), s(format!("{:?}", other).chars().take(60).collect::<String>())]),
        }
    }

    fn unwind(&self, u: &UnwindAction) -> J {
        match u {
            UnwindAction::Continue => s("continue"),
            UnwindAction::Unreachable => s("unreachable"),
            UnwindAction::Terminate(_) => s("terminate"),
            UnwindAction::Cleanup(b) => n(b.as_usize()),
        }
    }

    fn terminator(&mut self, bc: &mut BodyCtx<'_, 'tcx>, t: &Terminator<'tcx>) -> J {
        let (_, line, exp) = self.loc(t.source_info.span);
        match &t.kind {
            TerminatorKind::Goto { target } => arr(vec![s("goto"), n(target.as_usize())]),
            TerminatorKind::SwitchInt { discr, targets } => {
                let mut v = Vec::new();
                for (val, bb) in targets.iter() {
                    v.push(arr(vec![n(val), n(bb.as_usize())]));
                }
                arr(vec![s("switch"), self.operand(bc, discr), J::A(v), n(targets.otherwise().as_usize())])
            }
            TerminatorKind::UnwindResume => arr(vec![s("resume")]),
            TerminatorKind::UnwindTerminate(_) => arr(vec![s("terminate")]),
            TerminatorKind::Return => arr(vec![s("ret")]),
            TerminatorKind::Unreachable => arr(vec![s("unreachable")]),
            TerminatorKind::Drop { place, target, unwind, .. } => {
                let pty = place.ty(&bc.body.local_decls, self.tcx).ty;
                let pty = self.mono_ty(bc, pty);
                arr(vec![s("drop"), self.place(bc, place), n(target.as_usize()), self.unwind(unwind), n(self.ty(pty))])
            }
            TerminatorKind::Call { func, args, destination, target, unwind, fn_span, .. } => {
                let f = self.func(bc, func);
                let mut a = Vec::new();
                for x in args.iter() {
                    a.push(self.operand(bc, &x.node));
                }
                let (_, fl, fexp) = self.loc(*fn_span);
                arr(vec![
                    s("call"),
                    f,
                    J::A(a),
                    self.place(bc, destination),
                    match target {
                        Some(b) => n(b.as_usize()),
                        None => J::Null,
                    },
                    self.unwind(unwind),
                    n(fl),
                    J::B(fexp),
                ])
            }
            TerminatorKind::TailCall { func, args, .. } => {
                let f = self.func(bc, func);
                let mut a = Vec::new();
                for x in args.iter() {
                    a.push(self.operand(bc, &x.node));
                }
                arr(vec![s("tailcall"), f, J::A(a)])
            }
            TerminatorKind::Assert { cond, expected, msg, target, unwind } => arr(vec![
                s("assert"),
                self.operand(bc, cond),
                J::B(*expected),
                self.assert_kind(bc, msg),
                n(target.as_usize()),
                self.unwind(unwind),
                n(line),
                J::B(exp),
            ]),
            TerminatorKind::Yield { value, resume, drop, .. } => arr(vec![
                s("yield"),
                self.operand(bc, value),
                n(resume.as_usize()),
                match drop {
                    Some(b) => n(b.as_usize()),
                    None => J::Null,
                },
            ]),
            TerminatorKind::CoroutineDrop => arr(vec![s("coroutine_drop")]),
            TerminatorKind::FalseEdge { real_target, .. } => arr(vec![s("goto"), n(real_target.as_usize())]),
            TerminatorKind::FalseUnwind { real_target, .. } => arr(vec![s("goto"), n(real_target.as_usize())]),
            TerminatorKind::InlineAsm { .. } => arr(vec![s("asm")]),
        }
    }

    fn func(&mut self, bc: &mut BodyCtx<'_, 'tcx>, func: &Operand<'tcx>) -> J {
        let fty = func.ty(&bc.body.local_decls, self.tcx);
        let fty = self.mono_ty(bc, fty);
        match *fty.kind() {
            ty::FnDef(did, args) => self.fn_desc(bc, did, args),
            _ => J::O(vec![("ptr", self.operand(bc, func)), ("ty", n(self.ty(fty)))]),
        }
    }

    fn statement(&mut self, bc: &mut BodyCtx<'_, 'tcx>, st: &Statement<'tcx>) -> Option<J> {
        match &st.kind {
            StatementKind::Assign(b) => {
                let (p, rv) = &**b;
                Some(arr(vec![s("="), self.place(bc, p), self.rvalue(bc, rv), n(self.loc(st.source_info.span).1)]))
            }
            StatementKind::SetDiscriminant { place, variant_index } => {
                let pty = place.ty(&bc.body.local_decls, self.tcx).ty;
                let pty = self.mono_ty(bc, pty);
                let vn = match *pty.kind() {
                    ty::Adt(adt, _) if variant_index.as_usize() < adt.variants().len() => {
                        adt.variant(*variant_index).name.to_string()
                    }
                    _ => format!("{}", variant_index.as_usize()),
                };
                Some(arr(vec![s("setdisc"), self.place(bc, place), s(vn)]))
            }
            StatementKind::StorageDead(l) => Some(arr(vec![s("sd"), n(l.as_usize())])),
            StatementKind::StorageLive(l) => Some(arr(vec![s("sl"), n(l.as_usize())])),
            _ => None,
        }
    }

    pub fn body_record(
        &mut self,
        id: String,
        kind: &str,
        def_id: DefId,
        body: &Body<'tcx>,
        env: TypingEnv<'tcx>,
        mono: Option<Instance<'tcx>>,
        extra: Vec<(&'static str, J)>,
    ) -> (J, Vec<Instance<'tcx>>) {
        let tcx = self.tcx;
        let mut bc = BodyCtx { body, env, mono, callees: Vec::new() };
        let (file, line, _) = self.loc(body.span);
        let mut row: Vec<(&'static str, J)> = Vec::new();
        row.push(("id", s(id)));
        row.push(("kind", s(kind)));
        row.push(("def", s(self.path(def_id))));
        row.push(("crate", s(tcx.crate_name(def_id.krate).to_string())));
        row.push(("file", s(file)));
        row.push(("line", n(line)));
        row.push(("argc", n(body.arg_count)));
        row.extend(extra);
        let mut locals = Vec::new();
        for d in body.local_decls.iter() {
            let t = self.mono_ty(&bc, d.ty);
            locals.push(n(self.ty(t)));
        }
        row.push(("locals", J::A(locals)));
        // user variable names
        let mut names = Vec::new();
        for vdi in body.var_debug_info.iter() {
            if let VarDebugInfoContents::Place(p) = &vdi.value {
                if p.projection.is_empty() {
                    names.push(arr(vec![n(p.local.as_usize()), s(vdi.name.to_string())]));
                }
            }
        }
        row.push(("names", J::A(names)));
        let mut blocks = Vec::new();
        for (_, bb) in body.basic_blocks.iter_enumerated() {
            let mut sts = Vec::new();
            for st in &bb.statements {
                if let Some(j) = self.statement(&mut bc, st) {
                    sts.push(j);
                }
            }
            let t = match &bb.terminator {
                Some(t) => self.terminator(&mut bc, t),
                None => arr(vec![s("none")]),
            };
            let mut b: Vec<(&'static str, J)> = vec![("s", J::A(sts)), ("t", t)];
            if bb.is_cleanup {
                b.push(("cl", J::B(true)));
            }
            blocks.push(J::O(b));
        }
        row.push(("blocks", J::A(blocks)));
        (J::O(row), bc.callees)
    }
}

fn inst_id<'tcx>(cx: &mut Cx<'tcx>, inst: Instance<'tcx>) -> String {
    let base = match inst.def {
        InstanceKind::Item(d) => cx.path(d),
        other => format!("{}[{}]", cx.path(other.def_id()), shim_kind(&other)),
    };
    let mut a = Vec::new();
    for g in inst.args.iter() {
        if let Some(t) = g.as_type() {
            a.push(cx.ty_str(t));
        }
    }
    if a.is_empty() { base } else { format!("{}<{}>", base, a.join(", ")) }
}

fn shim_kind(k: &InstanceKind<'_>) -> &'static str {
    match k {
        InstanceKind::Item(_) => "item",
        InstanceKind::Virtual(..) => "virtual",
        InstanceKind::ClosureOnceShim { .. } => "closure_once_shim",
        InstanceKind::FnPtrShim(..) => "fnptr_shim",
        InstanceKind::ReifyShim(..) => "reify_shim",
        InstanceKind::DropGlue(..) => "drop_glue",
        InstanceKind::CloneShim(..) => "clone_shim",
        InstanceKind::Intrinsic(_) => "intrinsic",
        InstanceKind::VTableShim(_) => "vtable_shim",
        _ => "other",
    }
}

fn fn_meta<'tcx>(cx: &mut Cx<'tcx>, def: LocalDefId) -> Vec<(&'static str, J)> {
    let tcx = cx.tcx;
    let did = def.to_def_id();
    let mut extra: Vec<(&'static str, J)> = Vec::new();
    let dk = tcx.def_kind(def);
    extra.push(("defkind", s(format!("{:?}", dk))));
    if matches!(dk, DefKind::Fn | DefKind::AssocFn) {
        let sig = tcx.fn_sig(did).instantiate_identity().skip_norm_wip();
        extra.push(("abi", s(format!("{:?}", sig.abi()))));
        extra.push(("sig", s(pp!(sig.to_string()))));
        let vis = tcx.visibility(did);
        extra.push(("pub", J::B(vis.is_public())));
        let mut ins = Vec::new();
        for t in sig.skip_binder().inputs().iter() {
            ins.push(n(cx.ty(*t)));
        }
        extra.push(("inputs", J::A(ins)));
        extra.push(("output", n(cx.ty(sig.skip_binder().output()))));
        extra.push(("unsafe", J::B(!sig.safety().is_safe())));
    }
    if matches!(dk, DefKind::AssocFn | DefKind::AssocConst { .. }) {
        if let Some(imp) = tcx.impl_of_assoc(did) {
            extra.push(("impl", s(cx.path(imp))));
            let self_ty = tcx.type_of(imp).instantiate_identity().skip_norm_wip();
            extra.push(("impl_self", n(cx.ty(self_ty))));
            if let Some(tr) = tcx.impl_opt_trait_ref(imp) {
                let tr = tr.instantiate_identity().skip_norm_wip();
                extra.push(("impl_trait", s(cx.path(tr.def_id))));
            }
        } else if let Some(tr) = tcx.trait_of_assoc(did) {
            extra.push(("in_trait", s(cx.path(tr))));
        }
        extra.push(("name", s(tcx.item_name(did).to_string())));
    }
    if matches!(dk, DefKind::Closure) {
        let parent = tcx.typeck_root_def_id(did);
        extra.push(("root", s(cx.path(parent))));
        extra.push(("parent", s(cx.path(tcx.parent(did)))));
        if tcx.is_coroutine(did) {
            extra.push(("coroutine", J::B(true)));
        }
    }
    // generics with trait bounds are useful for E1 (`T: Trace`)
    extra
}

/// Pre-state-transform MIR of local coroutines (read in after_expansion before it is stolen).
pub fn pre_bodies<'tcx>(tcx: TyCtxt<'tcx>) -> Vec<(String, J)> {
    // Encoded lazily in `run` would be too late (stolen); but encoding needs the type table of
    // the final Cx. We therefore encode with a private Cx and re-intern nothing: the pre bodies
    // carry their own type table.
    let mut cx = Cx::new(tcx);
    let mut out = Vec::new();
    let keys: Vec<LocalDefId> = tcx.mir_keys(()).iter().copied().collect();
    for def in keys {
        let did = def.to_def_id();
        if !tcx.is_coroutine(did) {
            continue;
        }
        let (body, _) = tcx.mir_promoted(def);
        let body = body.borrow();
        let env = TypingEnv::post_analysis(tcx, did);
        let id = cx.path(did);
        let mut extra = fn_meta(&mut cx, def);
        extra.push(("phase", s("pre_transform")));
        let (j, _) = cx.body_record(id.clone(), "coroutine", did, &body, env, None, extra);
        out.push((id, j));
    }
    let types = std::mem::take(&mut cx.type_rows);
    // pack the private type table as the first element
    let mut res = vec![("__types__".to_string(), J::A(types))];
    res.extend(out);
    res
}

/// Attributes of ADT definitions, their variants and fields as written in the (expanded, cfg-stripped) AST.
/// Keyed by module path so that the rule side can join them with the ADT table.
pub fn ast_attrs<'tcx>(tcx: TyCtxt<'tcx>) -> J {
    use rustc_ast::ast;
    fn attrs_of(attrs: &[ast::Attribute]) -> J {
        let mut v = Vec::new();
        for a in attrs {
            if let ast::AttrKind::Normal(_) = a.kind {
                v.push(s(rustc_ast_pretty::pprust::attribute_to_string(a)));
            }
        }
        J::A(v)
    }
    fn fields_of(vd: &ast::VariantData) -> J {
        let mut v = Vec::new();
        for (i, f) in vd.fields().iter().enumerate() {
            let name = f.ident.map(|x| x.name.to_string()).unwrap_or_else(|| format!("{}", i));
            v.push(J::O(vec![("name", s(name)), ("attrs", attrs_of(&f.attrs))]));
        }
        J::A(v)
    }
    fn walk(items: &[Box<ast::Item>], path: &mut Vec<String>, out: &mut Vec<J>) {
        for it in items {
            match &it.kind {
                ast::ItemKind::Mod(_, ident, ast::ModKind::Loaded(inner, ..)) => {
                    path.push(ident.name.to_string());
                    walk(inner, path, out);
                    path.pop();
                }
                ast::ItemKind::Struct(ident, _, vd) | ast::ItemKind::Union(ident, _, vd) => {
                    let mut p = path.clone();
                    p.push(ident.name.to_string());
                    out.push(J::O(vec![
                        ("path", s(p.join("::"))),
                        ("attrs", attrs_of(&it.attrs)),
                        ("variants", J::A(vec![J::O(vec![("name", s(ident.name.to_string())), ("attrs", J::A(vec![])), ("fields", fields_of(vd))])])),
                    ]));
                }
                ast::ItemKind::Enum(ident, _, def) => {
                    let mut p = path.clone();
                    p.push(ident.name.to_string());
                    let mut vs = Vec::new();
                    for v in def.variants.iter() {
                        vs.push(J::O(vec![("name", s(v.ident.name.to_string())), ("attrs", attrs_of(&v.attrs)), ("fields", fields_of(&v.data))]));
                    }
                    out.push(J::O(vec![("path", s(p.join("::"))), ("attrs", attrs_of(&it.attrs)), ("variants", J::A(vs))]));
                }
                _ => {}
            }
        }
    }
    let steal = tcx.resolver_for_lowering();
    let guard = steal.borrow();
    let krate = &guard.1;
    let mut out = Vec::new();
    let mut path = vec![tcx.crate_name(rustc_hir::def_id::LOCAL_CRATE).to_string()];
    walk(&krate.items, &mut path, &mut out);
    J::A(out)
}

pub fn run<'tcx>(tcx: TyCtxt<'tcx>, out_dir: &str, tag: &str, pre: Vec<(String, J)>, ast_attrs: J) {
    let mut cx = Cx::new(tcx);
    let mut bodies: Vec<J> = Vec::new();
    let mut roots: Vec<Instance<'tcx>> = Vec::new();
    let want_mono = std::env::var("SA_MONO").map(|v| v == "1").unwrap_or(false);
    let keys: Vec<LocalDefId> = tcx.mir_keys(()).iter().copied().collect();
    for def in keys {
        let did = def.to_def_id();
        let dk = tcx.def_kind(def);
        let is_const_ctx = match tcx.hir_body_const_context(def) {
            Some(rustc_hir::ConstContext::ConstFn) | None => false,
            Some(_) => true,
        };
        let env = TypingEnv::post_analysis(tcx, did);
        let id = cx.path(did);
        let extra = fn_meta(&mut cx, def);
        let kind = match dk {
            DefKind::Fn | DefKind::AssocFn => "fn",
            DefKind::Closure => {
                if tcx.is_coroutine(did) {
                    "coroutine_post"
                } else {
                    "closure"
                }
            }
            DefKind::Const { .. } | DefKind::AssocConst { .. } | DefKind::Static { .. } | DefKind::AnonConst | DefKind::InlineConst => "const",
            DefKind::Ctor(..) => continue,
            _ => "other",
        };
        if kind == "other" {
            continue;
        }
        let body: &Body<'tcx> = if is_const_ctx || kind == "const" {
            tcx.mir_for_ctfe(def)
        } else {
            tcx.optimized_mir(def)
        };
        let (j, callees) = cx.body_record(id.clone(), kind, did, body, env, None, extra);
        bodies.push(j);
        // promoted bodies
        let promoted = tcx.promoted_mir(def);
        let mut prom_callees = Vec::new();
        for (pi, pb) in promoted.iter_enumerated() {
            let pid = format!("{}::{{promoted#{}}}", id, pi.as_usize());
            let (pj, pc) = cx.body_record(pid, "promoted", did, pb, env, None, vec![("of", s(id.clone()))]);
            bodies.push(pj);
            prom_callees.extend(pc);
        }
        if want_mono && matches!(dk, DefKind::Fn | DefKind::AssocFn) {
            let sig = tcx.fn_sig(did).instantiate_identity().skip_norm_wip();
            if format!("{:?}", sig.abi()).starts_with("C") {
                // extern "C" primitive wrappers: everything they (or their promoteds) call or reify
                roots.extend(callees);
                roots.extend(prom_callees);
            }
        }
    }
    // ------------------------------------------------------------------ mono closure
    let mut mono: Vec<J> = Vec::new();
    if want_mono {
        let max_depth: usize = std::env::var("SA_MONO_DEPTH").ok().and_then(|v| v.parse().ok()).unwrap_or(12);
        let mut seen: FxHashSet<Instance<'tcx>> = FxHashSet::default();
        let mut q: VecDeque<(Instance<'tcx>, usize)> = VecDeque::new();
        for r in roots {
            if seen.insert(r) {
                q.push_back((r, 0));
            }
        }
        let env = TypingEnv::fully_monomorphized();
        while let Some((inst, depth)) = q.pop_front() {
            let id = inst_id(&mut cx, inst);
            let did = inst.def_id();
            let has_body = match inst.def {
                InstanceKind::Item(d) => tcx.is_mir_available(d) && !tcx.is_foreign_item(d),
                InstanceKind::Virtual(..) | InstanceKind::Intrinsic(_) => false,
                _ => true,
            };
            if !has_body || inst.args.has_non_region_param() {
                mono.push(J::O(vec![
                    ("id", s(id)),
                    ("def", s(cx.path(did))),
                    ("opaque", J::B(true)),
                    ("ik", s(shim_kind(&inst.def))),
                ]));
                continue;
            }
            let body = tcx.instance_mir(inst.def);
            let extra = vec![("ik", s(shim_kind(&inst.def))), ("depth", n(depth))];
            let (j, callees) = cx.body_record(id, "mono", did, body, env, Some(inst), extra);
            mono.push(j);
            if depth < max_depth {
                for c in callees {
                    if seen.insert(c) {
                        q.push_back((c, depth + 1));
                    }
                }
            }
        }
    }
    // ------------------------------------------------------------------ ADTs / impls / traits
    let mut adts = Vec::new();
    let mut impls = Vec::new();
    let mut fns_nobody = Vec::new();
    for def in tcx.hir_crate_items(()).definitions() {
        let did = def.to_def_id();
        match tcx.def_kind(def) {
            DefKind::Struct | DefKind::Enum | DefKind::Union => {
                let adt = tcx.adt_def(did);
                let mut variants = Vec::new();
                for v in adt.variants() {
                    let mut fields = Vec::new();
                    for f in &v.fields {
                        let fty = tcx.type_of(f.did).instantiate_identity().skip_norm_wip();
                        fields.push(J::O(vec![
                            ("name", s(f.name.to_string())),
                            ("ty", n(cx.ty(fty))),
                            ("attrs", attrs_j(tcx, f.did)),
                            ("pub", J::B(f.vis.is_public())),
                        ]));
                    }
                    variants.push(J::O(vec![
                        ("name", s(v.name.to_string())),
                        ("fields", J::A(fields)),
                        ("attrs", attrs_j(tcx, v.def_id)),
                    ]));
                }
                let (file, line, _) = cx.loc(tcx.def_span(did));
                adts.push(J::O(vec![
                    ("path", s(cx.path(did))),
                    ("kind", s(format!("{:?}", tcx.def_kind(def)))),
                    ("variants", J::A(variants)),
                    ("attrs", attrs_j(tcx, did)),
                    ("file", s(file)),
                    ("line", n(line)),
                    ("generics", n(tcx.generics_of(did).own_params.len())),
                ]));
            }
            DefKind::Impl { .. } => {
                let self_ty = tcx.type_of(did).instantiate_identity().skip_norm_wip();
                let mut row: Vec<(&'static str, J)> = vec![("path", s(cx.path(did))), ("self", n(cx.ty(self_ty)))];
                if let Some(tr) = tcx.impl_opt_trait_ref(did) {
                    let tr = tr.instantiate_identity().skip_norm_wip();
                    row.push(("trait", s(cx.path(tr.def_id))));
                    row.push(("trait_args", cx.args_j(tr.args)));
                }
                let mut items = Vec::new();
                for it in tcx.associated_items(did).in_definition_order() {
                    let mut ir: Vec<(&'static str, J)> =
                        vec![("name", s(it.name().to_string())), ("path", s(cx.path(it.def_id)))];
                    if it.is_type() {
                        let t = tcx.type_of(it.def_id).instantiate_identity().skip_norm_wip();
                        ir.push(("ty", n(cx.ty(t))));
                        ir.push(("kind", s("type")));
                    } else if it.is_fn() {
                        ir.push(("kind", s("fn")));
                    } else {
                        ir.push(("kind", s("const")));
                    }
                    items.push(J::O(ir));
                }
                row.push(("items", J::A(items)));
                let (file, line, exp) = cx.loc(tcx.def_span(did));
                row.push(("file", s(file)));
                row.push(("line", n(line)));
                row.push(("from_expansion", J::B(exp)));
                row.push(("attrs", attrs_j(tcx, did)));
                // where-clauses (Trace bounds on params etc.)
                let preds = tcx.predicates_of(did).instantiate_identity(tcx);
                let mut ps = Vec::new();
                for p in preds.predicates.iter() {
                    ps.push(s(pp!(format!("{}", p.skip_norm_wip()))));
                }
                row.push(("preds", J::A(ps)));
                impls.push(J::O(row));
            }
            DefKind::Fn | DefKind::AssocFn => {
                // trait method declarations without body, foreign fns: record signature only
                if !tcx.is_mir_available(did) {
                    fns_nobody.push(s(cx.path(did)));
                }
            }
            _ => {}
        }
    }
    // ------------------------------------------------------------------ write
    let mut pre_types = J::A(Vec::new());
    let mut pre_bodies = Vec::new();
    for (k, v) in pre {
        if k == "__types__" {
            pre_types = v;
        } else {
            pre_bodies.push(v);
        }
    }
    let markers: Vec<J> = cx.markers.iter().map(|m| s(m.clone())).collect();
    let types = std::mem::take(&mut cx.type_rows);
    let top = J::O(vec![
        ("crate", s(cx.crate_name.clone())),
        ("tag", s(tag)),
        ("markers", J::A(markers)),
        ("types", J::A(types)),
        ("bodies", J::A(bodies)),
        ("mono", J::A(mono)),
        ("pre_types", pre_types),
        ("pre_bodies", J::A(pre_bodies)),
        ("adts", J::A(adts)),
        ("ast_attrs", ast_attrs),
        ("impls", J::A(impls)),
        ("fns_nobody", J::A(fns_nobody)),
    ]);
    let mut out = String::new();
    top.write(&mut out);
    let _ = std::fs::create_dir_all(out_dir);
    let tmp = format!("{}/{}.json.tmp", out_dir, tag);
    let fin = format!("{}/{}.json", out_dir, tag);
    std::fs::write(&tmp, out).expect("sa-driver: cannot write facts");
    std::fs::rename(&tmp, &fin).expect("sa-driver: cannot rename facts");
}

fn attrs_j<'tcx>(tcx: TyCtxt<'tcx>, did: DefId) -> J {
    let mut v = Vec::new();
    if let Some(ld) = did.as_local() {
        let hid = tcx.local_def_id_to_hir_id(ld);
        for a in tcx.hir_attrs(hid) {
            if let rustc_hir::Attribute::Unparsed(_) = a {
                v.push(s(rustc_hir_pretty::attribute_to_string(&tcx, a)));
            }
        }
    }
    J::A(v)
}
