// sa-driver: a rustc_private fact extractor for the gluon static-analysis checks.
//
// Used as RUSTC_WORKSPACE_WRAPPER under `cargo +nightly check`. For every workspace crate it
// writes one JSON file into $SA_OUT containing
//   * every local MIR body (fn, method, closure, coroutine, const, promoted) as a compact CFG
//     with resolved callees, structured places and rvalues,
//   * the local ADT table (fields, types, inert attributes),
//   * the local impl table (trait, self type, associated types, methods),
//   * an interned type table with structure and "marker containment" flags,
//   * on demand (SA_MONO=1) the monomorphic closure of bodies reachable from `extern "C"`
//     primitive wrappers (for the panic-containment rule).
// The rules themselves live in /verif/sa/rules (Python).
#![feature(rustc_private)]
#![allow(clippy::all)]

extern crate rustc_abi;
extern crate rustc_ast;
extern crate rustc_ast_pretty;
extern crate rustc_data_structures;
extern crate rustc_driver;
extern crate rustc_hir;
extern crate rustc_hir_pretty;
extern crate rustc_index;
extern crate rustc_interface;
extern crate rustc_middle;
extern crate rustc_session;
extern crate rustc_span;

mod extract;
mod json;

use rustc_driver::{Callbacks, Compilation};
use rustc_interface::interface;
use rustc_middle::ty::TyCtxt;

struct Cb {
    out_dir: String,
    tag: String,
    pre: Vec<(String, json::J)>,
    ast_attrs: json::J,
}

impl Callbacks for Cb {
    fn after_expansion<'tcx>(&mut self, _c: &interface::Compiler, tcx: TyCtxt<'tcx>) -> Compilation {
        // pre-state-transform MIR of coroutines must be read before analysis steals it
        // helper attributes (serde(..)) are dropped when the AST is lowered: read them from the AST first
        self.ast_attrs = extract::ast_attrs(tcx);
        self.pre = extract::pre_bodies(tcx);
        Compilation::Continue
    }
    fn after_analysis<'tcx>(&mut self, _c: &interface::Compiler, tcx: TyCtxt<'tcx>) -> Compilation {
        let pre = std::mem::take(&mut self.pre);
        let ast_attrs = std::mem::replace(&mut self.ast_attrs, json::J::Null);
        extract::run(tcx, &self.out_dir, &self.tag, pre, ast_attrs);
        Compilation::Continue
    }
}

struct Nop;
impl Callbacks for Nop {}

fn main() {
    let mut args: Vec<String> = std::env::args().collect();
    // RUSTC_WORKSPACE_WRAPPER: argv[1] is the real rustc path
    if args.len() > 1 && (args[1].ends_with("rustc") || args[1].contains("/rustc")) {
        args.remove(1);
    }
    let out_dir = std::env::var("SA_OUT").unwrap_or_default();
    let crate_name = args
        .iter()
        .position(|a| a == "--crate-name")
        .and_then(|i| args.get(i + 1))
        .cloned()
        .unwrap_or_default();
    let is_probe = args.iter().any(|a| a.starts_with("--print")) || crate_name == "___";
    let is_build_script = crate_name.starts_with("build_script_");
    let is_test = args.iter().any(|a| a == "--test");
    let mut tag = String::new();
    for (i, a) in args.iter().enumerate() {
        if a == "-C" {
            if let Some(m) = args.get(i + 1) {
                if let Some(h) = m.strip_prefix("metadata=") {
                    tag = h.to_string();
                }
            }
        } else if let Some(h) = a.strip_prefix("-Cmetadata=") {
            tag = h.to_string();
        }
    }
    if out_dir.is_empty() || is_probe || is_build_script || is_test || crate_name.is_empty() {
        rustc_driver::run_compiler(&args, &mut Nop);
        return;
    }
    let mut cb = Cb { out_dir, tag: format!("{}-{}", crate_name, tag), pre: Vec::new(), ast_attrs: json::J::Null };
    rustc_driver::run_compiler(&args, &mut cb);
}
