#!/usr/bin/env python3
"""./check <ID> [--tier quick|thorough]  — decide one property by static analysis of /repo's current tree."""
import argparse
import importlib
import os
import sys
import time

HERE = os.path.dirname(os.path.abspath(__file__))
sys.path.insert(0, HERE)

import harness  # noqa: E402
from rules import facts, report  # noqa: E402

MODULES = {
    "C01": "c01", "C02": "c02", "C04": "c04", "C05": "c05", "C06": "c06", "C07": "c07", "C08": "c08",
    "C11": "c11", "C12": "c12", "C13": "c13", "C14": "c14", "C15": "c15", "C16": "c16", "C17": "c17",
}


def main():
    ap = argparse.ArgumentParser()
    ap.add_argument("pid")
    ap.add_argument("--tier", default=os.environ.get("VERIF_TIER", "quick"))
    ap.add_argument("--repo", default=None)
    a = ap.parse_args()
    if a.repo:
        harness.REPO = a.repo
    pid = a.pid.upper()
    if pid not in MODULES:
        print("unknown or not-applicable property %s" % pid)
        return 2
    tier = a.tier if a.tier in ("quick", "thorough") else "quick"
    mod = importlib.import_module("rules." + MODULES[pid])
    rep = report.Report(pid, tier)
    t0 = time.time()
    need_mono = getattr(mod, "NEEDS_MONO", False)
    configs = ["ser"]
    if tier == "thorough":
        configs += getattr(mod, "THOROUGH_CONFIGS", ["default"])
    stats = None
    for cfg in configs:
        d = harness.extract(cfg, mono=need_mono, repo=harness.REPO)
        fb = facts.load(d, crates=getattr(mod, "CRATES", None))
        mod.run(fb, rep, tier, cfg)
        st = fb.stats()
        st["config"] = cfg
        st["facts_dir"] = d
        if stats is None:
            stats = st
            stats["configs"] = [cfg]
        else:
            stats["configs"].append(cfg)
    stats["extract_and_analyse_s"] = round(time.time() - t0, 1)
    return rep.finish(stats)


if __name__ == "__main__":
    sys.exit(main())
