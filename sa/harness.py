"""Fact extraction harness: runs the rustc_private driver over /repo's current working tree.

Facts are cached under /verif/.cache/facts/<source-hash>/<config>/ ; an edited tree has a new
hash and is re-extracted.  The dependency part of the cargo target dir is reused; workspace
members are always re-checked through the driver (their fingerprints are removed first because a
warm target dir would replay cached output and silently skip the driver).
"""
import fcntl
import hashlib
import json
import os
import shutil
import subprocess
import sys
import time

VERIF = os.path.dirname(os.path.dirname(os.path.abspath(__file__)))
REPO = os.environ.get("SA_REPO", "/repo")
CACHE = os.environ.get("SA_CACHE") or os.path.join(VERIF, ".cache")
DRIVER_DIR = os.path.join(VERIF, "sa", "driver")
DRIVER = os.path.join(DRIVER_DIR, "target", "release", "sa-driver")

# workspace members (crate names as rustc sees them); a fact file must exist for each
MEMBERS = [
    "gluon", "gluon_base", "gluon_parser", "gluon_check", "gluon_vm", "gluon_format",
    "gluon_completion", "gluon_codegen", "gluon_repl", "gluon_doc", "gluon_c_api",
]
MEMBER_PKGS = [
    "gluon", "gluon_base", "gluon_parser", "gluon_check", "gluon_vm", "gluon_format",
    "gluon_completion", "gluon_codegen", "gluon_repl", "gluon_doc", "gluon_c-api", "gluon_c_api",
]
# crates whose fact file must be present for a run to count (bin crate `gluon_repl` is named `gluon`)
REQUIRED_CRATES = ["gluon", "gluon_base", "gluon_parser", "gluon_check", "gluon_vm", "gluon_format",
                   "gluon_completion", "gluon_codegen", "gluon_doc", "gluon_c_api"]

CONFIGS = {
    # name: cargo args after `check --offline`
    "ser": ["--workspace", "--lib", "--bins", "--features", "serialization"],
    "default": ["--workspace", "--lib", "--bins"],
    "nodefault": ["-p", "gluon", "--lib", "--no-default-features"],
}


def sysroot():
    return subprocess.check_output(["rustc", "+nightly", "--print", "sysroot"], text=True).strip()


def source_hash(repo=REPO):
    """sha256 over every tracked or untracked (non-ignored) file of the repo working tree."""
    out = subprocess.check_output(
        ["git", "-C", repo, "ls-files", "-co", "--exclude-standard", "-z"])
    h = hashlib.sha256()
    for name in sorted(out.split(b"\0")):
        if not name:
            continue
        p = os.path.join(repo.encode(), name)
        if name.startswith(b"target/") or not os.path.isfile(p):
            continue
        h.update(name + b"\0")
        try:
            with open(p, "rb") as f:
                h.update(hashlib.sha256(f.read()).digest())
        except OSError:
            pass
    # the driver and marker table are part of the key: a changed extractor must not reuse old facts
    for extra in [os.path.join(DRIVER_DIR, "src", "main.rs"), os.path.join(DRIVER_DIR, "src", "extract.rs"),
                  os.path.join(DRIVER_DIR, "src", "json.rs"), os.path.join(VERIF, "tables", "markers.json")]:
        if os.path.exists(extra):
            with open(extra, "rb") as f:
                h.update(hashlib.sha256(f.read()).digest())
    return h.hexdigest()[:24]


def build_driver(quiet=True):
    env = dict(os.environ, CARGO_NET_OFFLINE="true")
    r = subprocess.run(["cargo", "build", "--release", "--offline"], cwd=DRIVER_DIR, env=env,
                       stdout=subprocess.PIPE, stderr=subprocess.STDOUT, text=True)
    if r.returncode != 0:
        sys.stderr.write(r.stdout)
        raise SystemExit("sa: driver build failed")
    if not quiet:
        print(r.stdout)


def markers():
    with open(os.path.join(VERIF, "tables", "markers.json")) as f:
        return [m["path"] for m in json.load(f)["markers"]]


def _rm_member_fingerprints(target_dir):
    fp = os.path.join(target_dir, "debug", ".fingerprint")
    if not os.path.isdir(fp):
        return
    for d in os.listdir(fp):
        base = d.rsplit("-", 1)[0]
        if base in MEMBER_PKGS:
            shutil.rmtree(os.path.join(fp, d), ignore_errors=True)


def facts_dir(config="ser", mono=False, repo=REPO):
    h = source_hash(repo)
    return os.path.join(CACHE, "facts", h, config + ("-mono" if mono else ""))


def extract(config="ser", mono=False, repo=REPO, verbose=False):
    """Return the directory holding fresh fact files for /repo's current tree."""
    os.makedirs(CACHE, exist_ok=True)
    out = facts_dir(config, mono, repo)
    stamp = os.path.join(out, "OK")
    lock = open(os.path.join(CACHE, "extract.lock"), "w")
    fcntl.flock(lock, fcntl.LOCK_EX)
    try:
        if os.path.exists(stamp):
            return out
        if not os.path.exists(DRIVER) or any(
                os.path.getmtime(os.path.join(DRIVER_DIR, "src", f)) > os.path.getmtime(DRIVER)
                for f in os.listdir(os.path.join(DRIVER_DIR, "src"))):
            build_driver()
        shutil.rmtree(out, ignore_errors=True)
        os.makedirs(out)
        target = os.path.join(CACHE, "target-sa")
        _rm_member_fingerprints(target)
        env = dict(os.environ)
        env.update({
            "LD_LIBRARY_PATH": os.path.join(sysroot(), "lib"),
            "RUSTFLAGS": "-Zmir-opt-level=0 -Awarnings",
            "RUSTC_WORKSPACE_WRAPPER": DRIVER,
            "CARGO_TARGET_DIR": target,
            "CARGO_NET_OFFLINE": "true",
            "SA_OUT": out,
            "SA_MARKERS": ",".join(markers()),
            "SA_MONO": "1" if mono else "0",
        })
        env.pop("RUSTC_WRAPPER", None)
        t0 = time.time()
        cmd = ["cargo", "+nightly", "check", "--offline"] + CONFIGS[config]
        r = subprocess.run(cmd, cwd=repo, env=env, stdout=subprocess.PIPE, stderr=subprocess.STDOUT, text=True)
        if r.returncode != 0:
            sys.stderr.write(r.stdout[-6000:])
            raise SystemExit("sa: cargo check of /repo failed under the driver (does the tree compile?)")
        have = set()
        for f in os.listdir(out):
            if f.endswith(".json"):
                have.add(f.rsplit("-", 1)[0])
        need = REQUIRED_CRATES if config != "nodefault" else ["gluon", "gluon_vm", "gluon_base", "gluon_check", "gluon_parser"]
        missing = [c for c in need if c not in have]
        if missing:
            raise SystemExit("sa: no fact file for crates %s (driver skipped?)" % missing)
        with open(stamp, "w") as f:
            json.dump({"config": config, "mono": mono, "wall_s": time.time() - t0, "cmd": cmd}, f)
        if verbose:
            print("sa: extracted %s in %.0fs" % (out, time.time() - t0))
        _gc_cache(keep=os.path.dirname(out))
        return out
    finally:
        fcntl.flock(lock, fcntl.LOCK_UN)
        lock.close()


def _gc_cache(keep):
    """Keep at most 3 fact generations (disk is limited)."""
    root = os.path.join(CACHE, "facts")
    gens = [os.path.join(root, d) for d in os.listdir(root)]
    gens.sort(key=lambda p: os.path.getmtime(p), reverse=True)
    for g in gens[3:]:
        if g != keep:
            shutil.rmtree(g, ignore_errors=True)


if __name__ == "__main__":
    cfg = sys.argv[1] if len(sys.argv) > 1 else "ser"
    mono = len(sys.argv) > 2 and sys.argv[2] == "mono"
    print(extract(cfg, mono, verbose=True))
