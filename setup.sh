#!/bin/sh
# Build the fact-extraction driver and prime the dependency part of the cargo target dir (offline).
set -e
cd "$(dirname "$0")"
export CARGO_NET_OFFLINE=true
(cd sa/driver && cargo build --release --offline)
python3 sa/harness.py ser
